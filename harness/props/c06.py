"""C06 — scenarios are isolated from each other and from the model they were created from.

Probes (clone owns points / _elements) -> Gen obligations; correspondence of the Lean heap machine
(Drive/C06) with the real bptk object on random / exhaustive operation histories over 2 managers x 3
scenarios registered from ONE base model object; reference check on the real code alone:
 (a) non-interference: an operation never changes the observable state (scenario settings, the model
     object's constants / points table / run specs, memo emptiness) of a slot it is not addressed to, nor of
     the base model, nor a manager's base_constants / base_points dictionaries (wave 2);
 (b) every read (run / session step / REST run / direct base evaluation) whose memo is consistent returns
     exactly the numbers of a FRESHLY BUILT model carrying that scenario's declared settings.

Wave 2: the third constant of the harness model is an element of an ARRAYED constant (`v[1]`, so that every history
runs on a model with `_elements` tables, whose size and identity are observed after every operation); manager-level
base dictionaries are part of the compared state (`mgr m` lines); third probe `mergeOwnsDict`; exhaustive
histories over a 12-letter alphabet (incl. reset_scenario_cache, constants-only session settings, later
registrations with and without own dictionaries) after a prefix whose managers carry base constants / base points:
L = 2 quick; L = 4 complete + L = 5 over the 7 state-changing letters in thorough (worker processes).
"""
import json, os
from common import *

NM, NS = 2, 3
MGR = ["m0", "m1"]
SCN = ["s0", "s1", "s2"]
CONSTS = ["c0", "c1", "v[1]"]      # the third one is element 1 of the arrayed constant `v` (wave 2)
N_ELEMS = 2
POINTS = ["p0", "p1"]
EQS = ["s", "f", "h"]
DEF_CONST = {0: 11, 1: 12, 2: 13}
DEF_PTS = {0: 21, 1: 22}
DEF_RS = (0, 4, 2)          # start, stop, dt-code (dt = code / 2)


def pts_val(v):
    return [[0.0, float(v)], [10.0, float(v) + 5.0]]


def pts_code(lst):
    return int(lst[0][1])


def build(consts, pts, rs):
    """The model built directly with the given values (ids -> value codes)."""
    from BPTK_Py import Model
    from BPTK_Py import sd_functions as sd
    m = Model(starttime=float(rs[0]), stoptime=float(rs[1]), dt=rs[2] / 2.0, name="c06")
    s = m.stock("s"); f = m.flow("f"); h = m.converter("h")
    g0 = m.converter("g0"); g1 = m.converter("g1")
    v = m.constant("v"); v.setup_vector(N_ELEMS, [0.0, 0.0])
    cs = [m.constant(CONSTS[0]), m.constant(CONSTS[1]), m.constants[CONSTS[2]]]
    for k, n in enumerate(POINTS):
        m.points[n] = pts_val(pts[k])
    for k in range(3):
        cs[k].equation = float(consts[k])
    g0.equation = sd.lookup(sd.time(), "p0")
    g1.equation = sd.lookup(sd.time(), "p1")
    f.equation = cs[0] + g0 * cs[1]
    h.equation = v.arr_sum() * g1
    s.equation = f
    s.initial_value = 0.0
    return m


FILE_MODEL_SRC = """from BPTK_Py import Model
from BPTK_Py import sd_functions as sd


class simulation_model(Model):
    def __init__(self):
        super().__init__(starttime=%r, stoptime=%r, dt=%r, name="c06file")
        s = self.stock("s"); f = self.flow("f"); h = self.converter("h")
        g0 = self.converter("g0"); g1 = self.converter("g1")
        v = self.constant("v"); v.setup_vector(%d, [0.0, 0.0])
        cs = [self.constant(%r), self.constant(%r), self.constants[%r]]
        pts = %r
        for n, val in pts.items():
            self.points[n] = val
        defaults = %r
        for k in range(3):
            cs[k].equation = defaults[k]
        g0.equation = sd.lookup(sd.time(), "p0")
        g1.equation = sd.lookup(sd.time(), "p1")
        f.equation = cs[0] + g0 * cs[1]
        h.equation = v.arr_sum() * g1
        s.equation = f
        s.initial_value = 0.0
"""
_file_roots = []


def write_file_world(prefix):
    """The registration prefix of a history as scenario FILES (wave 7): every manager in a file of its own with its base constants /
    base points and the first half of its scenarios, the other scenarios of the manager in a SECOND file (several files per manager);
    the SD DSL model as a module.  Returns (root, managers in file order, {slot: dict} as loaded, dropped op count)."""
    import sys
    root = scratch_dir("c06files")
    os.makedirs(os.path.join(root, "scenarios")); os.makedirs(os.path.join(root, "simulation_models"))
    open(os.path.join(root, "simulation_models", "__init__.py"), "w").close()
    with open(os.path.join(root, "simulation_models", "c06file.py"), "w") as f:
        f.write(FILE_MODEL_SRC % (float(DEF_RS[0]), float(DEF_RS[1]), DEF_RS[2] / 2.0, N_ELEMS, CONSTS[0], CONSTS[1], CONSTS[2],
                                  {POINTS[k]: pts_val(DEF_PTS[k]) for k in DEF_PTS}, [float(DEF_CONST[k]) for k in range(3)]))
    mgrs, scns = {}, {}
    for op in prefix:
        if op[0] == "regmgr":
            mgrs.setdefault(op[1], (op[2], op[3]))
            for i, d in (op[4] if len(op) > 4 else {}).items():
                if i // NS in mgrs: scns[i] = d
        elif op[0] == "add" and op[1] // NS in mgrs:
            scns[op[1]] = op[2]
    for m, (bc, bp) in mgrs.items():
        mine = [i for i in scns if i // NS == m]
        half = (len(mine) + 1) // 2
        a = {"model": "simulation_models/c06file", "scenarios": {SCN[i % NS]: mk_dict(scns[i]) for i in mine[:half]}}
        if bc: a["base_constants"] = {CONSTS[k]: float(v) for k, v in bc.items()}
        if bp: a["base_points"] = {POINTS[k]: pts_val(v) for k, v in bp.items()}
        with open(os.path.join(root, "scenarios", f"a_{MGR[m]}.json"), "w") as f:
            json.dump({MGR[m]: a}, f, indent=1)
        if mine[half:]:
            with open(os.path.join(root, "scenarios", f"b_{MGR[m]}.json"), "w") as f:
                json.dump({MGR[m]: {"model": "simulation_models/c06file", "scenarios": {SCN[i % NS]: mk_dict(scns[i]) for i in mine[half:]}}}, f, indent=1)
    if not _file_roots:
        sys.path.insert(0, root)
    _file_roots.append(root)
    return root, mgrs, scns


_oracle_cache = {}


def oracle_run(consts, pts, rs):
    """results of a freshly built model with these settings, start..stop with dt"""
    key = (tuple(sorted(consts.items())), tuple(sorted(pts.items())), tuple(rs))
    if key not in _oracle_cache:
        m = build(consts, pts, rs)
        n = int(round((rs[1] - rs[0]) / (rs[2] / 2.0)))
        grid = [rs[0] + k * (rs[2] / 2.0) for k in range(n + 1)]
        _oracle_cache[key] = {eq: {t: float(m.equation(eq, t)) for t in grid} for eq in EQS}
    return _oracle_cache[key]


def oracle_at(consts, pts, rs, t):
    key = ("at", tuple(sorted(consts.items())), tuple(sorted(pts.items())), tuple(rs), t)
    if key not in _oracle_cache:
        m = build(consts, pts, rs)
        _oracle_cache[key] = {eq: float(m.equation(eq, t)) for eq in EQS}
    return _oracle_cache[key]


# ---------------------------------------------------------------- settings dictionaries
def mk_dict(d):
    """harness dict {consts:{id:v}, pts:{id:v}, start, stop, dt} -> BPTK scenario / settings dictionary (fresh objects);
    `empty` lists keys that are given as present-but-empty dictionaries (presence vs truthiness)"""
    out = {}
    for key in d.get("empty", ()):
        out[key] = {}
    if d.get("consts"):
        out["constants"] = {CONSTS[k]: float(v) for k, v in d["consts"].items()}
    if d.get("pts"):
        out["points"] = {POINTS[k]: pts_val(v) for k, v in d["pts"].items()}
    rs = {}
    if d.get("start") is not None: rs["starttime"] = float(d["start"])
    if d.get("stop") is not None: rs["stoptime"] = float(d["stop"])
    if d.get("dt") is not None: rs["dt"] = d["dt"] / 2.0
    if rs:
        out["runspecs"] = rs
    return out


def st(d):
    return ",".join(f"{k}:{v}" for k, v in d.items()) or "-"


def opt(x):
    return "-" if x is None else str(x)


def dict_args(d):
    return f"{st(d.get('consts') or {})} {st(d.get('pts') or {})} {opt(d.get('start'))} {opt(d.get('stop'))} {opt(d.get('dt'))}"


def slot(m, k):
    return m * NS + k


# ---------------------------------------------------------------- the real world
class Real:
    def __init__(self, file_prefix=None):
        import sys
        from BPTK_Py import bptk
        self.base = build(DEF_CONST, DEF_PTS, DEF_RS)
        self.root, self.file_mgrs, self.loaded = None, {}, {}
        if file_prefix is None:
            self.b = bptk()
        else:
            # managers read from scenario files: bptk() reads ./scenarios of the working directory; file monitors off
            self.root, self.file_mgrs, self.loaded = write_file_world(file_prefix)
            cc = sys.modules["BPTK_Py.config.config"].configuration
            old = (cc["set_scenario_monitor"], cc["set_model_monitor"])
            cc["set_scenario_monitor"], cc["set_model_monitor"] = False, False
            cwd = os.getcwd(); os.chdir(self.root)
            try:
                self.b = bptk()
            finally:
                os.chdir(cwd)
                cc["set_scenario_monitor"], cc["set_model_monitor"] = old
        quiet_bptk_logging()
        self.app = None

    def close(self):
        try:
            self.b.destroy()
        except Exception:
            pass
        if self.root and _file_roots and self.root != _file_roots[0]:
            import shutil
            shutil.rmtree(self.root, ignore_errors=True)

    def mgr(self, m):
        return self.b.scenario_manager_factory.scenario_managers.get(MGR[m])

    def scn(self, i):
        mg = self.mgr(i // NS)
        return None if mg is None else mg.scenarios.get(SCN[i % NS])

    def existing(self, ms, ks):
        """slots of the product in the order the real loops visit them; [] when the selection is outside the
        domain: a selected manager owning none of the selected scenarios makes run_scenarios raise (len(None))
        and makes run_step step ALL scenarios of that manager (empty filter) — an addressing quirk, not a leak"""
        for name, mg in self.b.scenario_manager_factory.scenario_managers.items():
            if name in MGR and MGR.index(name) in ms and not any(sn in SCN and SCN.index(sn) in ks for sn in mg.scenarios):
                return []
        out = []
        for name, mg in self.b.scenario_manager_factory.scenario_managers.items():
            if name in MGR and MGR.index(name) in ms:
                for sname in mg.scenarios.keys():
                    if sname in SCN and SCN.index(sname) in ks:
                        out.append(slot(MGR.index(name), SCN.index(sname)))
        return out

    def view(self, i):
        sc = self.scn(i)
        if sc is None:
            return None
        mod = sc.model
        return {"consts": {CONSTS.index(k): int(v) for k, v in sc.constants.items()},
                "pts": {POINTS.index(k): pts_code(v) for k, v in sc.points.items()},
                "rs": (int(sc.starttime), int(sc.stoptime), int(sc.dt * 2)),
                "meqs": {k: int(mod.equations[CONSTS[k]](0.0)) for k in range(3)},
                "mpts": {POINTS.index(k): pts_code(v) for k, v in mod.points.items()},
                "mrs": (int(mod.starttime), int(mod.stoptime), int(mod.dt * 2)),
                "live": sc.sd_simulation is not None,
                "elems": len(mod.constants["v"]._elements.equations),
                "memo": any(len(v) > 0 for v in mod.memo.values())}

    def mgr_view(self, m):
        mg = self.mgr(m)
        if mg is None:
            return None
        return {"bc": {CONSTS.index(k): int(v) for k, v in mg.base_constants.items()},
                "bp": {POINTS.index(k): pts_code(v) for k, v in mg.base_points.items()}}

    def elements_tables(self):
        """identity + content of every `_elements` table reachable from the base model and the clones"""
        out = {"base": (id(self.base.constants["v"]._elements), tuple(self.base.constants["v"]._elements.equations))}
        for i in range(NM * NS):
            sc = self.scn(i)
            if sc is not None:
                e = sc.model.constants["v"]._elements
                out[i] = (id(e), tuple(e.equations))
        return out

    def base_view(self):
        mod = self.base
        return {"meqs": {k: int(mod.equations[CONSTS[k]](0.0)) for k in range(3)},
                "mpts": {POINTS.index(k): pts_code(v) for k, v in mod.points.items()},
                "mrs": (int(mod.starttime), int(mod.stoptime), int(mod.dt * 2)),
                "elems": len(mod.constants["v"]._elements.equations),
                "memo": any(len(v) > 0 for v in mod.memo.values())}

    # every method returns (model lines, addressed slots, reads) ; reads = [(slot|"base", kind, t, {eq:{t:v}})]
    def apply(self, op):
        k = op[0]
        b = self.b
        if k == "load":
            # the managers and scenarios that were read from the scenario files when the bptk object was built
            lines = [f"regmgr {m} {st(bc)} {st(bp)}" for m, (bc, bp) in self.file_mgrs.items()]
            for i, d in self.loaded.items():
                lines += [f"add {i} {i // NS} {dict_args(d)}", f"setup {i}"]
            return lines, list(self.loaded), []
        if k == "regmgr":
            m, bc, bp = op[1], op[2], op[3]
            inline = op[4] if len(op) > 4 else {}
            cfg = {"model": self.base}
            if bc: cfg["base_constants"] = {CONSTS[a]: float(v) for a, v in bc.items()}
            if bp: cfg["base_points"] = {POINTS[a]: pts_val(v) for a, v in bp.items()}
            inline = {i: d for i, d in inline.items() if i // NS == m}
            if inline:                      # scenarios given inside the manager dictionary (`"scenarios"` key)
                cfg["scenarios"] = {SCN[i % NS]: mk_dict(d) for i, d in inline.items()}
            b.register_scenario_manager({MGR[m]: cfg})
            lines = [f"regmgr {m} {st(bc)} {st(bp)}"]
            for i, d in inline.items():
                lines.append(f"add {i} {m} {dict_args(d)}")
                if m in self.file_mgrs: lines.append(f"setup {i}")
            return lines, list(inline), []
        if k == "add":
            _, i, d = op
            b.register_scenarios(scenarios={SCN[i % NS]: mk_dict(d)}, scenario_manager=MGR[i // NS])
            lines = [f"add {i} {i // NS} {dict_args(d)}"]
            if i // NS in self.file_mgrs and self.mgr(i // NS) is not None:
                lines.append(f"setup {i}")     # a file-loaded manager instantiates the model class and sets it up at once
            return lines, [i], []
        if k == "run":
            _, ms, ks = op
            slots = self.existing(ms, ks)
            if not slots:
                return [], [], []
            res = b.run_scenarios(scenarios=[SCN[x] for x in ks], scenario_managers=[MGR[x] for x in ms],
                                  equations=list(EQS), series_names={}, return_format="dict")
            reads = []
            for i in slots:
                r = ((res or {}).get(MGR[i // NS], {}).get(SCN[i % NS], {}) or {}).get("equations", {})
                reads.append((i, "run", None, {eq: {float(t): float(v) for t, v in r[eq].items()} for eq in r}))
            return [f"run {i}" for i in slots], slots, reads
        if k == "session":
            _, ms, ks, settings = op
            slots = self.existing(ms, ks)
            if not slots:
                return [], [], []
            stg = {}
            for i, d in settings.items():
                stg.setdefault(MGR[i // NS], {})[SCN[i % NS]] = mk_dict(d)
            b.begin_session(scenarios=[SCN[x] for x in ks], scenario_managers=[MGR[x] for x in ms], settings=stg,
                            equations=list(EQS), starttime=0.0, dt=1.0)
            # ONE call: the model lowers it (settings per (manager, scenario) pair, managers in call order)
            sets = [(i, d) for m in ms for i, d in settings.items() if i // NS == m]
            line = f"session {NS} {','.join(str(i) for i in slots)}" + "".join(f" {i} {dict_args(d)}" for i, d in sets)
            self.session = (ms, ks)
            return [line], slots, []
        if k == "step":
            _, settings = op
            ss = b.session_state
            if not ss or ss["stoptime"] is None or ss["step"] > ss["stoptime"]:
                return [], [], []
            ms, ks = self.session
            slots = self.existing(ms, ks)
            t = ss["step"]
            stg = {}
            for i, d in settings.items():
                stg.setdefault(MGR[i // NS], {})[SCN[i % NS]] = mk_dict(d)
            res = b.run_step(settings=stg)
            lines, reads = [], []
            for i in slots:
                d = settings.get(i, {})
                lines.append(f"step {i} {st(d.get('consts') or {})} {st(d.get('pts') or {})} {int(t * 2)}")
                r = (res.get(MGR[i // NS], {}) or {}).get(SCN[i % NS], {}) or {}
                reads.append((i, "step", float(t), {eq: {float(a): float(v) for a, v in r[eq].items()} for eq in r}))
            return lines, slots, reads
        if k == "endsession":
            if not b.session_state:
                return [], [], []
            ms, ks = self.session
            slots = self.existing(ms, ks)
            b.end_session()
            return [f"reset {i}" for i in slots], slots, []
        if k == "rest":
            _, ms, ks, settings = op
            settings = {i: d for i, d in settings.items() if self.scn(i) is not None}
            slots = self.existing(ms, ks)
            if not slots:
                return [], [], []
            if self.app is None:
                from BPTK_Py.server import BptkServer
                self.app = BptkServer(__name__, bptk_factory=lambda: self.b)
            stg = {}
            for i, d in settings.items():
                stg.setdefault(MGR[i // NS], {})[SCN[i % NS]] = mk_dict(d)
            content = {"settings": stg, "scenario_managers": [MGR[x] for x in ms], "scenarios": [SCN[x] for x in ks],
                       "equations": list(EQS)}
            resp = self.app.test_client().post("/run", json=content)
            try:
                res = json.loads(resp.data) if resp.status_code == 200 else {}
            except Exception:
                res = {}
            lines, reads = [], []
            for i, d in settings.items():
                lines += [f"reset {i}", f"configure {i} {dict_args(d)}"]
            for i in slots:
                lines.append(f"run {i}")
                r = ((res or {}).get(MGR[i // NS], {}).get(SCN[i % NS], {}) or {}).get("equations", {})
                reads.append((i, "run", None, {eq: {float(t): float(v) for t, v in r[eq].items()} for eq in r}))
            return lines, sorted(set(list(settings) + slots)), reads
        if k == "reset":
            _, i = op
            if self.scn(i) is None:
                return [], [], []
            b.reset_scenario_cache(scenario_manager=MGR[i // NS], scenario=SCN[i % NS])
            return [f"reset {i}"], [i], []
        if k == "evalbase":
            n = int(round((DEF_RS[1] - DEF_RS[0]) / (DEF_RS[2] / 2.0)))
            grid = [DEF_RS[0] + j * (DEF_RS[2] / 2.0) for j in range(n + 1)]
            r = {eq: {t: float(self.base.equation(eq, t)) for t in grid} for eq in EQS}
            return ["evalbase"], [], [("base", "run", None, r)]
        raise ValueError(op)


# ---------------------------------------------------------------- reference semantics (independent of Lean)
def fill(dst, src):
    out = dict(dst)
    for k, v in src.items():
        if k not in out:
            out[k] = v
    return out


class Shadow:
    """The property's right-hand side: every scenario alone, on a model built from the base model's own
    settings, receiving only the operations addressed to it."""
    def __init__(self):
        self.mgrs = {}
        self.s = {}
        self.base_gens = 0

    def fresh(self, m, d):
        bc, bp = self.mgrs[m]
        pts = fill(d.get("pts") or {}, bp)
        rs = list(DEF_RS)
        for j, key in enumerate(("start", "stop", "dt")):
            if d.get(key) is not None:
                rs[j] = d[key]
        return {"consts": fill(d.get("consts") or {}, bc), "pts": pts, "rs": tuple(rs),
                "meqs": dict(DEF_CONST), "mpts": {**DEF_PTS, **pts}, "mrs": DEF_RS, "live": False, "gens": []}

    def eff(self, s):
        return (tuple(sorted(s["meqs"].items())), tuple(sorted(s["mpts"].items())), s["mrs"])

    def apply_scn(self, s):
        s["meqs"].update(s["consts"]); s["mpts"].update(s["pts"]); s["mrs"] = s["rs"]

    def line(self, ln):
        """consume one model-level line; returns expected read (slot, eff, clean) or None"""
        p = ln.split()
        def sd(x):
            return {} if x == "-" else {int(a.split(":")[0]): int(a.split(":")[1]) for a in x.split(",")}
        def od(x):
            return None if x == "-" else int(x)
        if p[0] == "regmgr":
            self.mgrs.setdefault(int(p[1]), (sd(p[2]), sd(p[3])))
        elif p[0] == "add":
            i, m = int(p[1]), int(p[2])
            if m in self.mgrs:
                self.s[i] = self.fresh(m, {"consts": sd(p[3]), "pts": sd(p[4]), "start": od(p[5]), "stop": od(p[6]), "dt": od(p[7])})
        elif p[0] == "run":
            s = self.s.get(int(p[1]))
            if s is not None:
                self.apply_scn(s)
                e = self.eff(s)
                clean = all(g == e for g in s["gens"])
                s["gens"].append(e)
                return (int(p[1]), s, clean)
        elif p[0] == "session":
            # the call's reading: settings addressed to a (manager, scenario) pair are configured on that pair; every slot is reset
            slots = [int(x) for x in p[2].split(",")] if p[2] != "-" else []
            sets = {int(p[j]): p[j + 1:j + 6] for j in range(3, len(p), 6)}
            for i in slots:
                if i in sets:
                    self.line("configure %d %s" % (i, " ".join(sets[i])))
                self.line(f"reset {i}")
        elif p[0] == "configure":
            s = self.s.get(int(p[1]))
            if s is not None:
                s["consts"].update(sd(p[2])); s["pts"].update(sd(p[3]))
                rs = list(s["rs"])
                for j in range(3):
                    if od(p[4 + j]) is not None:
                        rs[j] = od(p[4 + j])
                s["rs"] = tuple(rs)
        elif p[0] == "reset":
            s = self.s.get(int(p[1]))
            if s is not None:
                s["live"] = False; s["gens"] = []
        elif p[0] == "step":
            s = self.s.get(int(p[1]))
            if s is not None:
                if not s["live"]:
                    self.apply_scn(s)
                s["live"] = True
                s["meqs"].update(sd(p[2])); s["mpts"].update(sd(p[3]))
                e = self.eff(s)
                clean = all(g == e for g in s["gens"])
                s["gens"].append(e)
                return (int(p[1]), s, clean)
        elif p[0] == "evalbase":
            self.base_gens += 1
        elif p[0] == "setup":
            s = self.s.get(int(p[1]))
            if s is not None:
                s["meqs"].update(s["consts"]); s["mpts"].update(s["pts"])
        return None

    def view(self, i):
        s = self.s.get(i)
        if s is None:
            return None
        return {"consts": dict(s["consts"]), "pts": dict(s["pts"]), "rs": tuple(s["rs"]), "meqs": dict(s["meqs"]),
                "mpts": dict(s["mpts"]), "mrs": tuple(s["mrs"]), "live": s["live"], "elems": N_ELEMS, "memo": len(s["gens"]) > 0}

    def mgr_view(self, m):
        if m not in self.mgrs:
            return None
        return {"bc": dict(self.mgrs[m][0]), "bp": dict(self.mgrs[m][1])}

    def base_view(self):
        return {"meqs": dict(DEF_CONST), "mpts": dict(DEF_PTS), "mrs": DEF_RS, "elems": N_ELEMS, "memo": self.base_gens > 0}


def parse_model_view(line):
    if line == "none":
        return None
    kv = dict(x.split("=", 1) for x in line.split(" "))
    def sd(x):
        return {} if x == "-" else {int(a.split(":")[0]): int(a.split(":")[1]) for a in x.split(",")}
    def rs(x):
        return tuple(int(a) for a in x.split("/"))
    meqs = dict(DEF_CONST); meqs.update(sd(kv["meqs"]))
    return {"consts": sd(kv["consts"]), "pts": sd(kv["pts"]), "rs": rs(kv["rs"]), "meqs": meqs, "mpts": sd(kv["mpts"]),
            "mrs": rs(kv["mrs"]), "live": kv["live"] == "1", "elems": int(kv["elems"]), "memo": kv["memo"] != "-"}


def parse_model_mgr(line):
    if line == "none":
        return None
    kv = dict(x.split("=", 1) for x in line.split(" "))
    def sd(x):
        return {} if x == "-" else {int(a.split(":")[0]): int(a.split(":")[1]) for a in x.split(",")}
    return {"bc": sd(kv["bc"]), "bp": sd(kv["bp"])}


def parse_model_base(line):
    kv = dict(x.split("=", 1) for x in line.split(" "))
    e = kv["eff"].split(";")
    def sd(x):
        return {} if x == "-" else {int(a.split(":")[0]): int(a.split(":")[1]) for a in x.split(",")}
    meqs = dict(DEF_CONST); meqs.update(sd(e[0]))
    return {"meqs": meqs, "mpts": sd(e[1]), "mrs": tuple(int(a) for a in e[2].split("/")), "elems": int(e[3]), "memo": kv["memo"] != "-"}


# ---------------------------------------------------------------- one history
class _Shifted(list):
    """violations list that reports operation indices of the history as written (file world: `("files",)` + prefix + rest)"""
    def __init__(self, shift):
        super().__init__(); self.shift = shift
    def append(self, v):
        super().append((v[0] + self.shift,) + tuple(v[1:]))


def run_history(ops, want_lines=True):
    """Real code on `ops`. Returns (request lines, real reply lines as canonical python objects, violations).
    violations: list of (op index, key, text)."""
    import contextlib, io
    with contextlib.redirect_stdout(io.StringIO()):        # BPTK prints every [ERROR] log line
        return _run_history(ops)


def _run_history(ops):
    shift = 0
    if ops and ops[0] == ("files",):
        # file world: the leading registrations are scenario files read when the bptk object is built (one composite operation)
        n = 0
        while 1 + n < len(ops) and ops[1 + n][0] in ("regmgr", "add"):
            n += 1
        real = Real(file_prefix=ops[1:1 + n])
        ops = [("load",)] + list(ops[1 + n:])
        shift = n
    else:
        real = Real()
    sh = Shadow()
    req, rep, viols = [], [], _Shifted(shift)
    stats = {"reads": 0, "reads_checked": 0}
    try:
        views = {i: real.view(i) for i in range(NM * NS)}
        bview = real.base_view()
        etabs = real.elements_tables()
        for idx, op in enumerate(ops):
            try:
                lines, addressed, reads = real.apply(op)
            except Exception as e:
                viols.append((idx, "raises", f"{op!r} raised {type(e).__name__}: {e}"))
                break
            expected = [sh.line(l) for l in lines]
            expected = [e for e in expected if e is not None]
            for l in lines:
                req.append(l); rep.append("ok")
            new_views = {i: real.view(i) for i in range(NM * NS)}
            new_b = real.base_view()
            # (a) non-interference on the real code alone
            for i in range(NM * NS):
                if i not in addressed and new_views[i] != views[i]:
                    diff = [k for k in (new_views[i] or {}) if (views[i] or {}).get(k) != new_views[i][k]]
                    viols.append((idx, "cross-scenario-leak", f"operation {op!r} addressed to slots {addressed} changed {diff} of slot {i} "
                                  f"({MGR[i // NS]}/{SCN[i % NS]}): {({k: views[i][k] for k in diff} if views[i] else None)} -> {({k: new_views[i][k] for k in diff})}"))
            nb = {k: v for k, v in new_b.items() if k != "memo"}
            ob = {k: v for k, v in bview.items() if k != "memo"}
            if nb != ob or (op[0] != "evalbase" and new_b["memo"] != bview["memo"]):
                viols.append((idx, "base-model-leak", f"operation {op!r} changed the base model: {bview} -> {new_b}"))
            # manager-level base dictionaries: registered once, never changed by any scenario operation
            mviews = {m: real.mgr_view(m) for m in range(NM)}
            for m in range(NM):
                if mviews[m] != sh.mgr_view(m):
                    viols.append((idx, "base-dict-leak", f"after {op!r} the base dictionaries of manager {MGR[m]} are {mviews[m]}, registered {sh.mgr_view(m)}"))
            # `_elements` tables: no operation of the alphabet writes one (identity and content of every table reachable
            # before the operation are unchanged; a new clone's table has the base table's content)
            new_et = real.elements_tables()
            for who, (ident, content) in new_et.items():
                old = etabs.get(who)
                if (old is not None and not (op[0] == "add" and who in addressed) and old != (ident, content)) or content != etabs["base"][1]:
                    viols.append((idx, "elements-table-written", f"operation {op!r} changed the arrayed-element table of {who}: {old} -> {(ident, content)}"))
            etabs = new_et
            # (b) own settings against the reference semantics
            for i in addressed:
                if new_views[i] != sh.view(i):
                    exp = sh.view(i)
                    diff = [k for k in (exp or {}) if (new_views[i] or {}).get(k) != exp[k]] if exp and new_views[i] else ["existence"]
                    viols.append((idx, "own-settings", f"after {op!r} slot {i}: {diff}: real {({k: new_views[i][k] for k in diff} if new_views[i] and exp else new_views[i])} "
                                  f"expected {({k: exp[k] for k in diff} if new_views[i] and exp else exp)}"))
            # reads against a freshly built model
            for (who, kind, t, got) in reads:
                stats["reads"] += 1
                if who == "base":
                    want = oracle_run(DEF_CONST, DEF_PTS, DEF_RS)
                    if got != want:
                        viols.append((idx, "base-model-leak", f"direct evaluation of the base model returns {first_diff(got, want)}"))
                    stats["reads_checked"] += 1
                    continue
                ex = next((e for e in expected if e[0] == who), None)
                if ex is None:
                    continue
                expected.remove(ex)
                _, s, clean = ex
                if not clean:
                    continue
                stats["reads_checked"] += 1
                consts, pts, rs = dict(s["meqs"]), dict(s["mpts"]), s["mrs"]
                if kind == "run":
                    want = oracle_run(consts, pts, rs)
                else:
                    if t < rs[0] or t > rs[1]:
                        continue
                    want = {eq: {t: v} for eq, v in oracle_at(consts, pts, rs, t).items()}
                if got != want:
                    key = "result-mismatch"
                    viols.append((idx, key, f"{kind} of slot {who} ({MGR[who // NS]}/{SCN[who % NS]}) after {op!r}: {first_diff(got, want)}; "
                                  f"fresh model settings consts={consts} points={pts} runspecs={rs}"))
            views, bview = new_views, new_b
            for i in range(NM * NS):
                req.append(f"view {i}"); rep.append(views[i])
            req.append("base"); rep.append(bview)
            for m in range(NM):
                req.append(f"mgr {m}"); rep.append(mviews[m])
    finally:
        real.close()
    return req, rep, list(viols), stats


def first_diff(got, want):
    for eq in want:
        if eq not in got:
            return f"equation {eq} missing from the results (fresh model: {dict(list(want[eq].items())[:3])}…)"
        for t in want[eq]:
            if t not in got[eq]:
                return f"{eq}: no value at t={t} (index {sorted(got[eq])[:6]}…, fresh model index {sorted(want[eq])[:6]}…)"
            if got[eq][t] != want[eq][t]:
                return f"{eq}({t}) = {got[eq][t]} but the fresh model gives {want[eq][t]}"
        extra = [t for t in got[eq] if t not in want[eq]]
        if extra:
            return f"{eq}: extra index {extra[:4]} (fresh model index {sorted(want[eq])[:6]}…)"
    return "?"


# ---------------------------------------------------------------- generators
def rand_dict(rng, runspecs=True, pc=2, pp=2):
    d = {}
    val = lambda: 0 if rng.chance(1, 8) else rng.range(1, 9)          # falsy 0 / 0.0 among the values (wave 7)
    if rng.chance(1, pc):
        d["consts"] = {k: val() for k in rng.shuffle(range(3))[:rng.range(1, 2)]}
    if rng.chance(1, pp):
        d["pts"] = {k: val() for k in rng.shuffle(range(2))[:rng.range(1, 2)]}
    empty = [key for key, mine in (("constants", "consts"), ("points", "pts")) if mine not in d and rng.chance(1, 6)]
    if empty:
        d["empty"] = empty              # key present with an EMPTY dictionary
    if runspecs and rng.chance(1, 3):
        if rng.chance(1, 2): d["start"] = rng.range(0, 1)
        if rng.chance(1, 2): d["stop"] = rng.range(3, 5)
        if rng.chance(1, 2): d["dt"] = rng.choice([1, 2])
    return d


def rand_sel(rng):
    ms = sorted(set(rng.below(NM) for _ in range(rng.range(1, 2))))
    ks = sorted(set(rng.below(NS) for _ in range(rng.range(1, 3))))
    return ms, ks


def rand_history(rng):
    ops = [("regmgr", 0, rand_dict(rng, False, 3, 3).get("consts", {}), rand_dict(rng, False, 3, 3).get("pts", {}))]
    if rng.chance(3, 4):
        ops.append(("regmgr", 1, rand_dict(rng, False, 3, 3).get("consts", {}), rand_dict(rng, False, 3, 3).get("pts", {})))
    for _ in range(rng.range(2, 4)):
        ops.append(("add", slot(rng.below(NM), rng.below(NS)), rand_dict(rng)))
    if rng.chance(1, 4):
        # scenarios given INSIDE the manager dictionary (`register_scenario_manager({m: {"model":…, "scenarios": {…}}})`)
        m = rng.below(len([o for o in ops if o[0] == "regmgr"]))
        inline = {slot(m, k): rand_dict(rng) for k in rng.shuffle(range(NS))[:rng.range(1, 2)]}
        j = next(j for j, o in enumerate(ops) if o[0] == "regmgr" and o[1] == m)
        ops[j] = ops[j] + (inline,)
    in_session = False
    n = rng.range(3, 12 - len(ops)) if len(ops) < 9 else 3
    for _ in range(n):
        r = rng.below(20)
        if r < 2:
            ops.append(("add", slot(rng.below(NM), rng.below(NS)), rand_dict(rng)))
        elif r < 6:
            ops.append(("run",) + tuple(rand_sel(rng)))
        elif r < 9:
            ms, ks = rand_sel(rng)
            if rng.chance(1, 2):
                # a session spanning both managers (either order), names they share and names they do not; settings under one / both /
                # neither manager
                ms = rng.shuffle([0, 1])
                ks = sorted(set(ks) | {rng.below(NS)})
                which = rng.choice([[ms[0]], [ms[1]], ms, []])
                sett = {slot(m, k): rand_dict(rng) for m in which for k in ks if rng.chance(2, 3)}
            else:
                sett = {slot(m, k): rand_dict(rng) for m in ms for k in ks if rng.chance(1, 2)}
            ops.append(("session", ms, ks, sett))
            in_session = True
        elif r < 13 and in_session:
            ops.append(("step", {slot(rng.below(NM), rng.below(NS)): rand_dict(rng, False) for _ in range(rng.range(0, 2))}))
        elif r < 14 and in_session:
            ops.append(("endsession",)); in_session = False
        elif r < 17:
            ms, ks = rand_sel(rng)
            ops.append(("rest", ms, ks, {slot(m, k): rand_dict(rng) for m in ms for k in ks if rng.chance(1, 2)}))
        elif r < 18:
            ops.append(("reset", slot(rng.below(NM), rng.below(NS))))
        else:
            ops.append(("evalbase",))
    return ops


EX_PREFIX = [("regmgr", 0, {1: 7}, {1: 9}), ("regmgr", 1, {0: 6}, {}), ("add", 0, {}), ("add", 1, {}), ("add", 3, {"consts": {0: 5}})]
EX_ALPHA = [("run", [0], [0]), ("run", [0, 1], [0, 1]), ("session", [0], [0], {0: {"pts": {0: 7}}}), ("session", [0, 1], [0, 1], {}),
            ("step", {0: {"pts": {1: 8}}}), ("step", {1: {"consts": {1: 3}}}), ("rest", [0], [1], {1: {"pts": {0: 4}, "stop": 3}}),
            ("evalbase",), ("add", 2, {"pts": {0: 6}, "start": 1}),
            # wave 2
            ("reset", 0), ("session", [0], [0], {0: {"consts": {1: 9}}}), ("add", 4, {}),
            # wave 5: re-registration of an existing name with a different dictionary
            ("add", 0, {"consts": {2: 6}}),
            # wave 8: ONE session over both managers (slots 0 and 3 have the same scenario name), settings under one manager only
            ("session", [0, 1], [0, 1], {3: {"consts": {1: 8}}})]
EX_CORE = [1, 2, 4, 6, 9, 10, 11]          # the state-changing letters used for the longest histories


def exhaustive_histories(L, letters=None):
    """all histories of length L over the alphabet (or the given letters of it) after a fixed registration prefix:
    two managers from one base model, m0 WITH base constants and base points, m1 with base constants; scenarios
    A = slot 0, B = slot 1 in m0 without own dictionaries, C = slot 3 in m1 with own constants"""
    alpha = EX_ALPHA if letters is None else [EX_ALPHA[k] for k in letters]
    out = []
    def rec(h, d):
        if d == L:
            out.append(EX_PREFIX + h); return
        for x in alpha:
            rec(h + [x], d + 1)
    rec([], 0)
    return out, len(alpha)


# ---------------------------------------------------------------- probes
_STRUCT = []          # structural observations of the probes: MUTABLE objects that two owners share although no behaviour shows it


def note_shared(what, *objs):
    """identity is a structural tie, not the property: remember sharing of mutable objects (immutable data may be shared freely)"""
    import types
    immutable = (tuple, frozenset, str, bytes, int, float, bool, type(None), types.MappingProxyType)
    for a in range(len(objs)):
        for c in range(a + 1, len(objs)):
            if objs[a] is objs[c] and not isinstance(objs[a], immutable):
                if what not in _STRUCT:
                    _STRUCT.append(what)
                return True
    return False


def probe():
    """Mechanism facts, behaviourally (what a write through one owner does to what the others read); object identity is only noted."""
    del _STRUCT[:]
    from BPTK_Py import bptk, Model
    from BPTK_Py.sdsimulation import SdSimulation
    facts = {}
    base = build(DEF_CONST, DEF_PTS, DEF_RS)
    b = bptk()
    try:
        b.register_scenario_manager({"m0": {"model": base}})
        b.register_scenarios(scenarios={"s0": {}, "s1": {}}, scenario_manager="m0")
        A, B = b.get_scenario("m0", "s0"), b.get_scenario("m0", "s1")
        SdSimulation(model=A.model, name="probe").change_points(name="p0", value=pts_val(9))
        facts["cloneOwnsPoints"] = (pts_code(B.model.points["p0"]) == DEF_PTS[0] and pts_code(base.points["p0"]) == DEF_PTS[0])
    finally:
        b.destroy()
    # merge of the manager's base dictionaries into scenarios without own `constants` / `points`
    b = bptk()
    try:
        b.register_scenario_manager({"m0": {"model": base, "base_constants": {"c0": 5.0}, "base_points": {"p0": pts_val(3)}}})
        b.register_scenarios(scenarios={"s0": {}, "s1": {}}, scenario_manager="m0")
        A, B = b.get_scenario("m0", "s0"), b.get_scenario("m0", "s1")
        mg = b.scenario_manager_factory.scenario_managers["m0"]
        A.configure_settings({"constants": {"c0": 9.0}, "points": {"p0": pts_val(8)}})
        facts["mergeOwnsDict"] = (B.constants.get("c0") == 5.0 and mg.base_constants.get("c0") == 5.0 and
                                  pts_code(B.points["p0"]) == 3 and pts_code(mg.base_points["p0"]) == 3)
        note_shared("scenario constants dictionaries / manager base_constants (programmatic registration)", A.constants, B.constants, mg.base_constants)
        note_shared("scenario points dictionaries / manager base_points (programmatic registration)", A.points, B.points, mg.base_points)
    finally:
        b.destroy()
    # session settings address (manager, scenario) pairs: two managers owning a scenario of the same name, ONE session over both,
    # settings given under one manager only
    b = bptk()
    try:
        b.register_scenario_manager({"m0": {"model": base}, "m1": {"model": base}})
        b.register_scenarios(scenarios={"s0": {}}, scenario_manager="m0")
        b.register_scenarios(scenarios={"s0": {}, "s1": {}}, scenario_manager="m1")
        b.begin_session(scenarios=["s0", "s1"], scenario_managers=["m0", "m1"], equations=list(EQS), starttime=0.0, dt=1.0,
                        settings={"m0": {"s0": {"constants": {"c0": 9.0}, "points": {"p0": pts_val(8)}, "runspecs": {"stoptime": 3.0}},
                                         "s1": {"constants": {"c1": 7.0}}}})
        o0, o1 = b.get_scenario("m1", "s0"), b.get_scenario("m1", "s1")
        facts["sessionAddressesPair"] = (b.get_scenario("m0", "s0").constants.get("c0") == 9.0 and not o0.constants and not o0.points and
                                         int(o0.stoptime) == DEF_RS[1] and not o1.constants)
        b.end_session()
    finally:
        b.destroy()
    # re-registration under a known name: a new clone, nothing of the old one survives
    b = bptk()
    try:
        b.register_scenario_manager({"m0": {"model": base}})
        b.register_scenarios(scenarios={"s0": {"constants": {"c0": 9.0}, "points": {"p0": pts_val(8)}, "runspecs": {"stoptime": 3.0}}}, scenario_manager="m0")
        b.run_scenarios(scenarios=["s0"], scenario_managers=["m0"], equations=list(EQS), series_names={}, return_format="dict")
        old = b.get_scenario("m0", "s0")
        old_model = old.model
        b.register_scenarios(scenarios={"s0": {}}, scenario_manager="m0")
        new = b.get_scenario("m0", "s0")
        b.run_scenarios(scenarios=["s0"], scenario_managers=["m0"], equations=list(EQS), series_names={}, return_format="dict")
        # (identity, constants and run specs only: the points table is the business of `cloneOwnsPoints`)
        facts["reregFreshClone"] = (int(new.model.equations["c0"](0.0)) == DEF_CONST[0] and int(new.model.stoptime) == DEF_RS[1])
        note_shared("model object / equations dictionary of a scenario across a re-registration under its name", new.model, old_model)
        note_shared("model object / equations dictionary of a scenario across a re-registration under its name", new.model.equations, old_model.equations)
    finally:
        b.destroy()
    # arrayed elements
    try:
        m = Model(starttime=0.0, stoptime=2.0, dt=1.0, name="arr")
        v = m.constant("v"); v.setup_vector(2, [1.0, 2.0]) if hasattr(v, "setup_vector") else None
        b = bptk()
        try:
            b.register_scenario_manager({"ma": {"model": m}})
            b.register_scenarios(scenarios={"x": {}, "y": {}}, scenario_manager="ma")
            X, Y = b.get_scenario("ma", "x"), b.get_scenario("ma", "y")
            shared = X.model.constants["v"]._elements is Y.model.constants["v"]._elements or \
                X.model.constants["v"]._elements is m.constants["v"]._elements
            facts["cloneOwnsElements"] = not shared
        finally:
            b.destroy()
    except Exception as e:
        facts["cloneOwnsElements"] = False
        facts["elements_probe_error"] = f"{type(e).__name__}: {e}"
    return facts


def probe_files():
    """the three mechanism facts again for managers READ FROM SCENARIO FILES (load_scenarios / instantiate_model: a second copy of
    the merge of the base values, a model instance per scenario instead of a clone): two managers from three files in ONE bptk object"""
    from BPTK_Py.sdsimulation import SdSimulation
    prefix = [("regmgr", 0, {0: 5}, {0: 3}), ("regmgr", 1, {0: 5}, {}), ("add", 0, {}), ("add", 1, {}), ("add", 2, {"consts": {1: 4}}),
              ("add", 3, {}), ("add", 4, {})]
    real = Real(file_prefix=prefix)
    out = {}
    try:
        b = real.b
        A, B, C, D = (b.get_scenario("m0", "s0"), b.get_scenario("m0", "s1"), b.get_scenario("m0", "s2"), b.get_scenario("m1", "s0"))
        mg0, mg1 = real.mgr(0), real.mgr(1)
        models = [x.model for x in (A, B, C, D)]
        SdSimulation(model=A.model, name="probe").change_points(name="p1", value=pts_val(9))
        out["cloneOwnsPoints"] = all(pts_code(x.model.points["p1"]) == DEF_PTS[1] for x in (B, C, D))
        note_shared("model objects of file-loaded scenarios", *models)
        note_shared("points tables of file-loaded scenarios' models", *[m.points for m in models])
        note_shared("equations dictionaries of file-loaded scenarios' models", *[m.equations for m in models])
        dicts = [A.constants, B.constants, C.constants, D.constants, mg0.base_constants, mg1.base_constants]
        pdicts = [A.points, B.points, D.points, mg0.base_points]
        A.configure_settings({"constants": {"c0": 9.0}, "points": {"p0": pts_val(8)}})
        note_shared("constants dictionaries of file-loaded scenarios / managers", *dicts)
        note_shared("points dictionaries of file-loaded scenarios / managers", *pdicts)
        note_shared("scenario dictionaries of file-loaded scenarios", A.dictionary, B.dictionary, C.dictionary, D.dictionary)
        out["mergeOwnsDict"] = (B.constants.get("c0") == 5.0 and D.constants.get("c0") == 5.0 and mg0.base_constants.get("c0") == 5.0 and
                                mg1.base_constants.get("c0") == 5.0 and pts_code(B.points["p0"]) == 3 and pts_code(mg0.base_points["p0"]) == 3)
        b.run_scenarios(scenarios=["s2"], scenario_managers=["m0"], equations=list(EQS), series_names={}, return_format="dict")
        old_model = C.model
        b.register_scenarios(scenarios={"s2": {}}, scenario_manager="m0")
        new = b.get_scenario("m0", "s2")
        out["reregFreshClone"] = int(new.model.equations["c1"](0.0)) == DEF_CONST[1]
        note_shared("model object of a file-loaded scenario across a re-registration under its name", new.model, old_model)
    finally:
        real.close()
    return out


def gen_lean(f):
    tf = lambda x: "true" if x else "false"
    good = f["cloneOwnsPoints"] and f["mergeOwnsDict"] and f["reregFreshClone"]
    if good and not f["sessionAddressesPair"]:
        body = ("theorem holds : C06_full cfg := C06_full_of_good cfg (by decide) (by decide) (by decide)\n#print axioms holds\n"
                "theorem violated : ¬ C06_calls cfg := C06_witness_session_by_name cfg (by decide)\n#print axioms violated\n")
    elif good:
        body = ("theorem holds : C06_full cfg := C06_full_of_good cfg (by decide) (by decide) (by decide)\n#print axioms holds\n"
                "theorem holds_calls : C06_calls cfg := C06_calls_of_good cfg (by decide) (by decide) (by decide) (by decide)\n#print axioms holds_calls\n"
                "theorem reregistration (b : Base) (pre mid post : List Op) (i m m' : Nat) (d d' : Dict) :\n"
                "    view (exec cfg b (pre ++ [Op.add i m d] ++ mid ++ [Op.add i m' d'] ++ post)) i =\n"
                "    (soloExec b i ((pre ++ [Op.add i m d] ++ mid ++ [Op.add i m' d'] ++ post).filter (relevant i))).s :=\n"
                "  C06_reregistration cfg (by decide) (by decide) (by decide) b pre mid post i m m' d d'\n#print axioms reregistration\n")
    elif not f["cloneOwnsPoints"]:
        body = ("theorem violated : ¬ C06_full cfg := C06_witness_shared_points cfg (by decide)\n#print axioms violated\n")
    elif not f["mergeOwnsDict"]:
        body = ("theorem violated : ¬ C06_full cfg := C06_witness_shared_base_dict cfg (by decide)\n#print axioms violated\n")
    else:
        body = ("theorem violated : ¬ C06_full cfg := C06_witness_reused_clone cfg (by decide)\n#print axioms violated\n")
    # what still holds for the probed configuration, whatever was found
    if f["mergeOwnsDict"] and f["reregFreshClone"]:
        body += ("theorem partial_nopoints (b : Base) (ops : List Op) (h : ∀ op ∈ ops, ptsFree op = true) :\n"
                 "    (∀ i, view (exec cfg b ops) i = (soloExec b i (ops.filter (relevant i))).s) ∧ baseView b (exec cfg b ops) = baseAlone b ops :=\n"
                 "  C06_partial_nopoints cfg (by decide) (by decide) b ops h\n#print axioms partial_nopoints\n"
                 "theorem partial_consts (b : Base) (ops : List Op) :\n"
                 "    (∀ i, (view (exec cfg b ops) i).map Solo.erase = ((soloExec b i (ops.filter (relevant i))).s).map Solo.erase) ∧\n"
                 "    (baseView b (exec cfg b ops)).erase = (baseAlone b ops).erase :=\n"
                 "  C06_partial_consts cfg (by decide) (by decide) b ops\n#print axioms partial_consts\n")
    if f["cloneOwnsPoints"] and f["reregFreshClone"]:
        body += ("theorem partial_nobase (b : Base) (ops : List Op) (h : ∀ op ∈ ops, baseFree op = true) :\n"
                 "    (∀ i, view (exec cfg b ops) i = (soloExec b i (ops.filter (relevant i))).s) ∧ baseView b (exec cfg b ops) = baseAlone b ops :=\n"
                 "  C06_partial_nobase cfg (by decide) (by decide) b ops h\n#print axioms partial_nobase\n")
    return ("import Bptk.Props.C06\n/-! GENERATED by harness/props/c06.py from /repo on every run — do not edit. -/\n"
            "namespace Bptk.C06.Gen\n"
            f"def cfg : Cfg := {{ cloneOwnsPoints := {tf(f['cloneOwnsPoints'])}, cloneOwnsElements := {tf(f['cloneOwnsElements'])}, "
            f"mergeOwnsDict := {tf(f['mergeOwnsDict'])}, reregFreshClone := {tf(f['reregFreshClone'])}, "
            f"sessionAddressesPair := {tf(f['sessionAddressesPair'])} }}\n" + body + "end Bptk.C06.Gen\n")


WITNESS = [("regmgr", 0, {}, {}), ("add", 0, {}), ("add", 1, {}), ("session", [0], [0], {}), ("step", {0: {"pts": {0: 7}}}), ("run", [0], [1])]
# Lean `witnessReregOps`: a name registered with own constants / points / stop time, run, registered again without them, run
WITNESS_REREG = [("regmgr", 0, {}, {}), ("add", 0, {"consts": {0: 9}, "pts": {0: 7}, "stop": 3}), ("run", [0], [0]), ("add", 0, {}), ("run", [0], [0]),
                 ("session", [0], [0], {}), ("step", {0: {"consts": {1: 4}, "pts": {1: 8}}}), ("add", 0, {"consts": {2: 5}}), ("run", [0], [0])]
# Lean `witnessSessionCalls`: two managers with a scenario of the same name, one session over both, settings under one manager only;
# observed during the session (step), after it (run) and after a second session with settings under the other manager
WITNESS_SESSION = [("regmgr", 0, {}, {}), ("regmgr", 1, {}, {}), ("add", 0, {}), ("add", 3, {}), ("add", 4, {}),
                   ("session", [0, 1], [0, 1], {0: {"consts": {0: 9}, "pts": {0: 7}}}), ("step", {}), ("endsession",), ("run", [0, 1], [0, 1]),
                   ("session", [1, 0], [0], {3: {"consts": {1: 4}, "stop": 3}}), ("step", {}), ("run", [0], [0])]
# Lean `witnessMergeOps` / `witnessLateOps`: base constants, siblings without own dictionaries, re-parameterise one, run / register another
WITNESS_MERGE = [("regmgr", 0, {0: 5}, {1: 3}), ("add", 0, {}), ("add", 1, {}), ("session", [0], [0], {0: {"consts": {0: 9}, "pts": {1: 4}}}),
                 ("run", [0], [1]), ("add", 2, {}), ("run", [0], [2])]


def shrink(ops, key):
    ops = list(ops)
    def fails(c):
        try:
            return any(v[1] == key for v in run_history(c)[2])
        except Exception:
            return False
    changed = True
    while changed:
        changed = False
        for i in range(len(ops)):
            cand = ops[:i] + ops[i + 1:]
            if cand and fails(cand):
                ops = cand; changed = True
                break
    return ops


def run(chk):
    quiet_bptk_logging()
    cwd = os.getcwd()
    scratch = scratch_dir("c06")
    os.chdir(scratch)
    try:
        _run(chk)
    finally:
        os.chdir(cwd)
        import shutil
        shutil.rmtree(scratch, ignore_errors=True)


def coverage_rows(hs):
    """distribution of the generated histories over the rows of the wave-7 coverage table (notes/C06-report.md)"""
    c = {}
    def inc(k, n=1): c[k] = c.get(k, 0) + n
    def dicts(h):
        for o in h:
            if o[0] == "add": yield "registration", o[2]
            elif o[0] == "regmgr":
                yield "base values", {"consts": o[2], "pts": o[3]}
                for d in (o[4] if len(o) > 4 else {}).values(): yield "registration", d
            elif o[0] in ("session", "rest"):
                for d in o[3].values(): yield ("session settings" if o[0] == "session" else "REST settings"), d
            elif o[0] == "step":
                for d in o[1].values(): yield "step settings", d
    for h in hs:
        files = bool(h) and h[0] == ("files",)
        inc("histories: managers read from scenario files" if files else "histories: managers registered programmatically")
        seen_add, read_seen = set(), False
        for o in h:
            if o[0] == "regmgr" and len(o) > 4: inc("scenarios inside the manager dictionary")
            if o[0] == "add":
                if o[1] in seen_add: inc("re-registration of a known name")
                if read_seen: inc("registration after a run / step (later registration)")
                seen_add.add(o[1])
            if o[0] in ("run", "step", "rest"): read_seen = True
            if o[0] == "session" and len(o[1]) == 2:
                inc("one session over two managers")
                inc(f"one session over two managers: settings under {len({i // NS for i in o[3]})} of them")
            if o[0] == "reset": inc("reset_scenario_cache")
            if o[0] == "evalbase": inc("direct evaluation of the base model")
        for chan, d in dicts(h):
            for kind in ("consts", "pts"):
                if d.get(kind):
                    inc(f"{chan}: {'constants' if kind == 'consts' else 'points'}")
                    if any(v == 0 for v in d[kind].values()): inc(f"{chan}: value 0 (falsy)")
            if d.get("empty"): inc(f"{chan}: key present with empty dictionary")
            if any(d.get(k) is not None for k in ("start", "stop", "dt")): inc(f"{chan}: run specs")
        if files:
            n = sum(1 for o in h[1:] if o[0] == "add")
            if n >= 2: inc("file world: a manager spread over two files")
    return c


def process_chunk(arg):
    """Run a list of histories on the real code, feed the model-level lines to Drive/C06 and compare.
    Self-contained (also the entry point of the worker processes of the thorough tier)."""
    hs, facts = arg
    quiet_bptk_logging()
    req = [f"cfg {1 if facts['cloneOwnsPoints'] else 0} {1 if facts['cloneOwnsElements'] else 0} {1 if facts['mergeOwnsDict'] else 0} "
           f"{1 if facts['reregFreshClone'] else 0} {1 if facts['sessionAddressesPair'] else 0}"]
    real = ["ok"]
    first, kinds, stats_all, bounds, cases = {}, {}, {"reads": 0, "reads_checked": 0}, [], []
    for ops in hs:
        r, p, viols, stats = run_history(ops)
        for k in stats: stats_all[k] += stats[k]
        bounds.append((len(req), ops))
        req.append("new " + st(DEF_PTS) + f" {DEF_RS[0]} {DEF_RS[1]} {DEF_RS[2]} {N_ELEMS}"); real.append("ok")
        req += r; real += p
        for o in ops:
            kinds[o[0]] = kinds.get(o[0], 0) + 1
        if _file_roots and len(_file_roots) > 50:
            pass
        cases.append((repr(ops), any(o[0] in ("session", "step", "rest", "add") for o in ops[3:]),
                      [repr(o) for o in ops] if len(ops) > 6 else None))
        for v in viols:
            first.setdefault(v[1], (ops, v))
    model = drive("C06", req)
    diff = None
    for i, (a, b) in enumerate(zip(model, real)):
        if isinstance(b, str):
            same = a == b
        elif req[i] == "base":
            same = parse_model_base(a) == b
        elif req[i].startswith("mgr "):
            same = parse_model_mgr(a) == b
        else:
            same = parse_model_view(a) == b
        if not same:
            diff = i; break
    if diff is None and len(model) != len(real):
        diff = min(len(model), len(real))
    dinfo = None
    if diff is not None:
        dinfo = {"line": diff, "history": next((o for s0, o in reversed(bounds) if s0 <= diff), None),
                 "request_context": req[max(0, diff - 10):diff + 1], "model": model[diff] if diff < len(model) else None,
                 "impl": repr(real[diff]) if diff < len(real) else None}
    return {"first": first, "kinds": kinds, "stats": stats_all, "cases": cases, "diff": dinfo, "n": len(hs)}


def _worker(arg):
    scratch = scratch_dir("c06w")
    cwd = os.getcwd()
    os.chdir(scratch)
    try:
        return process_chunk(arg)
    finally:
        os.chdir(cwd)
        import shutil
        shutil.rmtree(scratch, ignore_errors=True)


def _run(chk):
    facts = probe()
    import contextlib, io
    with contextlib.redirect_stdout(io.StringIO()):
        ffacts = probe_files()
    chk.notes["cfg_programmatic"] = dict(facts)
    chk.notes["cfg_scenario_files"] = ffacts
    for k, v in ffacts.items():           # the machine's fact holds when it holds on both registration channels
        facts[k] = facts[k] and v
    chk.notes["cfg"] = facts
    ok, why = chk.prove(gen_lean(facts))
    chk.cov["trusted_base"] = [
        "Lean 4.33 kernel; axioms propext, Classical.choice, Quot.sound (audited per run via #print axioms)",
        "hand-written heap machine lean/Bptk/Core/C06.lean of register_scenario_manager / register_scenarios (add_scenarios' merge of base_constants / base_points with explicit dictionary identity, get_cloned_model, SimulationScenario.__init__) / SdRunner._run_scenarios / run_scenario_step / configure_settings / REST /run settings / reset_scenario_cache; tied to the code by the four probes (each on both registration channels: programmatic and scenario files) and by the correspondence run",
        "the numeric simulation is uninterpreted (results = function of effective settings read through the heap + memo content); the harness checks the numbers against freshly built real models",
        "composite operations (run of several scenarios, begin_session, run_step, POST /run) are linearised by the harness into per-scenario model operations in the order of the Python loops",
    ]
    chk.assumptions = ["every scenario is registered with its own dictionary objects (the caller does not pass one dict object for two scenarios)",
                       "a scenario dictionary has a `points` / `constants` key only when it lists at least one entry",
                       "nobody edits the base model object or a clone's elements directly (the property quantifies over scenario operations; `element[k] = v` on a clone writes the shared `_elements` table and is outside the alphabet)",
                       "tree carries fixes/C07-scenario-points-keep-table (the model describes SimulationScenario.__init__ merging, not replacing, the points table)"]
    rng = chk.rng.fork("c06")
    hs = [WITNESS, WITNESS_MERGE, WITNESS_REREG, WITNESS_SESSION]
    if chk.quick:
        ex, na = exhaustive_histories(2)
        ex_desc = f"all histories of length 2 over the {na}-letter alphabet"
    else:
        ex4, na = exhaustive_histories(4)
        ex5, nc = exhaustive_histories(5, EX_CORE)
        ex = ex4 + ex5
        ex_desc = (f"all histories of length 4 over the {na}-letter alphabet ({len(ex4)}; contains every shorter history as a prefix, compared after every operation) "
                   f"+ all histories of length 5 over its {nc} state-changing letters ({len(ex5)})")
    hs += ex
    n_rand = 110 if chk.quick else 1500
    hs += [rand_history(rng) for _ in range(n_rand)]
    # wave 7: the same kind of histories with the leading registrations given as scenario FILES (several files per manager, base
    # constants / base points in the files), read when the bptk object is built; the witness histories too
    n_files = 45 if chk.quick else 500
    hs += [[("files",)] + h for h in (WITNESS, WITNESS_MERGE, WITNESS_REREG)]
    hs += [[("files",)] + rand_history(rng) for _ in range(n_files)]
    chk.cov["coverage_rows"] = coverage_rows(hs)
    chk.cov["rule"] = (f"witness histories (points alias, shared base dictionary + later registration) + {ex_desc} (run one / run all, session with points / constants / no settings, "
                       f"step with points / constants, REST run with points+stoptime, reset_scenario_cache, base evaluation, later registration with own points / without own dictionaries) "
                       f"after a fixed prefix (2 managers on one base model with base constants / base points, 3 scenarios) "
                       f"= {len(ex)} histories, + {n_rand} seeded random histories (<= 12 operations, 2 managers x 3 scenarios, settings of all three kinds through registration, "
                       "base values, session settings, step settings, REST settings); the model carries an arrayed constant; after every operation the views of all 6 slots, of the base model "
                       "and of both managers' base dictionaries are compared (model vs real) and checked on the real code (non-interference, own settings, base dictionaries and `_elements` tables "
                       "unchanged, reads vs freshly built model); non-trivial = at least one settings-carrying operation after the first read")
    if chk.quick or len(hs) < 400:
        results = [process_chunk((hs, facts))]
    else:
        import multiprocessing as mp
        nproc = max(2, min(8, (os.cpu_count() or 4) // 2))
        size = 400
        chunks = [(hs[i:i + size], facts) for i in range(0, len(hs), size)]
        with mp.get_context("spawn").Pool(nproc) as pool:
            results = pool.map(_worker, chunks, chunksize=1)
        chk.notes["workers"] = nproc
    first, kinds, stats_all, dinfo = {}, {}, {"reads": 0, "reads_checked": 0}, None
    for res in results:
        for k, v in res["first"].items(): first.setdefault(k, v)
        for k, v in res["kinds"].items(): kinds[k] = kinds.get(k, 0) + v
        for k in stats_all: stats_all[k] += res["stats"][k]
        for (canon, nontrivial, sample) in res["cases"]:
            chk.case(canon, nontrivial=nontrivial, sample=sample)
        if dinfo is None and res["diff"] is not None:
            dinfo = res["diff"]
    chk.cov["op_distribution"] = kinds
    chk.cov["reads"] = stats_all
    chk.cov["exhaustive_histories"] = len(ex)
    chk.cov["traces_validated_against_impl"] = len(hs)
    for key, (ops, v) in first.items():
        small = shrink(ops[:v[0] + 1], key)
        vv = [x for x in run_history(small)[2] if x[1] == key]
        chk.add_finding(key, f"after {small!r}: {vv[0][2] if vv else v[2]}", {"ops": small, "violation": (vv[0] if vv else v)})
    def probe_finding(key, text, ops):
        """a probe flagged a mechanism but no generated history failed: show the witness history ON THE REAL CODE, or say that there is none"""
        vs = run_history(ops)[2] + run_history([("files",)] + ops)[2]
        if vs:
            chk.add_finding(vs[0][1], f"{text}; after {ops!r}: {vs[0][2]}", {"ops": ops, "violation": vs[0]})
        else:
            chk.add_finding("obligation", f"{text} — the probe's fact selects a negation witness in Gen/C06.lean, but neither the witness history nor any "
                            "generated history shows a wrong value on the real code", {"theorem": "Bptk.C06.Gen.violated (probe)", "probe": text}, found_input=False)
    if not facts["cloneOwnsPoints"] and "cross-scenario-leak" not in first and "base-model-leak" not in first:
        probe_finding("cross-scenario-leak", "probe: change_points on one clone changes its sibling / the base model", WITNESS)
    if not facts["reregFreshClone"] and "own-settings" not in first and "result-mismatch" not in first:
        probe_finding("own-settings", "probe: a scenario registered again under its name keeps what was written into the model of its previous registration", WITNESS_REREG)
    if not facts["mergeOwnsDict"] and "cross-scenario-leak" not in first and "base-dict-leak" not in first:
        probe_finding("cross-scenario-leak", "probe: configure_settings on one scenario without own dictionaries rewrites the manager's base dictionaries / its siblings", WITNESS_MERGE)
    chk.notes["structural_sharing_of_mutable_objects"] = list(_STRUCT)
    if _STRUCT and not first and ok and dinfo is None:
        chk.add_finding("structure", "mutable objects are shared between owners the model keeps apart (" + "; ".join(_STRUCT) + "), yet no generated history and no "
                        "probe shows a value leaking through them: the separation invariant of lean/Bptk/Props/C06.lean (Inv.refInj / ptsOwn / noShare) is not "
                        "what the code does structurally", {"theorem": "Bptk.C06.inv_run (cells of distinct scenarios are distinct)", "shared": list(_STRUCT)},
                        found_input=False)
    if not ok:
        chk.add_finding("obligation", f"proof obligations of C06 no longer check: {why}",
                        {"theorem": "Bptk.C06.Gen.holds / Bptk.Props.C06", "detail": why}, found_input=False)
    if dinfo is not None and not first:
        chk.add_finding("correspondence", f"model and implementation disagree at protocol line {dinfo['line']}: request {dinfo['request_context'][-1]!r}",
                        dict(dinfo, correspondence="Drive/C06 vs bptk scenario machinery"), found_input=False)
    elif dinfo is not None:
        chk.notes["correspondence_diff"] = {k: dinfo[k] for k in ("line", "model", "impl")}


def replay(path):
    quiet_bptk_logging()
    r = json.load(open(path))["replay"]
    def fix(o):
        # JSON turned tuples into lists and int keys into strings
        if isinstance(o, list):
            return [fix(x) for x in o]
        if isinstance(o, dict):
            return {(int(k) if isinstance(k, str) and k.lstrip("-").isdigit() else k): fix(v) for k, v in o.items()}
        return o
    ops = [tuple(fix(o)) for o in r.get("ops", [])]
    cwd = os.getcwd(); scratch = scratch_dir("c06"); os.chdir(scratch)
    try:
        _, _, viols, _ = run_history(ops)
    finally:
        os.chdir(cwd)
        import shutil; shutil.rmtree(scratch, ignore_errors=True)
    print("ops:", ops)
    print("violations on the current tree:", viols)
    return 1 if viols else 0
