"""C16 — server instances are isolated from one another.

Real side: one BptkServer per factory style, k <= 3 instances, generated per-instance request lists
(begin-session, run-step with/without settings, session-results, end-session, keep-alive, stop, timeout),
interleaved at request granularity (exhaustive merges of short lists in thorough, sampled merges in quick).
Reference check (the statement itself): every response an instance gives in the interleaving must equal,
byte for byte, the response it gives when its own request list is replayed alone on a new server.
Model side (Drive/C16): the response class / step time / number of logged steps of every request.
The factory style is a probe: a factory building a fresh model per instance vs a factory closing over one
base model (its clones alias `points` on the pinned tree — C06).

Wave 2: instances created and stopped during the history; begin-session with settings; the server-level requests
/run (with settings), /equations, /agents as one more owner; servers with an external state adapter (FileAdapter):
a timed-out instance is restored lazily by its next request; shared-base factory style with points-heavy settings
(read by the `tbl` lookup); concurrent handlers for two different instances (threads, forced overlap) compared with
the sequential / solo result (Lean: C16_commute)."""
import json, datetime, itertools, shutil, time, os, sys
from common import *

SM, SC = "smC16", "base"
EQS = ["stock", "flow", "constant", "conv", "k2", "conv2"]
# settable elements (keys of the Lean model's stores): 0 `constant` (the only one the registered scenario lists), 1 `k2`,
# 2 `tbl` (read by the lookup `conv`), 3 `tbl2` (read by `conv2`); values of a freshly built model:
KEYS = {0: ("constants", "constant"), 1: ("constants", "k2"), 2: ("points", "tbl"), 3: ("points", "tbl2")}
DEFAULTS = {0: 1, 1: 2, 2: 1, 3: 1}
KIND = {"c": 0, "k": 1, "p": 2, "q": 3}
STYLES = ("fresh", "sharedBase", "files")
# what the factory's products start with at scenario level (the Lean machine's `Server.fac`), per factory style
FAC = {"fresh": {0: 1}, "sharedBase": {0: 1}, "files": {0: 1, 1: 2, 2: 1}}

FILE_MODEL = """from BPTK_Py import Model
from BPTK_Py import sd_functions as sd


class simulation_model(Model):
    def __init__(self):
        super().__init__(starttime=0.0, stoptime=30.0, dt=1.0, name="c16file")
        stock, flow, const, conv = self.stock("stock"), self.flow("flow"), self.constant("constant"), self.converter("conv")
        k2, conv2 = self.constant("k2"), self.converter("conv2")
        self.points["tbl"] = [[0, 1.0], [100, 1.0]]
        self.points["tbl2"] = [[0, 1.0], [100, 1.0]]
        conv.equation = sd.lookup(sd.time(), "tbl")
        conv2.equation = sd.lookup(sd.time(), "tbl2")
        stock.initial_value = 0.0
        stock.equation = flow
        flow.equation = const * conv + k2 * conv2
        const.equation = 1.0
        k2.equation = 2.0
"""
# the documented production set-up: `bptk_factory = lambda: bptk()` reading the scenario FILES of ./scenarios — an SD DSL model
# module, a scenario with own constants and points, base constants on the manager (so `constant`, `k2`, `tbl` are scenario-level)
FILE_SCENARIOS = {"smC16": {"model": "simulation_models/c16file", "base_constants": {"k2": 2.0},
                            "scenarios": {"base": {"constants": {"constant": 1.0}, "points": {"tbl": [[0, 1.0], [100, 1.0]]}}}}}
_file_roots = []


def new_file_root():
    """a scenario folder of its own for every server (so that nothing a process-wide cache keeps about one server's files can
    reach the solo replays on another server)"""
    root = scratch_dir("c16files")
    os.makedirs(os.path.join(root, "scenarios")); os.makedirs(os.path.join(root, "simulation_models"))
    open(os.path.join(root, "simulation_models", "__init__.py"), "w").close()
    with open(os.path.join(root, "simulation_models", "c16file.py"), "w") as f:
        f.write(FILE_MODEL)
    scen = json.loads(json.dumps(FILE_SCENARIOS))
    scen[SM]["model"] = os.path.join(root, "simulation_models", "c16file")     # absolute: independent of the working directory
    with open(os.path.join(root, "scenarios", "c16.json"), "w") as f:
        json.dump(scen, f, indent=1)
    if not _file_roots:
        sys.path.insert(0, root)             # the model module is imported once, from the first root
    _file_roots.append(root)
    return root


def build_model():
    from BPTK_Py import Model
    from BPTK_Py import sd_functions as sd
    m = Model(starttime=0.0, stoptime=30.0, dt=1.0, name="c16")
    stock, flow, const, conv = m.stock("stock"), m.flow("flow"), m.constant("constant"), m.converter("conv")
    k2, conv2 = m.constant("k2"), m.converter("conv2")
    m.points["tbl"] = [[0, 1.0], [100, 1.0]]
    m.points["tbl2"] = [[0, 1.0], [100, 1.0]]
    conv.equation = sd.lookup(sd.time(), "tbl")
    conv2.equation = sd.lookup(sd.time(), "tbl2")
    stock.initial_value = 0.0
    stock.equation = flow
    flow.equation = const * conv + k2 * conv2
    const.equation = 1.0
    k2.equation = 2.0
    return m


def make_factory(style, made):
    import BPTK_Py
    base = build_model() if style == "sharedBase" else None
    if style == "files":
        root = new_file_root()

        def file_factory():
            # bptk() reads ./scenarios of the working directory (the `scenario_storage` entry of the configuration is a default
            # argument frozen at import time); the file monitors would poll the relative file names from other directories: off
            cc = sys.modules["BPTK_Py.config.config"].configuration
            old = (cc["set_scenario_monitor"], cc["set_model_monitor"])
            cc["set_scenario_monitor"], cc["set_model_monitor"] = False, False
            cwd = os.getcwd()
            os.chdir(root)
            try:
                b = BPTK_Py.bptk()
            finally:
                os.chdir(cwd)
                cc["set_scenario_monitor"], cc["set_model_monitor"] = old
            made.append(b)
            return b
        return file_factory

    def factory():
        b = BPTK_Py.bptk()
        made.append(b)
        b.register_scenario_manager({SM: {"model": base if base is not None else build_model()}})
        b.register_scenarios(scenario_manager=SM, scenarios={SC: {"constants": {"constant": 1.0}}})
        return b
    return factory


# ---------------------------------------------------------------- process-level state (wave 8)
# Mutable class attributes and module globals of the server / bptk / scenario-manager modules outlive a server object.  So that a
# leak through them inside ONE server is reported with a replay that reproduces (and does not contaminate the solo replays on the
# following servers), every server starts from the state these objects had at import time; what a server's requests wrote into them
# is recorded (`_proc_dirty`) and decides the fact `sharedIsHandlerDefaults`.
_PROC_MODULES = ("BPTK_Py.server.bptkServer", "BPTK_Py.bptk", "BPTK_Py.scenariomanager.scenario_manager_factory",
                 "BPTK_Py.scenariomanager.scenario_manager_sd", "BPTK_Py.scenariomanager.scenario_manager",
                 "BPTK_Py.scenariomanager.scenario", "BPTK_Py.scenariorunners.sd_runner")
_proc_snapshot, _proc_dirty = {}, set()


def _proc_cells():
    import inspect, importlib
    for mn in _PROC_MODULES:
        try:
            mod = importlib.import_module(mn)
        except Exception:
            continue
        for name, val in list(vars(mod).items()):
            if isinstance(val, (dict, list, set)) and not name.startswith("__"):
                yield (mn, None, name), mod, name
            if inspect.isclass(val) and getattr(val, "__module__", None) == mn:
                for an, av in list(vars(val).items()):
                    if isinstance(av, (dict, list, set)) and not an.startswith("__"):
                        yield (mn, val.__name__, an), val, an


def _proc_defaults():
    """mutable DEFAULT ARGUMENTS of the functions and methods of the same modules (`__defaults__` / `__kwdefaults__` holding dicts,
    lists or sets): one object per function for the whole process.  Yields (key, the mutable object)."""
    import inspect, importlib
    for mn in _PROC_MODULES:
        try:
            mod = importlib.import_module(mn)
        except Exception:
            continue
        funcs = []
        for name, val in list(vars(mod).items()):
            if inspect.isfunction(val) and val.__module__ == mn:
                funcs.append((None, name, val))
            if inspect.isclass(val) and getattr(val, "__module__", None) == mn:
                for an, av in list(vars(val).items()):
                    f = av.__func__ if isinstance(av, (staticmethod, classmethod)) else av
                    if inspect.isfunction(f):
                        funcs.append((val.__name__, an, f))
        for cls, fn, f in funcs:
            for j, d in enumerate(f.__defaults__ or ()):
                if isinstance(d, (dict, list, set)):
                    yield (mn, cls, f"{fn}.__defaults__[{j}]"), d
            for kn, d in (f.__kwdefaults__ or {}).items():
                if isinstance(d, (dict, list, set)):
                    yield (mn, cls, f"{fn}.__kwdefaults__[{kn}]"), d


def proc_snapshot():
    import copy
    if not _proc_snapshot:
        for key, owner, name in _proc_cells():
            try:
                _proc_snapshot[key] = copy.deepcopy(getattr(owner, name))
            except Exception:
                pass
        for key, obj in _proc_defaults():
            try:
                _proc_snapshot[key] = copy.deepcopy(obj)
            except Exception:
                pass


def proc_restore():
    """note what was written since the last restore, then put the import-time values back (new objects)"""
    import copy
    proc_snapshot()
    for key, owner, name in _proc_cells():
        if key in _proc_snapshot:
            try:
                if getattr(owner, name) != _proc_snapshot[key]:
                    _proc_dirty.add(".".join(x for x in (key[0].split(".")[-1], key[1], key[2]) if x))
                    setattr(owner, name, copy.deepcopy(_proc_snapshot[key]))
            except Exception:
                pass
    for key, obj in _proc_defaults():
        if key in _proc_snapshot:
            try:
                if obj != _proc_snapshot[key]:
                    _proc_dirty.add(".".join(x for x in (key[0].split(".")[-1], key[1], key[2]) if x))
                    fresh = copy.deepcopy(_proc_snapshot[key])      # the default object itself cannot be replaced: restore it in place
                    if isinstance(obj, dict):
                        obj.clear(); obj.update(fresh)
                    elif isinstance(obj, list):
                        obj[:] = fresh
                    else:
                        obj.clear(); obj.update(fresh)
            except Exception:
                pass


TIMEOUT = {"weeks": 0, "days": 0, "hours": 1000, "minutes": 0, "seconds": 0, "milliseconds": 0, "microseconds": 0}
OWN = -1                      # owner index of the server-level requests (/run, /equations, /agents)
GHOST = -2                    # owner index of requests to an id that never existed (wave 3); id 99 in the model
GHOST_UUID = "0" * 32


class Srv:
    """one BptkServer; `ad`: with a FileAdapter (compressed state) in a scratch directory of its own"""
    def __init__(self, style, ad=False):
        from BPTK_Py.server import BptkServer
        proc_restore()
        self.made = []
        self.ad = ad
        self.dir = None
        adapter = None
        if ad:
            from BPTK_Py.externalstateadapter import FileAdapter
            self.dir = scratch_dir("c16ad")
            adapter = FileAdapter(True, self.dir)
        self.app = BptkServer("c16", make_factory(style, self.made), external_state_adapter=adapter)
        self.app.logger.disabled = True
        self.c = self.app.test_client()
        self.mgr = self.app._instance_manager
        self.uids = {}

    def new_instances(self, k):
        if k == 0:
            return []
        r = self.c.post("/start-instances", json={"instances": k, "timeout": TIMEOUT})
        return json.loads(r.data)["instance_uuids"]

    def close(self):
        for b in self.made:
            try:
                b.destroy()
            except Exception:
                pass
        if self.dir:
            shutil.rmtree(self.dir, ignore_errors=True)


def pairs(s):
    """a setting: None | (kind, v) with kind c (`constant`) k (`k2`) p (`tbl`) q (`tbl2`) | ('m', ((key, v), ...)) -> [(key, v)]"""
    if s is None or isinstance(s, str):
        return []
    if s[0] == "m":
        return [(int(k), int(v)) for k, v in s[1]]
    return [(KIND[s[0]], int(s[1]))]


def settings_of(s):
    d = {}
    for k, v in pairs(s):
        kind, name = KEYS[k]
        d.setdefault(kind, {})[name] = float(v) if kind == "constants" else [[0, float(v)], [100, float(v)]]
    return {SM: {SC: d}} if d else {}


def setting_body(s):
    return {"settings": settings_of(s)}


def do(srv, label, op, client=None):
    """perform one request; returns (class token as Drive/C16 prints it, canonical body)"""
    c = client or srv.c
    k = op[0]
    uid = srv.uids.get(label) if label != GHOST else GHOST_UUID
    if k == "c":
        r = c.post("/start-instance", json={"timeout": TIMEOUT})
        if r.status_code == 200:
            srv.uids[label] = json.loads(r.data)["instance_uuid"]
            return "created", (200, "created")          # the body holds the uuid: not compared
        return f"http{r.status_code}", (r.status_code, canon_body(r.data))
    if k == "R":
        body = {"scenario_managers": [SM], "scenarios": [SC], "equations": EQS}
        if op[1] is not None:
            body["settings"] = settings_of(op[1])
        r = c.post("/run", json=body)
        return ("ran" if r.status_code == 200 else f"http{r.status_code}"), (r.status_code, canon_body(r.data))
    if k == "q" and len(op) > 1:            # ("q", "scenarios"): GET /scenarios on the server-level object
        r = c.get("/scenarios")
        return ("names" if r.status_code == 200 else f"http{r.status_code}"), (r.status_code, canon_body(r.data))
    if k == "q":
        r = c.post("/equations", json={"scenario_manager": SM, "scenario": SC})
        return ("names" if r.status_code == 200 else f"http{r.status_code}"), (r.status_code, canon_body(r.data))
    if k == "a":
        r = c.post("/agents", json={"scenarioManager": SM, "scenario": SC})
        return ("noagents" if (r.status_code == 500 and b"have agents" in r.data) else f"http{r.status_code}"), (r.status_code, canon_body(r.data))
    if k == "b":
        body = {"scenario_managers": [SM], "scenarios": [SC], "equations": EQS}
        if len(op) > 1 and op[1] is not None:
            body["settings"] = settings_of(op[1])
        r = c.post(f"/{uid}/begin-session", json=body)
        tok = "started" if r.status_code == 200 else None
    elif k == "s":
        if len(op) > 2:                     # ("s", None, "nobody"): run-step WITHOUT a JSON body
            r = c.post(f"/{uid}/run-step")
        else:
            r = c.post(f"/{uid}/run-step", json=setting_body(op[1]))
        tok = None
        if r.status_code == 200:
            try:
                d = json.loads(r.data)[SM][SC]
                tok = "step:%d" % int(round(float(next(iter(d["stock"].keys())))))
            except Exception:
                tok = "step:?"
        elif b"no data" in r.data:
            tok = "nodata"
        elif srv.ad and r.status_code == 500 and b"Internal Server Error" in r.data:
            tok = "saveerr"             # no session: the handler fails while externalising the (absent) session state
    elif k == "r":
        r = c.get(f"/{uid}/flat-session-results" if len(op) > 1 else f"/{uid}/session-results")     # ("r", "flat")
        tok = None
        if r.status_code == 200:
            d = json.loads(r.data)
            try:
                tok = "res:%d" % (len(d[SM][SC]["equations"]["stock"]) if d else 0)
            except Exception:
                tok = "res:?"
    elif k == "e":
        r = c.post(f"/{uid}/end-session", json={})
        tok = "ended" if r.status_code == 200 else None
    elif k == "k":
        r = c.post(f"/{uid}/keep-alive")
        tok = "alive" if r.status_code == 200 else None
    elif k == "x":
        r = c.post(f"/{uid}/stop-instance")
        tok = "deleted" if r.status_code == 200 else None
    elif k == "t":
        # the instance's timeout elapses (its last access moves into the past) and a sweep runs
        ent = srv.mgr._instances.get(uid)
        if ent is not None:
            ent["time"] = ent["time"] - datetime.timedelta(hours=2000)
        c.get("/metrics")
        return "swept", "swept"
    else:
        raise ValueError(op)
    if tok is None:
        tok = "inv" if (r.status_code == 500 and b"valid instance id" in r.data) else f"http{r.status_code}"
    return tok, (r.status_code, canon_body(r.data))


def canon_body(data):
    """response body with dictionary order canonicalised (the equations of a step come out in hash order)."""
    txt = data.decode(errors="replace")
    try:
        return json.dumps(json.loads(txt), sort_keys=True)
    except Exception:
        return txt


def op_code(i, op):
    i = 99 if i == GHOST else max(i, 0)
    if op[0] in ("s", "b", "R") and len(op) > 1 and op[1] is not None:
        if op[0] == "b" and not pairs(op[1]):
            return f"{i}B"              # begin-session with a `settings` key that is present and EMPTY
        return f"{i}{op[0]}" + "+".join(f"{k}={v}" for k, v in pairs(op[1]))
    return f"{i}{op[0]}"               # (begin-session / /run without settings: the key is OMITTED from the body)


def op_str(i, op):
    who = "srv" if i == OWN else "ghost" if i == GHOST else str(i)
    if op[0] == "b" and len(op) > 1 and op[1] is not None and not pairs(op[1]):
        return f"{who}:b(settings={{}})"
    if op[0] in ("s", "b", "R") and len(op) > 1 and op[1] is not None:
        return f"{who}:{op[0]}(" + ",".join(f"{KEYS[k][1]}={v}" for k, v in pairs(op[1])) + ")"
    return f"{who}:{op[0]}"


def n_initial(lists):
    """initial instances = the lists that do not start with a creation (they come first)"""
    k0 = sum(1 for l in lists if not (l and l[0][0] == "c"))
    assert all(not (l and l[0][0] == "c") for l in lists[:k0]) and all(l and l[0][0] == "c" for l in lists[k0:]), lists
    return k0


def run_interleaving(srv, k0, seq):
    """seq: list of (owner index, op); owners 0..k0-1 exist initially.  Returns per-op (token, body)."""
    for i, u in enumerate(srv.new_instances(k0)):
        srv.uids[i] = u
    return [do(srv, i, op) for i, op in seq]


# ---------------------------------------------------------------- concurrent handlers (different instances)
class Gate:
    """Wraps the bptk methods the handlers call, so that a handler can be held inside (before or after its bptk
    call) while another handler — for a DIFFERENT instance — runs."""
    METHODS = ("begin_session", "run_step", "session_results", "end_session", "try_lock", "unlock")

    def __init__(self):
        self.hooks = {}

    def wrap_mgr(self, mgr):
        """gate point right after the handler obtained its instance object from the InstanceManager"""
        if getattr(mgr, "_c16_gated", False):
            return
        mgr._c16_gated = True
        orig = mgr.get_instance
        def wrapped(uuid):
            inst = orig(uuid)
            h = self.hooks.get((uuid, "got"))
            if h: h()
            return inst
        mgr.get_instance = wrapped

    def wrap(self, b):
        if getattr(b, "_c16_gated", False):
            return
        b._c16_gated = True
        for name in self.METHODS:
            orig = getattr(b, name)
            def make(orig=orig, name=name):
                kind = "lock" if name == "try_lock" else "unlock" if name == "unlock" else "call"
                def wrapped(*a, **kw):
                    h = self.hooks.get((id(b), "before-" + kind))
                    if h: h()
                    try:
                        return orig(*a, **kw)
                    finally:
                        h = self.hooks.get((id(b), "after-" + kind))
                        if h: h()
                return wrapped
            setattr(b, name, make())


# "<inner>-inside-<outer>-<gate point>": the outer handler is held at the gate point while the inner handler runs completely.
# gate points: after-get-instance (InstanceManager.get_instance returned), after-lock (bptk.try_lock returned: run-step only),
# before-call / after-call (the handler's bptk call: begin_session, run_step, session_results, end_session), before-unlock
SCHEDULES = ("B-inside-A-before-call", "B-inside-A-after-call", "A-inside-B-before-call", "A-inside-B-after-call", "both-released-together",
             "B-inside-A-after-get-instance", "A-inside-B-after-get-instance", "B-inside-A-after-lock", "A-inside-B-after-lock",
             "B-inside-A-before-unlock")


def run_concurrent(srv, gate, la, opa, lb, opb, schedule):
    """requests opa (instance la) and opb (instance lb) in two threads with a forced overlap of their handlers"""
    import threading
    out = {}
    def fire(tag, label, op):
        try:
            out[tag] = do(srv, label, op, client=srv.app.test_client())
        except Exception as e:          # pragma: no cover
            out[tag] = ("exception", repr(e))
    objs = {}
    for tag, label in (("A", la), ("B", lb)):
        ent = srv.mgr._instances.get(srv.uids.get(label))
        objs[tag] = ent["instance"] if ent else None
        if objs[tag] is not None:
            gate.wrap(objs[tag])
    gate.wrap_mgr(srv.mgr)
    tA = threading.Thread(target=fire, args=("A", la, opa))
    tB = threading.Thread(target=fire, args=("B", lb, opb))
    inside, release = threading.Event(), threading.Event()
    gate.hooks = {}
    if schedule == "both-released-together":
        bar = threading.Barrier(2, timeout=5)
        def meet():
            try:
                bar.wait()
            except threading.BrokenBarrierError:
                pass
        for tag in ("A", "B"):
            if objs[tag] is not None:
                gate.hooks[(id(objs[tag]), "before-call")] = meet
        tA.start(); tB.start(); tA.join(30); tB.join(30)
    else:
        outer, inner = ("A", "B") if schedule.startswith("B-inside-A") else ("B", "A")
        phase = schedule.split("-", 3)[3]
        threads = {"A": tA, "B": tB}
        def hold():
            inside.set(); release.wait(20)
        if schedule.endswith("after-get-instance"):
            gate.hooks[(srv.uids.get(la if outer == "A" else lb), "got")] = hold
        elif objs[outer] is not None:
            gate.hooks[(id(objs[outer]), phase)] = hold
        threads[outer].start()
        while not inside.is_set() and threads[outer].is_alive():
            time.sleep(0.0005)
        overlapped = inside.is_set()
        threads[inner].start(); threads[inner].join(30)
        release.set(); threads[outer].join(30)
        out["overlapped"] = overlapped
    gate.hooks = {}
    return out


def gen_conc_case(rng):
    """two instances with sessions and settings; one pair of requests runs concurrently"""
    def lst():
        ops = [("b", rand_setting(rng, 2))]
        for _ in range(rng.range(2, 4)):
            r = rng.below(8)
            ops.append(("s", rand_setting(rng, 2)) if r < 5 else ("r",) if r < 6 else ("e",) if r < 7 else ("b", rand_setting(rng, 2)))
        ops.append(("s", None)); ops.append(("r",))
        return ops
    lists = [lst(), lst()]
    def pick(l):
        steps = [j for j, o in enumerate(l[:-1]) if o[0] == "s"]
        return rng.choice(steps) if (steps and rng.chance(2, 3)) else rng.below(len(l) - 1)
    return lists, pick(lists[0]), pick(lists[1]), rng.choice(SCHEDULES)


def check_conc_case(srvs, solo, style, ad, lists, pa, pb, schedule, rng):
    """prefixes sequentially (random merge), the pair concurrently, the rest sequentially; everything compared with the solo replays.
    returns (seq as executed in the order A, B for the model, tokens, diffs, overlapped)"""
    srv = srvs.new(style, ad)
    gate = Gate()
    for i, u in enumerate(srv.new_instances(2)):
        srv.uids[i] = u
    pre = random_merge(rng, [lists[0][:pa], lists[1][:pb]])
    post = random_merge(rng, [lists[0][pa + 1:], lists[1][pb + 1:]])
    got = [do(srv, i, op) for i, op in pre]
    res = run_concurrent(srv, gate, 0, lists[0][pa], 1, lists[1][pb], schedule)
    got += [res.get("A", ("missing", None)), res.get("B", ("missing", None))]
    got += [do(srv, i, op) for i, op in post]
    seq = pre + [(0, lists[0][pa]), (1, lists[1][pb])] + post
    check_conc_case.last_got = got
    made = len(srv.made)
    diffs, cnt = [], [0, 0]
    for pos, (i, op) in enumerate(seq):
        exp = solo.get(srvs, style, ad, lists[i])[cnt[i]]
        cnt[i] += 1
        if got[pos] != exp:
            diffs.append((pos, i, got[pos], exp))
    return seq, [t for t, _ in got] + [f"made:{made}"], diffs, res.get("overlapped", True)


# ---------------------------------------------------------------- generators
def rand_setting(rng, none_weight=1):
    """none | one element (listed constant, unlisted constant, either table) | two elements at once"""
    r = rng.below(6 + none_weight)
    if r < none_weight:
        return None
    r -= none_weight
    if r < 4:
        return ("ckpq"[r], 0 if rng.chance(1, 8) else rng.range(2, 9))          # falsy 0 / 0.0 among the values (wave 7)
    ks = rng.shuffle([0, 1, 2, 3])[:2]
    return ("m", tuple((k, 0 if rng.chance(1, 8) else rng.range(2, 9)) for k in sorted(ks)))


def gen_list(rng, long, created=False, points_heavy=False, unpersisted=False, absent=False):
    """request list of one instance (mostly valid).  `created`: the instance is created during the history.
    `unpersisted` (adapter servers): contains a block step; [end-session]; [begin-session with other settings]; …; step — between
    the block's steps the instance has in-memory state that the external store does not have.
    `absent`: the instance leaves memory (stop / timeout) and is addressed again afterwards, several times."""
    def sett(w=1):
        s = rand_setting(rng, w)
        if points_heavy and s is not None and s[0] != "m" and rng.chance(1, 2):
            s = (rng.choice(["p", "q"]), s[1])
        return s
    ops = [("c",)] if created else []
    def bsett(w):
        # the optional `settings` part of begin-session: omitted (None) / present and empty / present with values
        return ("m", ()) if rng.chance(1, 7) else sett(w)
    ops.append(("b", bsett(2)))
    n = rng.range(2, 6 if long else 3)
    for _ in range(n):
        r = rng.below(12)
        if r < 3:
            ops.append(("s", None))
        elif r < 8:
            ops.append(("s", sett(0)))
        elif r < 9:
            ops.append(("r",))
        elif r < 10:
            ops.append(("k",))
        elif r < 11:
            ops += [("e",), ("b", bsett(2))] if rng.chance(1, 2) else [("e",), ("s", None)]
        else:
            ops.append(("x",) if rng.chance(1, 2) else ("t",))
    if unpersisted:
        blk = [("s", sett(1))]
        v = rng.below(3)
        if v != 1: blk.append(("e",))
        if v != 0: blk.append(("b", sett(0)))
        if rng.chance(1, 3): blk.append(("r",))
        blk += [("s", None), ("r",)]
        at = rng.range(1, len(ops))
        ops[at:at] = blk
    if absent or rng.chance(1, 3):
        ops.append(rng.choice([("x",), ("t",), ("t",)]))
        for _ in range(rng.range(1, 3) if absent else 1):
            ops.append(rng.choice([("s", None), ("k",), ("r",), ("b", sett(2)), ("s", sett(0)), ("e",)]))
        if rng.chance(1, 2):
            ops.append(("s", None))
    ops.append(("r",))
    if rng.chance(1, 8) and not created:
        ops = ops[1:]                    # no begin-session at all
    # wave 7: the flat results endpoint and run-step without a request body
    ops = [("r", "flat") if (o == ("r",) and rng.chance(1, 3)) else ("s", None, "nobody") if (o == ("s", None) and rng.chance(1, 4)) else o
           for o in ops]
    return ops


def gen_ghost(rng):
    """requests to an id that never existed"""
    return [rng.choice([("k",), ("r",), ("s", None), ("b", None), ("e",), ("x",)]) for _ in range(rng.range(1, 3))]


def gen_own(rng):
    """requests to the server-level bptk object"""
    ops = []
    for _ in range(rng.range(1, 3)):
        r = rng.below(6)
        ops.append(("R", rand_setting(rng, 1)) if r < 4 else rng.choice([("q",), ("q", "scenarios")]) if r < 5 else ("a",))
    return ops


def merges(lists):
    """all interleavings of the lists (as sequences of (index, op))."""
    def rec(pos):
        if all(p == len(l) for p, l in zip(pos, lists)):
            yield []
            return
        for i, l in enumerate(lists):
            if pos[i] < len(l):
                np = list(pos); np[i] += 1
                for rest in rec(np):
                    yield [(i, l[pos[i]])] + rest
    return rec([0] * len(lists))


def random_merge(rng, lists, own=(), ghost=()):
    """random interleaving; `own` (server-level requests) gets owner index OWN, `ghost` (unknown id) GHOST"""
    ls = [(i, list(l)) for i, l in enumerate(lists)] + ([(OWN, list(own))] if own else []) + ([(GHOST, list(ghost))] if ghost else [])
    pos = [0] * len(ls)
    out = []
    while True:
        live = [j for j, (_, l) in enumerate(ls) if pos[j] < len(l)]
        if not live:
            return out
        j = rng.choice(live)
        out.append((ls[j][0], ls[j][1][pos[j]])); pos[j] += 1


class Solo:
    """responses of one owner's request list replayed alone on a new server of the same kind (cached)."""
    def __init__(self):
        self.cache = {}

    def get(self, srvs, style, ad, ops, own=False):
        """own: False (an instance) | OWN | GHOST"""
        key = (style, ad, own, repr(ops))
        if key not in self.cache:
            srv = srvs.new(style, ad)
            if own:
                self.cache[key] = run_interleaving(srv, 0, [(own, o) for o in ops])
            else:
                k0 = 0 if (ops and ops[0][0] == "c") else 1
                self.cache[key] = run_interleaving(srv, k0, [(0, o) for o in ops])
            srvs.retire(srv)
        return self.cache[key]


class Servers:
    def __init__(self):
        self.all = []

    def new(self, style, ad=False):
        s = Srv(style, ad)
        self.all.append(s)
        if len(self.all) > 10:                     # keep the number of live monitor threads small
            for x in self.all[:-5]:
                x.close()
                self.all.remove(x)
        return s

    def retire(self, s):
        s.close()
        if s in self.all:
            self.all.remove(s)

    def close(self):
        for s in self.all:
            s.close()
        self.all = []


def check_case(srvs, solo, style, ad, lists, own, seq):
    # (`own` is kept for the callers' convenience: the server-level / ghost lists are read off `seq`)
    """returns (tokens, diffs) — diffs: list of (position in seq, owner, got, expected)"""
    srv = srvs.new(style, ad)
    got = run_interleaving(srv, n_initial(lists), seq)
    made = len(srv.made)
    srvs.retire(srv)
    check_case.last_got = got
    diffs = []
    cnt = {}
    for pos, (i, op) in enumerate(seq):
        exp = solo.get(srvs, style, ad, [o for a, o in seq if a == i] if i < 0 else lists[i], own=(i if i < 0 else False))[cnt.get(i, 0)]
        cnt[i] = cnt.get(i, 0) + 1
        if got[pos] != exp:
            diffs.append((pos, i, got[pos], exp))
    return [t for t, _ in got] + [f"made:{made}"], diffs


# ---------------------------------------------------------------- values: the model's effective settings -> the numbers of the harness model
def parse_eff(txt):
    return {} if txt in ("-", "") else {int(a.split("=")[0]): int(a.split("=")[1]) for a in txt.split("+")}


def flow_of(eff):
    v = {k: eff.get(k, DEFAULTS[k]) for k in DEFAULTS}
    return float(v[0] * v[2] + v[1] * v[3]), v


def class_token(tok):
    """`val` token -> class token"""
    if tok.startswith("step:"):
        return ":".join(tok.split(":")[:2])
    return "ran" if tok.startswith("ran:") else tok


def value_diff(tok, body):
    """compare the numbers of a real step / run body with the closed form of the harness model evaluated on the effective
    settings the Lean machine predicts; returns a text or None"""
    try:
        if tok.startswith("step:") and isinstance(body, tuple) and body[0] == 200:
            _, t, memo = tok.split(":", 2)
            effs = [parse_eff(x) for x in memo.split("|")]
            flows = [flow_of(e)[0] for e in effs]
            f, v = flow_of(effs[-1])
            want = {"stock": float(sum(flows[:-1])), "flow": f, "constant": float(v[0]), "k2": float(v[1]), "conv": float(v[2]), "conv2": float(v[3])}
            d = json.loads(body[1])[SM][SC]
            got = {eq: float(next(iter(d[eq].values()))) for eq in want}
            if got != want:
                return f"step at t={t}: model predicts {want} from effective settings {effs}, the server returned {got}"
        elif tok.startswith("ran:") and isinstance(body, tuple) and body[0] == 200:
            f, v = flow_of(parse_eff(tok.split(":", 1)[1]))
            d = json.loads(body[1])[SM][SC]["equations"]
            got = {"stock@1": float(d["stock"]["1.0"]), "constant": float(d["constant"]["0.0"]), "k2": float(d["k2"]["0.0"]),
                   "conv": float(d["conv"]["0.0"]), "conv2": float(d["conv2"]["0.0"])}
            want = {"stock@1": f, "constant": float(v[0]), "k2": float(v[1]), "conv": float(v[2]), "conv2": float(v[3])}
            if got != want:
                return f"/run: model predicts {want}, the server returned {got}"
    except Exception as e:
        return f"value comparison failed: {type(e).__name__}: {e} on {tok!r}"
    return None


def split_seq(seq, n):
    return [[op for i, op in seq if i == k] for k in range(n)], [op for i, op in seq if i == OWN]


def shrink(srvs, solo, style, ad, lists, own, seq):
    """greedy deletion of requests (creations are kept) while some response still differs from the solo replay."""
    seq = list(seq)
    n = len(lists)
    changed = True
    while changed:
        changed = False
        for j in range(len(seq)):
            if seq[j][1][0] == "c":
                continue
            cand = seq[:j] + seq[j + 1:]
            ls, ow = split_seq(cand, n)
            if cand and check_case(srvs, solo, style, ad, ls, ow, cand)[1]:
                seq, lists, own, changed = cand, ls, ow, True
                break
    return lists, own, seq


def probe_style(srvs, solo, style):
    """instancesShareNothing for the factory style: settings of both kinds through instance 0 (begin-session and
    run-step) and through the server-level /run, steps of instance 1 — lookups of `tbl` read the points."""
    # … and instance 1, having stepped before, finally sends EXACTLY the step settings instance 0 applied last (different from its own values)
    lists = [[("b", ("p", 6)), ("s", ("c", 5)), ("s", ("p", 7)), ("s", None), ("s", ("m", ((1, 4), (3, 9))))],
             [("b", None), ("s", None), ("s", None), ("s", None), ("s", ("m", ((1, 4), (3, 9)))), ("s", None), ("r",)]]
    own = [("R", ("p", 3))]
    seq = [(0, lists[0][0]), (1, lists[1][0]), (0, lists[0][1]), (1, lists[1][1]), (0, lists[0][2]), (1, lists[1][2]), (OWN, own[0]),
           (0, lists[0][3]), (1, lists[1][3]), (0, lists[0][4]), (1, lists[1][4]), (1, lists[1][5]), (1, lists[1][6])]
    toks, diffs = check_case(srvs, solo, style, False, lists, own, seq)
    return not diffs, (lists, own, seq, diffs)


RESTORE_B = [("b", None), ("s", None), ("e",), ("b", ("c", 5)), ("s", None), ("r",)]


def probe_restore(srvs, solo):
    """restoreOnlyAddressed: on a server with adapter, instance 1 has an externalised session and then ends it and begins another
    one with another setting (not externalised); a request to an id that is not in memory — a stopped instance, an id that never
    existed, a timed-out instance — must not change what instance 1 answers next."""
    B = RESTORE_B
    variants = [
        ([[("x",), ("k",)], B], [(1, o) for o in B[:4]] + [(0, ("x",)), (0, ("k",))] + [(1, o) for o in B[4:]]),
        ([[("k",)], B], [(0, ("k",))] + [(1, o) for o in B[:4]] + [(GHOST, ("k",))] + [(1, o) for o in B[4:]]),
        ([[("b", None), ("s", None), ("t",), ("r",)], B],
         [(0, ("b", None)), (0, ("s", None))] + [(1, o) for o in B[:4]] + [(0, ("t",)), (0, ("r",))] + [(1, o) for o in B[4:]]),
    ]
    detail = None
    for lists, seq in variants:
        toks, diffs = check_case(srvs, solo, "fresh", True, lists, [], seq)
        if diffs and detail is None:
            detail = (lists, seq, diffs)
    return detail is None, detail


def cfg_line(facts, st):
    return (f"cfg {'1' if facts[st] else '0'} {'1' if facts['restore'] else '0'} {'1' if facts['freshObj'] else '0'} "
            f"{'1' if facts['kindScn'][st] else '0'} {'1' if facts['kindHandler'] else '0'}")


def fac_line(st):
    return "fac " + "+".join(f"{k}={v}" for k, v in FAC[st].items())


def probe_dicts(srvs, style):
    """identity of the scenario-level dictionaries (and of the dictionaries they came from) across two instances and across an
    instance and the server's base bptk: `SimulationScenario.constants`, `.points`, `.dictionary`, the manager's base dictionaries"""
    srv = srvs.new(style, False)
    try:
        srv.new_instances(2)
        bs = list(srv.made)[:3]
        def parts(b):
            sc = b.get_scenario(SM, SC)
            mg = b.scenario_manager_factory.scenario_managers[SM]
            return {"constants": sc.constants, "points": sc.points, "dictionary": sc.dictionary,
                    "base_constants": mg.base_constants, "base_points": mg.base_points}
        ps = [parts(b) for b in bs]
        shared = sorted({k for i in range(len(ps)) for j in range(i + 1, len(ps)) for k in ps[i]
                         if ps[i][k] is ps[j][k] and (k in ("constants", "points", "dictionary") or len(ps[i][k]) > 0)})
        return not shared, shared
    finally:
        srvs.retire(srv)


def gen_lean(facts):
    b = lambda x: "true" if x else "false"
    out = ["import Bptk.Props.C16", "/-! GENERATED by harness/props/c16.py from /repo on every run — do not edit. -/",
           "namespace Bptk.C16.Gen"]
    for st in STYLES:
        out.append(f"def cfg_{st} : Cfg := {{ instancesShareNothing := {b(facts[st])}, restoreOnlyAddressed := {b(facts['restore'])}, "
                   f"freshObjects := {b(facts['freshObj'])}, sharedIsScenarioDicts := {b(facts['kindScn'][st])}, "
                   f"sharedIsHandlerDefaults := {b(facts['kindHandler'])} }}")
        if not facts[st] and facts["kindHandler"] and not facts["kindScn"][st]:
            out.append(f"theorem violated_{st} : ¬ C16_full cfg_{st} := C16_witness_handler_defaults cfg_{st} (by decide) (by decide)")
            out.append(f"#print axioms violated_{st}")
        elif not facts[st]:
            w = "C16_witness_shared_cache" if facts["kindScn"][st] else "C16_witness_shared"
            hh = "" if facts["kindScn"][st] else " (by decide)"
            out.append(f"theorem violated_{st} : ¬ C16_full cfg_{st} := {w} cfg_{st} (by decide) (by decide){hh}")
            out.append(f"#print axioms violated_{st}")
            out.append(f"theorem violated_run_{st} : ¬ C16_full cfg_{st} := {w}_run cfg_{st} (by decide) (by decide){hh}")
            out.append(f"#print axioms violated_run_{st}")
        elif not facts["restore"]:
            out.append(f"theorem violated_{st} : ¬ C16_full cfg_{st} := C16_witness_restore_all cfg_{st} (by decide)")
            out.append(f"#print axioms violated_{st}")
            out.append(f"theorem violated_ghost_{st} : ¬ C16_full cfg_{st} := C16_witness_restore_all_ghost cfg_{st} (by decide)")
            out.append(f"#print axioms violated_ghost_{st}")
            out.append(f"theorem touches_others_{st} : ∃ (s : Server) (op : Nat × Req) (t : Option Nat), absent s.insts op.1 = true ∧ "
                       f"owner op ≠ t ∧ comp t (step cfg_{st} s op).1 ≠ comp t s :=\n  C16_absent_touches_others cfg_{st} (by decide)")
            out.append(f"#print axioms touches_others_{st}")
        elif not facts["freshObj"]:
            out.append(f"theorem violated_{st} : ¬ C16_full cfg_{st} := C16_witness_recycled cfg_{st} (by decide)")
            out.append(f"#print axioms violated_{st}")
            out.append(f"theorem violated_restore_{st} : ¬ C16_full cfg_{st} := C16_witness_recycled_restore cfg_{st} (by decide) (by decide)")
            out.append(f"#print axioms violated_restore_{st}")
        else:
            out.append(f"theorem holds_{st} : C16_full cfg_{st} := C16_full_of_good cfg_{st} (by decide) (by decide) (by decide)")
            out.append(f"#print axioms holds_{st}")
            out.append(f"theorem lifecycle_{st} (fac : Obj) (k : Nat) (ad : Bool) (pre ops : List (Nat × Req)) (i : Nat) (hk : k ≤ i) "
                       f"(hpre : ∀ op ∈ pre, owner op ≠ some i) :\n"
                       f"    respsOf (some i) (resps cfg_{st} (final cfg_{st} (Server.initF fac k ad) pre) ops) =\n"
                       f"    respsOf (some i) (resps cfg_{st} (Server.initF fac 0 ad) (proj (some i) ops)) :=\n"
                       f"  C16_lifecycle cfg_{st} (by decide) (by decide) (by decide) fac k ad pre ops i hk hpre")
            out.append(f"#print axioms lifecycle_{st}")
            out.append(f"theorem fresh_{st} (s : Server) : takeObj cfg_{st} s = s.fac := takeObj_fresh cfg_{st} (by decide) s")
            out.append(f"#print axioms fresh_{st}")
            out.append(f"theorem absent_local_{st} (s : Server) (op : Nat × Req) (t : Option Nat) (h : absent s.insts op.1 = true) "
                       f"(ht : owner op ≠ t) :\n    comp t (step cfg_{st} s op).1 = comp t s :=\n"
                       f"  C16_absent_touches_nobody cfg_{st} s op t (Or.inl (by decide)) h ht")
            out.append(f"#print axioms absent_local_{st}")
            out.append(f"theorem commute_{st} (s : Server) (a b : Nat × Req) (h : owner a ≠ owner b) :\n"
                       f"    (step cfg_{st} (step cfg_{st} s b).1 a).2 = (step cfg_{st} s a).2 ∧\n"
                       f"    (step cfg_{st} (step cfg_{st} s a).1 b).2 = (step cfg_{st} s b).2 :=\n"
                       f"  ⟨(C16_commute cfg_{st} (by decide) (by decide) (by decide) s a b h).1, "
                       f"(C16_commute cfg_{st} (by decide) (by decide) (by decide) s a b h).2.1⟩")
            out.append(f"#print axioms commute_{st}")
    out += ["#print axioms C16_values", "end Bptk.C16.Gen", ""]
    return "\n".join(out)


_STRUCT = []          # structural observations of the probes (shared or reused MUTABLE objects without any behavioural effect)


def probe_fresh(srvs, solo):
    """freshObjects: identity of the bptk / scenario / model objects across stop -> start, timeout -> start and stop -> restore on the
    real server, and — behaviourally — whether settings written through the stopped instance are seen by the started one."""
    detail = {}
    ok = True
    for ad in (False, True):
        srv = srvs.new("fresh", ad)
        try:
            srv.uids[0], srv.uids[1] = srv.new_instances(2)
            seen = []
            def objs(label):
                ent = srv.mgr._instances.get(srv.uids[label])
                b = ent["instance"]
                sc = b.get_scenario(SM, SC)
                return [b, sc, sc.model, sc.constants, sc.points, sc.model.points]
            seen += objs(0) + objs(1)
            do(srv, 0, ("b", ("k", 7))); do(srv, 0, ("s", ("q", 4)))
            do(srv, 1, ("b", ("p", 6))); do(srv, 1, ("s", ("k", 3)))
            made0 = len(srv.made)
            do(srv, 0, ("x",))                  # stop -> start
            def left(label):
                """what a just started / restored instance shows of settings it never received: scenario-level and model-level"""
                sc = srv.mgr._instances[srv.uids[label]]["instance"].get_scenario(SM, SC)
                out = {f"scenario.{k}": v for k, v in sc.constants.items() if k != "constant"}
                out.update({f"scenario.points.{k}": v for k, v in sc.points.items()})
                if sc.model.points["tbl2"][0][1] != 1.0: out["model.tbl2"] = sc.model.points["tbl2"][0][1]
                if sc.model.points["tbl"][0][1] != 1.0: out["model.tbl"] = sc.model.points["tbl"][0][1]
                if float(sc.model.equations["k2"](0.0)) != 2.0: out["model.k2"] = float(sc.model.equations["k2"](0.0))
                return out
            do(srv, 2, ("c",))
            new = objs(2)
            leftovers = {f"after stop->start: {k}": v for k, v in left(2).items()}
            do(srv, 1, ("t",))                  # timeout -> start
            do(srv, 3, ("c",))
            new += objs(3)
            leftovers.update({f"after timeout->start: {k}": v for k, v in left(3).items()})
            if ad:                              # timeout -> restore of instance 1 (its next request) after the stop of instance 2
                do(srv, 2, ("b", ("k", 9))); do(srv, 2, ("s", None)); do(srv, 2, ("x",))
                do(srv, 1, ("k",))
                if srv.uids[1] in srv.mgr._instances:
                    new += objs(1)[:3] + objs(1)[5:]
            recycled = [type(o).__name__ for o in new if any(o is p for p in seen) and not isinstance(o, (tuple, frozenset, str, bytes, int, float, bool, type(None)))]
            factory_calls = len(srv.made) - made0
            detail[f"adapter={ad}"] = {"objects_reused": recycled, "factory_calls_for_starts_and_restores": factory_calls,
                                      "expected_factory_calls": 3 if ad else 2, "leftovers": leftovers}
            # the fact is behavioural: does anything written through the instance that went away show in the started one?
            if leftovers:
                ok = False
            # object identity and the number of factory calls are structure: noted, not held against the code
            if recycled:
                _STRUCT.append(f"objects of a stopped / timed-out instance are handed to a started or restored one ({sorted(set(recycled))}, adapter={ad})")
            if factory_calls != (3 if ad else 2):
                _STRUCT.append(f"{factory_calls} factory calls for {3 if ad else 2} starts / restorations (adapter={ad})")
        finally:
            srvs.retire(srv)
    return ok, detail


FINDING_KEY = {"fresh": "cross-talk-fresh-model-factory", "sharedBase": "cross-talk-shared-base-model-factory",
               "files": "cross-talk-scenario-files-factory"}
RESTORE_KEY = "cross-talk-restore-rebuilds-other-instances"
RECYCLE_KEY = "cross-talk-recycled-instance-object"
HANDLER_KEY = "cross-talk-handler-class-level-defaults"
FUNCDEF_KEY = "cross-talk-function-default-argument"


def run(chk):
    import contextlib, io
    quiet_bptk_logging()
    srvs = Servers()
    cwd, work = os.getcwd(), scratch_dir("c16cwd")          # bptk() re-enables its log file (bptk_py.log in the working directory)
    os.chdir(work)
    try:
        with contextlib.redirect_stdout(io.StringIO()):      # FileAdapter prints "Error: ..." when a state file is absent
            _run(chk, srvs)
    finally:
        os.chdir(cwd)
        srvs.close()
        shutil.rmtree(work, ignore_errors=True)
        for r in _file_roots:
            shutil.rmtree(r, ignore_errors=True)
            if r in sys.path:
                sys.path.remove(r)
        del _file_roots[:]


def _run(chk, srvs):
    solo = Solo()
    facts, pdetail = {}, {}
    del _STRUCT[:]
    facts["kindScn"], ddetail = {}, {}
    for st in STYLES:
        facts[st], pdetail[st] = probe_style(srvs, solo, st)
        owned, shared = probe_dicts(srvs, st)
        ddetail[st] = shared
        # the fact is behavioural (probe_style: does a setting given through one owner change what another one answers?); the identity
        # of the dictionaries says WHICH mechanism it is when it fails, and is only noted when nothing fails
        facts["kindScn"][st] = (not facts[st]) and (not owned)
        if facts[st] and not owned:
            _STRUCT.append(f"{st} factory: two factory products share the scenario dictionaries {shared} (never written through)")
    chk.notes["shared_scenario_dictionaries"] = ddetail
    # handler-level state: did the probe histories (begin-session with settings on one instance, begin-session WITHOUT the key on
    # another) write into a class attribute of the server module?
    proc_restore()
    facts["kindHandler"] = any(n.startswith("bptkServer.") and "__defaults__" not in n and "__kwdefaults__" not in n for n in _proc_dirty)
    # (`bptk.run_scenarios(series_names={})` fills its default dictionary with column names for the dataframe format on the clean tree too:
    # the known wart behind "pass series_names explicitly"; it does not reach a JSON response)
    benign = {"bptk.bptk.run_scenarios.__defaults__[5]"}
    facts["kindFuncDefault"] = any(("__defaults__" in n or "__kwdefaults__" in n) and n not in benign for n in _proc_dirty)
    chk.notes["process_level_state_written_by_probes"] = sorted(_proc_dirty)
    for st in STYLES:
        if not facts[st]:
            chk.notes[f"probe_detail[{st}]"] = [(p_, i_, str(g_)[:400], str(e_)[:400]) for p_, i_, g_, e_ in pdetail[st][3][:2]]
    facts["restore"], rdetail = probe_restore(srvs, solo)
    facts["freshObj"], fdetail = probe_fresh(srvs, solo)
    chk.notes["freshness_probe"] = fdetail
    chk.notes["cfg"] = dict({f"instancesShareNothing[{st}]": facts[st] for st in STYLES}, restoreOnlyAddressed=facts["restore"], freshObjects=facts["freshObj"])
    ok, why = chk.prove(gen_lean(facts))
    chk.cov["trusted_base"] = [
        "Lean 4.33 kernel; axioms propext, Classical.choice, Quot.sound (audited per run via #print axioms)",
        "hand-written model lean/Bptk/Core/C16.lean: per-instance state machine (alive, settings knob, session clock/stock/log, externalised session), the server-level bptk object, one process-wide cell; tied to /repo by the probe of both factory styles and by the class/time/log-length comparison of every generated history; numeric bodies are compared real-vs-real (interleaved vs solo replay)",
        "Flask routing, JSON encoding, the SD simulation itself (C01/C09) are not modelled: the model's stock values are schematic",
        "concurrent handlers: the theorem (C16_commute) is at request-handler granularity; the forced thread overlaps inside the handlers are harness evidence compared with the sequential result",
    ]
    chk.assumptions = [
        "instances are addressed by uuid; the harness maps uuids to labels in creation order",
        "a timeout is produced by moving the instance's last-access time into the past and triggering a sweep (GET /metrics); which request triggers a sweep is C17's subject",
        "config.configuration (module-level dict shared by every bptk object) is written only by bptk.__init__ with a configuration argument; the factories used pass none",
        "the external state adapter is a FileAdapter (compressed) with a directory per server; its encoding is C19's subject",
    ]
    rng = chk.rng.fork("c16")
    cases = []              # dicts: style, ad, lists, own, seq
    dist = {"exhaustive_merges": 0, "sampled_merges": 0, "with_adapter": 0, "with_creation": 0, "with_server_level": 0,
            "sharedBase": 0, "points_settings": 0, "begin_session_settings": 0, "restorations": 0,
            "starts_after_a_stop_or_timeout_of_an_instance_that_received_settings": 0, "requests_to_absent_ids_on_adapter_servers": 0, "…_while_another_instance_holds_unpersisted_state": 0, "ghost_id_requests": 0}
    def add_case(st, ad, lists, own, seq, kind):
        cases.append({"style": st, "ad": ad, "lists": lists, "own": own, "seq": seq})
        dist[kind] += 1
        dist["with_adapter"] += ad
        dist["with_creation"] += any(l and l[0][0] == "c" for l in lists)
        dist["with_server_level"] += bool(own)
        dist["sharedBase"] += st == "sharedBase"
        dist["scenario_files_factory"] = dist.get("scenario_files_factory", 0) + (st == "files")
        dist["points_settings"] += any(len(o) > 1 and any(k >= 2 for k, _ in pairs(o[1])) for _, o in seq)
        dist["settings_for_unlisted_elements"] = dist.get("settings_for_unlisted_elements", 0) + any(len(o) > 1 and any(k != 0 for k, _ in pairs(o[1])) for _, o in seq)
        dist["begin_session_settings"] += any(o[0] == "b" and len(o) > 1 and o[1] is not None for _, o in seq)
        dist["ghost_id_requests"] += sum(1 for i, _ in seq if i == GHOST)
        rows = dist.setdefault("coverage_rows", {})
        for i, o in seq:
            keys = [("endpoint " + {"b": "begin-session", "s": "run-step", "r": "session-results", "e": "end-session", "k": "keep-alive",
                                    "x": "stop-instance", "t": "timeout sweep", "c": "start-instance", "R": "/run", "q": "/equations", "a": "/agents"}[o[0]])]
            if o == ("r", "flat"): keys = ["endpoint flat-session-results"]
            if o == ("q", "scenarios"): keys = ["endpoint /scenarios"]
            if o[0] == "s" and len(o) > 2: keys.append("run-step without request body")
            if o[0] in ("b", "s", "R") and len(o) > 1 and o[1] is not None:
                ps = pairs(o[1])
                lvl = {"b": "session-level", "s": "step-level", "R": "/run"}[o[0]]
                for k, v in ps:
                    keys.append(f"{lvl} setting: {KEYS[k][0]} {'listed' if k == 0 else 'unlisted'}")
                    if v == 0: keys.append("setting value 0 (falsy)")
                if len(ps) > 1: keys.append("two elements in one setting")
            keys.append(f"style {st}" + (" + adapter" if ad else ""))
            for k in keys:
                rows[k] = rows.get(k, 0) + 1
        wrote, gone_w = set(), False
        for i, o in seq:
            if len(o) > 1 and o[1] is not None and i >= 0: wrote.add(i)
            if o[0] in ("x", "t") and i in wrote: gone_w = True
            if o[0] == "c" and gone_w:
                dist["starts_after_a_stop_or_timeout_of_an_instance_that_received_settings"] += 1
                break
        if ad:
            for l in lists:
                dist["restorations"] += any(l[j][0] == "t" and any(o[0] == "s" for o in l[:j]) and j + 1 < len(l) for j in range(len(l)))
            # requests to ids that are not in memory, and whether some OTHER instance is then ahead of the external store
            gone, dirty, hit, hit_dirty = set(), {}, 0, 0
            for i, o in seq:
                if i == OWN:
                    continue
                if o[0] in ("b", "s", "r", "e", "k") and (i == GHOST or i in gone):
                    hit += 1
                    hit_dirty += any(v for j, v in dirty.items() if j != i)
                    gone.discard(i)
                if i != GHOST:
                    if o[0] in ("x", "t"): gone.add(i); dirty[i] = False
                    elif o[0] == "s": dirty[i] = False
                    elif o[0] in ("b", "e") and i not in gone: dirty[i] = True
            dist["requests_to_absent_ids_on_adapter_servers"] += hit
            dist["…_while_another_instance_holds_unpersisted_state"] += hit_dirty
    # exhaustive merges of short lists (server-level requests as a third owner; creation and adapter in some)
    short_sets = [
        (False, [[("b", None), ("s", ("c", 5)), ("s", None)], [("b", None), ("s", None), ("r",)]], []),
        (False, [[("b", ("p", 3)), ("s", ("p", 4)), ("x",)], [("b", None), ("s", ("c", 3)), ("s", None)]], []),
        (True, [[("b", None), ("s", ("p", 6)), ("t",), ("s", None)], [("b", ("p", 2)), ("s", None), ("k",), ("r",)]], []),
        (False, [[("b", ("p", 5)), ("s", None), ("s", None)], [("c",), ("b", None), ("s", None)]], [("R", ("p", 8))]),
    ]
    if not chk.quick:
        short_sets += [
            (False, [[("b", None), ("s", ("c", 5)), ("e",), ("b", ("p", 4)), ("s", None)], [("b", None), ("s", ("p", 6)), ("s", None), ("r",)]], []),
            (False, [[("b", None), ("s", ("c", 5))], [("b", None), ("s", ("p", 2))], [("b", ("p", 7)), ("s", None), ("r",)]], []),
            (False, [[("s", None), ("b", None), ("s", ("c", 9)), ("x",), ("k",)], [("b", None), ("s", None), ("s", None), ("r",)]], []),
            (True, [[("b", ("c", 4)), ("s", ("p", 3)), ("t",), ("r",), ("s", None)], [("c",), ("b", None), ("s", None), ("t",), ("s", None)]], []),
            (True, [[("b", None), ("s", None), ("s", None)], [("b", ("p", 9)), ("s", None)]], [("R", ("c", 4)), ("q",), ("R", None)]),
        ]
    # wave 3, all merges in both tiers: an instance ahead of the external store (step; end-session; begin-session with another
    # setting; step) against requests to an id that is not in memory — a stopped instance, a timed-out one, an id that never existed
    Bq = [("b", None), ("s", None), ("e",), ("b", ("c", 5)), ("s", None)]
    directed = [([[("x",), ("k",)], Bq], []), ([[("s", None)], Bq], [("k",)]), ([[("b", None), ("s", None), ("t",), ("r",)], Bq[:4] + [("r",)]], [])]
    if not chk.quick:
        directed += [([[("b", ("p", 3)), ("s", None), ("x",), ("s", None)], [("b", None), ("s", ("p", 4)), ("b", ("p", 6)), ("s", None), ("r",)]], [("r",)]),
                     ([[("b", None), ("s", ("c", 2)), ("e",), ("r",), ("s", None)], [("c",), ("b", None), ("t",), ("e",)]], [])]
    # wave 5, lifecycle: stop -> start, timeout -> start, stop -> restore, with session-level and step-level settings for elements the
    # scenario does not list (k2, tbl2) written through the instance that goes away
    A1 = [("b", ("k", 7)), ("s", ("q", 4)), ("x",)]
    A2 = [("b", ("m", ((1, 6), (2, 3)))), ("s", ("c", 5)), ("t",)]
    C1 = [("c",), ("b", None), ("s", None), ("r",)]
    life = [(False, [A1, C1]), (True, [A2, C1]), (True, [A1, [("b", ("q", 2)), ("s", None), ("t",), ("s", None), ("r",)]])]
    if not chk.quick:
        life += [(True, [A1, [("c",), ("b", ("p", 5)), ("s", ("k", 3)), ("t",), ("s", None)]]), (False, [A2, A1, C1]),
                 (True, [[("b", ("k", 8)), ("s", None), ("x",)], [("b", None), ("s", ("q", 6)), ("x",)], [("c",), ("b", None), ("s", None)]])]
    for ad, lists in life:
        ms = list(merges(lists))
        if len(ms) > (12 if chk.quick else 200):
            ms = rng.shuffle(ms)[:(12 if chk.quick else 200)]
        for seq in ms:
            add_case(rng.choice(["fresh", "files"]) if (chk.quick or rng.chance(2, 3)) else "sharedBase", ad, lists, [], seq, "exhaustive_merges")
    # sequenced lifecycle cases: instance A receives settings and goes away (stop / timeout) BEFORE instance C is started; a third
    # instance B runs sessions across both phases; with adapter C (or B) may time out and be restored after A's stop
    def unl(w=0):
        x = rand_setting(rng, w)
        return x if (x is None or x[0] != "c" or rng.chance(1, 3)) else (rng.choice(["k", "q"]), x[1])
    for n in range(44 if chk.quick else 400):
        ad = rng.chance(1, 2)
        A = [("b", unl())] + [("s", unl(1)) for _ in range(rng.range(1, 2))]
        if rng.chance(1, 3): A += [("e",), ("b", unl(1)), ("s", unl(1))]
        A.append(rng.choice([("x",), ("x",), ("t",)]))
        C = [("c",), ("b", unl(3)), ("s", unl(3)), ("s", None)]
        if ad and rng.chance(1, 2): C += [("t",), ("s", None)]
        C.append(("r",))
        B = gen_list(rng, long=False, unpersisted=ad and rng.chance(1, 2), absent=ad and rng.chance(1, 2))
        h = rng.range(0, len(B))
        ph1 = random_merge(rng, [A, B[:h]])
        ph2 = [(2 if i == 0 else 1, o) for i, o in random_merge(rng, [C, B[h:]])]
        add_case(rng.choice(["fresh", "files", "files", "sharedBase"]), ad, [A, B, C], [], ph1 + ph2, "sampled_merges")
    # wave 10: the second instance, having stepped before, sends EXACTLY the step settings the first instance applied last (and that
    # differ from its own current values): a process-wide "applied last" memo keyed by manager / scenario NAMES would skip them
    for n in range(14 if chk.quick else 150):
        S = rand_setting(rng, 0)
        T = rand_setting(rng, 0)
        A = [("b", rand_setting(rng, 2)), ("s", rand_setting(rng, 2)), ("s", S)] + ([("s", None)] if rng.chance(1, 2) else [])
        B = [("b", rand_setting(rng, 3)), ("s", T if rng.chance(1, 2) else None), ("s", S), ("s", None), ("r",)]
        seq = [(1, B[0]), (1, B[1]), (0, A[0]), (0, A[1]), (0, A[2]), (1, B[2])] + [(0, o) for o in A[3:]] + [(1, o) for o in B[3:]]
        add_case(rng.choice(["fresh", "files", "sharedBase"]), rng.chance(1, 3), [A, B], [], seq, "sampled_merges")
        dist["step_settings_equal_to_the_other_instances_last"] = dist.get("step_settings_equal_to_the_other_instances_last", 0) + 1
    for lists, ghost in directed:
        ms = list(merges(lists + ([ghost] if ghost else [])))
        if ghost:
            ms = [[(GHOST if i == len(lists) else i, o) for i, o in m] for m in ms]
        if chk.quick and len(ms) > 40:
            ms = rng.shuffle(ms)[:40]
        for seq in ms:
            add_case(rng.choice(["fresh", "files"]) if (chk.quick or rng.chance(2, 3)) else "sharedBase", True, lists, [], seq, "exhaustive_merges")
    for ad, lists, own in short_sets:
        ms = list(merges(lists + ([own] if own else [])))
        if own:
            ms = [[(OWN if i == len(lists) else i, o) for i, o in m] for m in ms]
        if chk.quick:
            ms = rng.shuffle(ms)[:16]
        elif len(ms) > 400:
            ms = rng.shuffle(ms)[:400]
        for seq in ms:
            for st in STYLES:
                if chk.quick and rng.chance(2, 3):
                    continue
                add_case(st, ad, lists, own, seq, "exhaustive_merges")
    for n in range(95 if chk.quick else 1000):
        k = rng.range(2, 3)
        st = rng.choice(["fresh", "sharedBase", "files", "files"])
        ncreated = rng.below(2) if rng.chance(1, 2) else 0
        ad = rng.chance(1, 2)
        lists = [gen_list(rng, long=not chk.quick, created=(j >= k - ncreated), points_heavy=(st == "sharedBase"),
                          unpersisted=(ad and rng.chance(1, 2)), absent=(ad and rng.chance(1, 2))) for j in range(k)]
        own = gen_own(rng) if rng.chance(1, 3) else []
        ghost = gen_ghost(rng) if rng.chance(1, 4) else []
        add_case(st, ad, lists, own, random_merge(rng, lists, own, ghost), "sampled_merges")
    chk.cov["rule"] = ("per-owner request lists over {start-instance (creation during the history), begin-session (no setting | constant | points), "
                       "run-step (no setting | constant | points), session-results, end-session, keep-alive, stop, timeout (+ lazy restoration from the FileAdapter "
                       "by the next request), /run (no setting | constant | points), /equations, /agents}; k = 2..3 instances + the server-level object; servers with and "
                       "without external state adapter; all merges of fixed short lists (sampled in quick) and seeded random merges of generated lists; both factory styles "
                       "(the shared-base style with points-heavy settings read by a lookup); concurrent-handler cases: one pair of requests to different instances runs in two "
                       "threads with a forced overlap inside the handlers; a case = factory style + adapter + the request sequence; "
                       "non-trivial = at least two owners apply a setting or one is stopped/timed out/created")
    req, real, bodies, first, kinds = [], [], [], {}, {}
    for cs in cases:
        st, ad, lists, own, seq = cs["style"], cs["ad"], cs["lists"], cs["own"], cs["seq"]
        toks, diffs = check_case(srvs, solo, st, ad, lists, own, seq)
        req += [cfg_line(facts, st), fac_line(st), f"val {n_initial(lists)} {1 if ad else 0} " + (",".join(op_code(i, op) for i, op in seq) or "-")]
        real += ["ok", "ok", ",".join(toks)]
        bodies += [None, None, [b for _, b in check_case.last_got]]
        for _, op in seq:
            kinds[op[0]] = kinds.get(op[0], 0) + 1
        nsett = sum(1 for l in lists + [own] if any(len(o) > 1 and o[1] is not None for o in l)) + any(i == GHOST for i, _ in seq)
        chk.case((st, ad, tuple(op_str(i, op) for i, op in seq)),
                 nontrivial=nsett >= 2 or any(o[0] in ("x", "t", "c") for l in lists for o in l),
                 sample={"style": st, "adapter": ad, "seq": [op_str(i, op) for i, op in seq]} if len(seq) > 8 else None)
        key = (RESTORE_KEY if (ad and not facts["restore"]) else RECYCLE_KEY if not facts["freshObj"] else
               HANDLER_KEY if facts["kindHandler"] else FUNCDEF_KEY if facts["kindFuncDefault"] else FINDING_KEY[st])
        if diffs and key not in first:
            first[key] = (st, ad, lists, own, seq)
    # concurrent handlers for different instances
    conc = {"cases": 0, "overlapped": 0, "by_schedule": {}}
    conc_first = {}
    for n in range(34 if chk.quick else 320):
        lists, pa, pb, schedule = gen_conc_case(rng)
        st = rng.choice(["fresh", "sharedBase", "files"])
        ad = rng.chance(1, 3)
        seq, toks, diffs, overlapped = check_conc_case(srvs, solo, st, ad, lists, pa, pb, schedule, rng)
        conc["cases"] += 1; conc["overlapped"] += bool(overlapped)
        conc["by_schedule"][schedule] = conc["by_schedule"].get(schedule, 0) + 1
        req += [cfg_line(facts, st), fac_line(st), f"val 2 {1 if ad else 0} " + ",".join(op_code(i, op) for i, op in seq)]
        real += ["ok", "ok", ",".join(toks)]
        bodies += [None, None, [b for _, b in check_conc_case.last_got]]
        chk.case((st, ad, schedule, pa, pb, tuple(op_str(i, op) for i, op in seq)), nontrivial=True)
        if (diffs and st not in conc_first and FINDING_KEY[st] not in first and not (ad and not facts["restore"]) and facts["freshObj"]
                and not facts["kindHandler"] and not facts["kindFuncDefault"]):
            conc_first[st] = (ad, lists, pa, pb, schedule, seq, diffs)
    proc_restore()
    chk.notes["process_level_state_written"] = sorted(_proc_dirty)
    dist["request_kinds"] = kinds
    dist["concurrent_handler_cases"] = conc
    chk.cov["input_distribution"] = dist
    chk.cov["traces_validated_against_impl"] = len(cases) + conc["cases"]
    for st in STYLES:
        k_ = HANDLER_KEY if facts["kindHandler"] else FUNCDEF_KEY if facts["kindFuncDefault"] else FINDING_KEY[st]
        if not facts[st] and k_ not in first:
            first[k_] = (st, False, pdetail[st][0], pdetail[st][1], pdetail[st][2])
    if not facts["restore"] and RESTORE_KEY not in first:
        first[RESTORE_KEY] = ("fresh", True, rdetail[0], [], rdetail[1])
    if not facts["freshObj"] and RECYCLE_KEY not in first:
        ls = [[("b", ("k", 7)), ("s", ("q", 4)), ("x",)], [("c",), ("b", None), ("s", None)]]
        first[RECYCLE_KEY] = ("fresh", False, ls, [], [(0, o) for o in ls[0]] + [(1, o) for o in ls[1]])
    for key, (st, ad, lists, own, seq) in first.items():
        l0, o0, s0 = lists, own, seq
        lists, own, seq = shrink(srvs, solo, st, ad, lists, own, seq)
        toks, diffs = check_case(srvs, solo, st, ad, lists, own, seq)
        if not diffs:                       # the shrunk history does not reproduce: report the history as generated
            lists, own, seq = l0, o0, s0
            toks, diffs = check_case(srvs, solo, st, ad, lists, own, seq)
        if not diffs:
            chk.notes.setdefault("unreproduced", []).append({"key": key, "seq": [op_str(a, o) for a, o in s0]})
            chk.add_finding(key, f"{st} factory: responses differed from the solo replays for {[op_str(a, o) for a, o in s0]} but not when run again",
                            {"style": st, "ad": ad, "seq": [[a, list(o)] for a, o in s0], "n": len(l0)}, found_input=False)
            continue
        pos, i, got, exp = diffs[0]
        chk.add_finding(key,
                        f"{st} factory{' with state adapter' if ad else ''}, requests {[op_str(a, o) for a, o in seq]}: response {pos} "
                        f"(owner {'server-level' if i == OWN else 'unknown id' if i == GHOST else i}) is {str(got[1])[:160]} but alone the owner is answered {str(exp[1])[:160]}",
                        {"style": st, "ad": ad, "seq": [[a, list(o)] for a, o in seq], "n": len(lists), "position": pos,
                         "got": got, "solo": exp})
    for st, (ad, lists, pa, pb, schedule, seq, diffs) in conc_first.items():
        pos, i, got, exp = diffs[0]
        chk.add_finding("concurrent-handlers-" + FINDING_KEY[st],
                        f"{st} factory{' with state adapter' if ad else ''}: requests {op_str(0, lists[0][pa])} and {op_str(1, lists[1][pb])} handled concurrently "
                        f"({schedule}) inside {[op_str(a, o) for a, o in seq]}: response {pos} (instance {i}) is {str(got[1])[:160]} "
                        f"but sequentially / alone {str(exp[1])[:160]}",
                        {"style": st, "ad": ad, "concurrent": {"lists": [[list(o) for o in l] for l in lists], "pa": pa, "pb": pb, "schedule": schedule},
                         "got": got, "solo": exp})
    model = drive("C16", req)
    mclass = [",".join(class_token(t) for t in a.split(",")) for a in model]
    diff = next((j for j, (a, b) in enumerate(zip(mclass, real)) if a != b), None)
    # values: with all mechanism facts good, the numbers of every step / run body equal the closed form of the harness model on the
    # effective settings the machine predicts
    vdiff, nvals = None, 0
    all_good = all(facts[k] for k in facts if k not in ("kindScn", "kindHandler", "kindFuncDefault"))
    if all_good:
        for j, (a, bs) in enumerate(zip(model, bodies)):
            if bs is None:
                continue
            for tok, body in zip(a.split(","), bs):
                if tok.startswith("step:") or tok.startswith("ran:"):
                    nvals += 1
                    d = value_diff(tok, body)
                    if d and vdiff is None:
                        vdiff = (j, d)
    chk.cov["response_values_compared_with_model"] = nvals
    if diff is None and len(model) != len(real):
        diff = min(len(model), len(real))
    if not ok:
        chk.add_finding("obligation", f"proof obligations of C16 no longer check: {why}",
                        {"theorem": "Bptk.C16.Gen.* / Bptk.Props.C16", "detail": why}, found_input=False)
    chk.notes["structural_observations"] = list(_STRUCT)
    if _STRUCT and not first and not conc_first and diff is None and vdiff is None and ok:
        chk.add_finding("structure", "structure differs from the machine's picture of the server (" + "; ".join(_STRUCT) + ") although no generated history and no probe "
                        "shows one owner's requests in another owner's responses: `takeObj_fresh` / `Server.fac` (every started or restored instance gets a new factory "
                        "product; products share nothing) is not what the code does structurally",
                        {"theorem": "Bptk.C16.takeObj_fresh / step_local (lean/Bptk/Props/C16.lean)", "observations": list(_STRUCT)}, found_input=False)
    if vdiff is not None and not first and not conc_first and diff is None:
        chk.add_finding("correspondence", f"model and implementation disagree on response values for {req[vdiff[0]]!r}: {vdiff[1]}",
                        {"correspondence": "Drive/C16 values vs BptkServer bodies", "request": req[vdiff[0]], "detail": vdiff[1]}, found_input=False)
    if diff is not None and not first and not conc_first:
        chk.add_finding("correspondence", f"model and implementation disagree on request line {req[diff]!r}",
                        {"correspondence": "Drive/C16 vs BptkServer", "request": req[diff], "model": mclass[diff] if diff < len(mclass) else None,
                         "impl": real[diff] if diff < len(real) else None}, found_input=False)
    elif diff is not None:
        chk.notes["model_diff_under_violation"] = {"request": req[diff], "model": mclass[diff], "impl": real[diff]}


def tup(o):
    return tuple(tuple(x) if isinstance(x, list) else x for x in o)


def replay(path):
    import contextlib, io
    quiet_bptk_logging()
    with contextlib.redirect_stdout(io.StringIO()) as _buf:
        pass
    r = json.load(open(path))["replay"]
    srvs = Servers()
    try:
        if "concurrent" in r:
            cc = r["concurrent"]
            lists = [[tup(o) for o in l] for l in cc["lists"]]
            seq, toks, diffs, _ = check_conc_case(srvs, Solo(), r["style"], r.get("ad", False), lists, cc["pa"], cc["pb"], cc["schedule"], Rng(1))
        elif "seq" in r:
            seq = [(a, tup(o)) for a, o in r["seq"]]
            lists, own = split_seq(seq, r.get("n", r.get("k", 0)))
            toks, diffs = check_case(srvs, Solo(), r["style"], r.get("ad", False), lists, own, seq)
        else:
            print("nothing to replay (no concrete history stored):", r)
            return 1
    finally:
        srvs.close()
        for r_ in _file_roots:
            shutil.rmtree(r_, ignore_errors=True)
    print("style:", r["style"], "adapter:", r.get("ad", False), "requests:", [op_str(a, o) for a, o in seq])
    print("responses:", toks)
    print("differences from the solo replays on the current tree:", [(p, i, str(g)[:100], str(e)[:100]) for p, i, g, e in diffs])
    return 1 if diffs else 0
