"""C16 — server instances are isolated from one another.

Real side: one BptkServer per factory style, k <= 3 instances, generated per-instance request lists
(begin-session, run-step with/without settings, session-results, end-session, keep-alive, stop, timeout),
interleaved at request granularity (exhaustive merges of short lists in thorough, sampled merges in quick).
Reference check (the statement itself): every response an instance gives in the interleaving must equal,
byte for byte, the response it gives when its own request list is replayed alone on a new server.
Model side (Drive/C16): the response class / step time / number of logged steps of every request.
The factory style is a probe: a factory building a fresh model per instance vs a factory closing over one
base model (its clones alias `points` on the pinned tree — C06)."""
import json, datetime, itertools
from common import *

SM, SC = "smC16", "base"
EQS = ["stock", "flow", "constant", "conv"]
STYLES = ("fresh", "sharedBase")


def build_model():
    from BPTK_Py import Model
    from BPTK_Py import sd_functions as sd
    m = Model(starttime=0.0, stoptime=30.0, dt=1.0, name="c16")
    stock, flow, const, conv = m.stock("stock"), m.flow("flow"), m.constant("constant"), m.converter("conv")
    m.points["tbl"] = [[0, 1.0], [100, 1.0]]
    conv.equation = sd.lookup(sd.time(), "tbl")
    stock.initial_value = 0.0
    stock.equation = flow
    flow.equation = const * conv
    const.equation = 1.0
    return m


def make_factory(style, made):
    import BPTK_Py
    base = build_model() if style == "sharedBase" else None

    def factory():
        b = BPTK_Py.bptk()
        made.append(b)
        b.register_scenario_manager({SM: {"model": base if base is not None else build_model()}})
        b.register_scenarios(scenario_manager=SM, scenarios={SC: {}})
        return b
    return factory


class Srv:
    def __init__(self, style):
        from BPTK_Py.server import BptkServer
        self.made = []
        self.app = BptkServer("c16", make_factory(style, self.made))
        self.app.logger.disabled = True
        self.c = self.app.test_client()
        self.mgr = self.app._instance_manager

    def new_instances(self, k):
        r = self.c.post("/start-instances", json={"instances": k, "timeout": {"weeks": 0, "days": 0, "hours": 1000, "minutes": 0,
                                                                             "seconds": 0, "milliseconds": 0, "microseconds": 0}})
        return json.loads(r.data)["instance_uuids"]

    def close(self):
        for b in self.made:
            try:
                b.destroy()
            except Exception:
                pass


def setting_body(s):
    """s: None | ('c', v) | ('p', v)"""
    if s is None:
        return {"settings": {}}
    if s[0] == "c":
        return {"settings": {SM: {SC: {"constants": {"constant": float(s[1])}}}}}
    return {"settings": {SM: {SC: {"points": {"tbl": [[0, float(s[1])], [100, float(s[1])]]}}}}}


def do(srv, uid, op):
    """perform one request; returns (class token as Drive/C16 prints it, canonical body)"""
    c = srv.c
    k = op[0]
    if k == "b":
        r = c.post(f"/{uid}/begin-session", json={"scenario_managers": [SM], "scenarios": [SC], "equations": EQS})
        tok = "started" if r.status_code == 200 else None
    elif k == "s":
        r = c.post(f"/{uid}/run-step", json=setting_body(op[1]))
        tok = None
        if r.status_code == 200:
            try:
                d = json.loads(r.data)[SM][SC]
                tok = "step:%d" % int(round(float(next(iter(d["stock"].keys())))))
            except Exception:
                tok = "step:?"
        elif b"no data" in r.data:
            tok = "nodata"
    elif k == "r":
        r = c.get(f"/{uid}/session-results")
        tok = None
        if r.status_code == 200:
            d = json.loads(r.data)
            try:
                tok = "res:%d" % (len(d[SM][SC]["equations"]["stock"]) if d else 0)
            except Exception:
                tok = "res:?"
    elif k == "e":
        r = c.post(f"/{uid}/end-session", json={})
        tok = "ended" if r.status_code == 200 else None
    elif k == "k":
        r = c.post(f"/{uid}/keep-alive")
        tok = "alive" if r.status_code == 200 else None
    elif k == "x":
        r = c.post(f"/{uid}/stop-instance")
        tok = "deleted" if r.status_code == 200 else None
    elif k == "t":
        # the instance's timeout elapses (its last access moves into the past) and a sweep runs
        ent = srv.mgr._instances.get(uid)
        if ent is not None:
            ent["time"] = ent["time"] - datetime.timedelta(hours=2000)
        c.get("/metrics")
        return "swept", "swept"
    else:
        raise ValueError(op)
    if tok is None:
        tok = "inv" if (r.status_code == 500 and b"valid instance id" in r.data) else f"http{r.status_code}"
    return tok, (r.status_code, canon_body(r.data))


def canon_body(data):
    """response body with dictionary order canonicalised (the equations of a step come out in hash order)."""
    txt = data.decode(errors="replace")
    try:
        return json.dumps(json.loads(txt), sort_keys=True)
    except Exception:
        return txt


def op_code(i, op):
    if op[0] == "s" and op[1] is not None:
        return f"{i}s{int(op[1][1])}"
    return f"{i}{op[0]}"


def op_str(i, op):
    if op[0] == "s" and op[1] is not None:
        return f"{i}:s({op[1][0]}={op[1][1]})"
    return f"{i}:{op[0]}"


def run_interleaving(srv, k, seq):
    """seq: list of (instance index, op).  Returns per-op (token, body)."""
    uids = srv.new_instances(k)
    return [do(srv, uids[i], op) for i, op in seq]


def gen_list(rng, long):
    """request list of one instance (mostly valid)."""
    ops = [("b",)]
    n = rng.range(2, 6 if long else 3)
    for _ in range(n):
        r = rng.below(12)
        if r < 3:
            ops.append(("s", None))
        elif r < 6:
            ops.append(("s", ("c", rng.range(2, 9))))
        elif r < 8:
            ops.append(("s", ("p", rng.range(2, 9))))
        elif r < 9:
            ops.append(("r",))
        elif r < 10:
            ops.append(("k",))
        elif r < 11:
            ops += [("e",), ("b",)] if rng.chance(1, 2) else [("e",), ("s", None)]
        else:
            ops.append(("x",) if rng.chance(1, 2) else ("t",))
    if rng.chance(1, 3):
        ops.append(rng.choice([("x",), ("t",)]))
        ops.append(rng.choice([("s", None), ("k",), ("r",), ("b",)]))
    ops.append(("r",))
    if rng.chance(1, 8):
        ops = ops[1:]                    # no begin-session at all
    return ops


def merges(lists):
    """all interleavings of the lists (as sequences of (index, op))."""
    def rec(pos):
        if all(p == len(l) for p, l in zip(pos, lists)):
            yield []
            return
        for i, l in enumerate(lists):
            if pos[i] < len(l):
                np = list(pos); np[i] += 1
                for rest in rec(np):
                    yield [(i, l[pos[i]])] + rest
    return rec([0] * len(lists))


def random_merge(rng, lists):
    pos = [0] * len(lists)
    out = []
    while True:
        live = [i for i, l in enumerate(lists) if pos[i] < len(l)]
        if not live:
            return out
        i = rng.choice(live)
        out.append((i, lists[i][pos[i]])); pos[i] += 1


class Solo:
    """responses of a request list replayed alone (cached per style and list)."""
    def __init__(self):
        self.cache = {}

    def get(self, srvs, style, ops):
        key = (style, repr(ops))
        if key not in self.cache:
            srv = srvs.solo(style)
            self.cache[key] = run_interleaving(srv, 1, [(0, o) for o in ops])
        return self.cache[key]


class Servers:
    def __init__(self):
        self.all = []
        self.main = {}

    def get(self, style):
        """shared server of the style; a sharedBase server is replaced for every case (its base model is state)."""
        if style == "fresh":
            if style not in self.main:
                self.main[style] = self._new(style)
            return self.main[style]
        return self._new(style)

    def solo(self, style):
        return self._new(style)

    def _new(self, style):
        s = Srv(style)
        self.all.append(s)
        if len(self.all) > 12:                     # keep the number of live monitor threads small
            old = [x for x in self.all[:-6] if x not in self.main.values()]
            for x in old:
                x.close()
                self.all.remove(x)
        return s

    def close(self):
        for s in self.all:
            s.close()


def check_case(srvs, solo, style, lists, seq):
    """returns (tokens, diffs) — diffs: list of (position in seq, instance, got, expected)"""
    srv = srvs.get(style)
    got = run_interleaving(srv, len(lists), seq)
    diffs = []
    cnt = [0] * len(lists)
    for pos, (i, op) in enumerate(seq):
        exp = solo.get(srvs, style, lists[i])[cnt[i]]
        cnt[i] += 1
        if got[pos] != exp:
            diffs.append((pos, i, got[pos], exp))
    return [t for t, _ in got], diffs


def shrink(srvs, solo, style, lists, seq):
    """greedy deletion of requests while some response still differs from the solo replay."""
    seq = list(seq)
    changed = True
    while changed:
        changed = False
        for j in range(len(seq)):
            cand = seq[:j] + seq[j + 1:]
            ls = [[op for i, op in cand if i == n] for n in range(len(lists))]
            if cand and check_case(srvs, solo, style, ls, cand)[1]:
                seq, lists, changed = cand, ls, True
                break
    return lists, seq


def probe_style(srvs, solo, style):
    """instancesShareNothing for the factory style: settings of both kinds through instance 0, steps of instance 1."""
    lists = [[("b",), ("s", ("c", 5)), ("s", ("p", 7)), ("s", None)], [("b",), ("s", None), ("s", None), ("r",)]]
    seq = [(0, lists[0][0]), (1, lists[1][0]), (0, lists[0][1]), (0, lists[0][2]), (1, lists[1][1]), (0, lists[0][3]),
           (1, lists[1][2]), (1, lists[1][3])]
    toks, diffs = check_case(srvs, solo, style, lists, seq)
    return not diffs, (lists, seq, diffs)


def gen_lean(facts):
    b = lambda x: "true" if x else "false"
    out = ["import Bptk.Props.C16", "/-! GENERATED by harness/props/c16.py from /repo on every run — do not edit. -/",
           "namespace Bptk.C16.Gen"]
    for st in STYLES:
        out.append(f"def cfg_{st} : Cfg := {{ instancesShareNothing := {b(facts[st])} }}")
        if facts[st]:
            out.append(f"theorem holds_{st} : C16_full cfg_{st} := C16_full_of_good cfg_{st} (by decide)")
            out.append(f"#print axioms holds_{st}")
        else:
            out.append(f"theorem violated_{st} : ¬ C16_full cfg_{st} := C16_witness_shared cfg_{st} (by decide)")
            out.append(f"#print axioms violated_{st}")
    out += ["#print axioms C16_partial", "#print axioms C16_stop_timeout_local", "end Bptk.C16.Gen", ""]
    return "\n".join(out)


FINDING_KEY = {"fresh": "cross-talk-fresh-model-factory", "sharedBase": "cross-talk-shared-base-model-factory"}


def run(chk):
    quiet_bptk_logging()
    srvs = Servers()
    try:
        _run(chk, srvs)
    finally:
        srvs.close()


def _run(chk, srvs):
    solo = Solo()
    facts, pdetail = {}, {}
    for st in STYLES:
        facts[st], pdetail[st] = probe_style(srvs, solo, st)
    chk.notes["cfg"] = {f"instancesShareNothing[{st}]": facts[st] for st in STYLES}
    ok, why = chk.prove(gen_lean(facts))
    chk.cov["trusted_base"] = [
        "Lean 4.33 kernel; axioms propext, Classical.choice, Quot.sound (audited per run via #print axioms)",
        "hand-written model lean/Bptk/Core/C16.lean: per-instance state machine (alive, settings knob, session clock/stock/log) + one process-wide cell; tied to /repo by the probe of both factory styles and by the class/time/log-length comparison of every generated history; numeric bodies are compared real-vs-real (interleaved vs solo replay)",
        "Flask routing, JSON encoding, the SD simulation itself (C01/C09) are not modelled: the model's stock values are schematic",
    ]
    chk.assumptions = [
        "instances are addressed by uuid; the harness maps uuids to creation order",
        "a timeout is produced by moving the instance's last-access time into the past and triggering a sweep (GET /metrics); which request triggers a sweep is C17's subject",
        "config.configuration (module-level dict shared by every bptk object) is written only by bptk.__init__ with a configuration argument; the factories used pass none",
    ]
    rng = chk.rng.fork("c16")
    cases = []              # (style, lists, seq)
    dist = {"exhaustive_merges": 0, "sampled_merges": 0}
    # exhaustive merges of short lists
    short_sets = [
        [[("b",), ("s", ("c", 5)), ("s", None)], [("b",), ("s", None), ("r",)]],
        [[("b",), ("s", ("p", 4)), ("x",)], [("b",), ("s", ("c", 3)), ("s", None)]],
        [[("b",), ("s", None), ("t",), ("s", None)], [("b",), ("s", ("c", 2)), ("k",), ("r",)]],
    ]
    if not chk.quick:
        short_sets += [
            [[("b",), ("s", ("c", 5)), ("e",), ("b",), ("s", None)], [("b",), ("s", ("p", 6)), ("s", None), ("r",)]],
            [[("b",), ("s", ("c", 5))], [("b",), ("s", ("p", 2))], [("b",), ("s", None), ("r",)]],
            [[("s", None), ("b",), ("s", ("c", 9)), ("x",), ("k",)], [("b",), ("s", None), ("s", None), ("r",)]],
        ]
    for lists in short_sets:
        ms = list(merges(lists))
        if chk.quick:
            ms = rng.shuffle(ms)[:25]
        for seq in ms:
            for st in STYLES:
                if st == "sharedBase" and (chk.quick and rng.chance(2, 3)):
                    continue
                cases.append((st, lists, seq)); dist["exhaustive_merges"] += 1
    for n in range(150 if chk.quick else 1200):
        k = rng.range(2, 3)
        lists = [gen_list(rng, long=not chk.quick) for _ in range(k)]
        st = "fresh" if rng.chance(3, 4) else "sharedBase"
        cases.append((st, lists, random_merge(rng, lists))); dist["sampled_merges"] += 1
    chk.cov["rule"] = ("per-instance request lists over {begin-session, run-step (no setting | constant | points), session-results, "
                       "end-session, keep-alive, stop, timeout}; k = 2..3 instances; all merges of fixed short lists "
                       "(sampled in quick) and seeded random merges of generated lists; both factory styles; a case = factory style + "
                       "the interleaved request sequence; non-trivial = at least two instances each apply a setting or one is stopped/timed out")
    req = []
    real = []
    first = {}
    kinds = {}
    for st, lists, seq in cases:
        toks, diffs = check_case(srvs, solo, st, lists, seq)
        cfgv = "1" if facts[st] else "0"
        req += [f"cfg {cfgv}", f"run {len(lists)} " + (",".join(op_code(i, op) for i, op in seq) or "-")]
        real += ["ok", ",".join(toks)]
        for _, op in seq:
            kinds[op[0]] = kinds.get(op[0], 0) + 1
        nsett = sum(1 for l in lists if any(o[0] == "s" and o[1] is not None for o in l))
        chk.case((st, tuple(op_str(i, op) for i, op in seq)),
                 nontrivial=nsett >= 2 or any(o[0] in ("x", "t") for l in lists for o in l),
                 sample={"style": st, "seq": [op_str(i, op) for i, op in seq]} if len(seq) > 8 else None)
        if diffs and st not in first:
            first[st] = (lists, seq)
    dist["request_kinds"] = kinds
    chk.cov["input_distribution"] = dist
    chk.cov["traces_validated_against_impl"] = len(cases)
    for st in STYLES:
        if not facts[st] and st not in first:
            first[st] = (pdetail[st][0], pdetail[st][1])
    for st, (lists, seq) in first.items():
        lists, seq = shrink(srvs, solo, st, lists, seq)
        toks, diffs = check_case(srvs, solo, st, lists, seq)
        pos, i, got, exp = diffs[0]
        chk.add_finding(FINDING_KEY[st],
                        f"{st} factory, requests {[op_str(a, o) for a, o in seq]}: response {pos} (instance {i}) is "
                        f"{str(got[1])[:160]} but alone the instance answers {str(exp[1])[:160]}",
                        {"style": st, "seq": [[a, list(o)] for a, o in seq], "k": len(lists), "position": pos,
                         "got": got, "solo": exp})
    model = drive("C16", req)
    diff = next((j for j, (a, b) in enumerate(zip(model, real)) if a != b), None)
    if diff is None and len(model) != len(real):
        diff = min(len(model), len(real))
    if not ok:
        chk.add_finding("obligation", f"proof obligations of C16 no longer check: {why}",
                        {"theorem": "Bptk.C16.Gen.* / Bptk.Props.C16", "detail": why}, found_input=False)
    if diff is not None and not first:
        chk.add_finding("correspondence", f"model and implementation disagree on request line {req[diff]!r}",
                        {"correspondence": "Drive/C16 vs BptkServer", "request": req[diff], "model": model[diff] if diff < len(model) else None,
                         "impl": real[diff] if diff < len(real) else None}, found_input=False)
    elif diff is not None:
        chk.notes["model_diff_under_violation"] = {"request": req[diff], "model": model[diff], "impl": real[diff]}


def replay(path):
    quiet_bptk_logging()
    r = json.load(open(path))["replay"]
    if "seq" not in r:
        print("nothing to replay (no concrete history stored):", r)
        return 1
    seq = [(a, tuple(tuple(x) if isinstance(x, list) else x for x in o)) for a, o in r["seq"]]
    lists = [[op for i, op in seq if i == n] for n in range(r["k"])]
    srvs = Servers()
    try:
        toks, diffs = check_case(srvs, Solo(), r["style"], lists, seq)
    finally:
        srvs.close()
    print("style:", r["style"], "requests:", [op_str(a, o) for a, o in seq])
    print("responses:", toks)
    print("differences from the solo replays on the current tree:", [(p, i, str(g)[:100], str(e)[:100]) for p, i, g, e in diffs])
    return 1 if diffs else 0
