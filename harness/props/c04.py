"""C04 — transpiled XMILE stock/flow dynamics are Euler-exact for any dt and match the SD DSL.

Wave 2: stock skeletons for ANY number of in/outflows (driver-side token equality + `stock_text_denotes`), GridOK on doubles
clause by clause (tie to C05's `normalize`), non-negative stocks and flows defined by a graphical function (probe of the
repaired mechanism fixes/C04-flow-gf), reciprocal dt 1/3 1/6 1/7 1/9 1/12 and calendar-year starts in every run.

Probe (StockExpressions skeletons for 0..3 inflows x 0..3 outflows, memo-key normalisation), Gen
obligations, correspondence (generated stock/flow graphs written as XMILE *and* as SD-DSL model, compiled
and simulated by the real code, compared bit-exactly with the Lean driver and with each other) and the
independent reference check (plain Python Euler loop)."""
import importlib.util, itertools, json, math, os, re, sys
from fractions import Fraction
from common import *
import pyfrag

# ---------------------------------------------------------------- run specs
# (decimal text | None, reciprocal int | None)
DTS = [("1", None), ("0.5", None), ("0.25", None), ("0.125", None), ("0.2", None), ("0.1", None), ("0.05", None),
       ("0.01", None), (None, 3), (None, 7), (None, 8), (None, 10), (None, 4), (None, 2),
       (None, 9), (None, 12), (None, 6)]          # wave 2: more reciprocals that are neither binary nor decimal
STARTS = ["0", "1", "0.5", "2", "2020", "1999.5"]  # wave 2: calendar-year starts (ulp(2020) = 2.3e-13 > 1e-14: rounding to
                                                  # decimal places does not repair t-dt there, only index snapping does)
# run specs that every quick run exercises systematically (seeded defect: index snapping replaced by decimal rounding)
W2_SPECS = [((None, 3), "2020"), ((None, 7), "2020"), ((None, 9), "2020"), ((None, 12), "2020"), ((None, 6), "2020"),
            ((None, 3), "0"), ((None, 7), "1"), ((None, 9), "0"), ((None, 12), "1999.5"), ((None, 6), "0.5"),
            (("0.1", None), "2020"), (("0.05", None), "2020"), (("0.2", None), "1999.5"), (("0.01", None), "2020")]
LITS = [0.25, 0.5, 1.0, 2.0, 3.0, 0.1, 0.3, 0.7, 1.5, 4.0, 10.0, 0.05, 0.2, 100000.0, 0.123456789, 7.000001]   # wave 7: large / many decimals
CMPS = {"lt": "<", "le": "<=", "gt": ">", "ge": ">="}


def dt_value(d):
    return float(d[0]) if d[0] is not None else 1 / int(d[1])


def dt_name(d):
    return d[0] if d[0] is not None else f"1/{d[1]}"


def grid_spec(rng, quick):
    """(start text, stop text, dt spec, N): stop lies on the grid and has a short decimal text."""
    d = rng.choice(DTS)
    start = rng.choice(STARTS)
    if d[0] is not None:
        fd = Fraction(d[0])
        n = rng.range(3, 30 if quick else 120)
    else:
        fd = Fraction(1, d[1])
        n = d[1] * rng.range(1, 4 if quick else 12)
    stop = Fraction(start) + n * fd
    stop_txt = str(stop.numerator) if stop.denominator == 1 else repr(float(stop))
    assert Fraction(stop_txt) == stop, (stop_txt, stop)
    return start, stop_txt, d, n


# ---------------------------------------------------------------- graphs
# Ex: ("L", float) ("R", n) ("T",) ("D",) (op, a, b) op in + - * / M m   ("?", cmp, a, b, x, y)
# elem: ("stock", init, ins, outs[, nonneg]) ("flow", nonneg, ex) ("aux", ex) ("gf", ex, [(x, y), ...], mode)
#       ("gflow", nonneg, ex, [(x, y), ...], mode)   -- wave 2: <flow><eqn/><gf/>[<non_negative/>]</flow>

def gen_ex(rng, refs, consts, depth):
    """refs: element indices usable at the same time; consts: indices of constant auxiliaries"""
    r = rng.below(10)
    if depth <= 0 or r < 3:
        c = rng.below(10)
        if c < 5 and refs:
            return ("R", rng.choice(refs))
        if c < 7:
            return ("L", rng.choice(LITS))
        if c < 8:
            return ("T",)
        if c < 9 and consts:
            return ("R", rng.choice(consts))
        return ("D",) if rng.chance(1, 3) else ("L", rng.choice(LITS))
    if r < 5:
        return (rng.choice(["+", "-"]), gen_ex(rng, refs, consts, depth - 1), gen_ex(rng, refs, consts, depth - 1))
    if r < 7:   # scale by a literal / constant (keeps magnitudes tame)
        k = ("L", rng.choice([0.25, 0.5, 0.1, 0.3, 2.0, 0.05])) if (not consts or rng.chance(2, 3)) else ("R", rng.choice(consts))
        e = gen_ex(rng, refs, consts, depth - 1)
        return ("*", k, e) if rng.chance(1, 2) else ("*", e, k)
    if r < 8:
        return ("/", gen_ex(rng, refs, consts, depth - 1), ("L", rng.choice([2.0, 4.0, 0.5, 3.0, 10.0, 0.7])))
    if r < 9:
        return (rng.choice(["M", "m"]), gen_ex(rng, refs, consts, depth - 1), gen_ex(rng, refs, consts, depth - 1))
    return ("?", rng.choice(list(CMPS)), gen_ex(rng, refs, consts, depth - 1), gen_ex(rng, refs, consts, depth - 1),
            gen_ex(rng, refs, consts, depth - 1), gen_ex(rng, refs, consts, depth - 1))


def gen_graph(rng):
    """acyclic by construction: constants, then stocks, then flows/auxiliaries/gf that see everything before them"""
    elems = []
    nconst = rng.range(1, 2)
    for _ in range(nconst):
        elems.append(("aux", ("L", rng.choice(LITS))))
    consts = list(range(nconst))
    nst = rng.range(1, 4)
    stocks = list(range(nconst, nconst + nst))
    for _ in stocks:
        elems.append(None)
    refs = consts + stocks
    later = []
    naux = rng.range(0, 3)
    for _ in range(naux):
        i = len(elems)
        if rng.chance(1, 4):
            n = rng.range(2, 6)
            if rng.chance(1, 2):
                lo, hi = rng.choice([(0.0, 10.0), (0.0, 1.0), (1.0, 13.0), (-5.0, 5.0)])
                xs = [lo + k * (hi - lo) / (n - 1) for k in range(n)]
                mode = ("scale", lo, hi)
            else:
                xs = sorted({rng.choice([0.0, 0.5, 1.0, 2.0, 2.5, 3.0, 4.5, 6.0, 7.0, 8.0, 10.0, 12.5]) for _ in range(n + 2)})
                if len(xs) < 2:
                    xs = [0.0, 1.0]
                mode = ("xpts",)
            ys = [rng.choice([0.0, 1.0, 2.0, 3.5, 5.0, 8.0, 0.1, 41.3, 7.25]) for _ in xs]
            elems.append(("gf", gen_ex(rng, refs + later, consts, 1), list(zip(xs, ys)), mode))
        else:
            elems.append(("aux", gen_ex(rng, refs + later, consts, 2)))
        later.append(i)
    ins = {s: [] for s in stocks}
    outs = {s: [] for s in stocks}
    for s in stocks:
        want_in, want_out = rng.range(0, 3), rng.range(0, 3)
        if rng.chance(1, 8):          # wave 2: beyond the kernel-checked skeleton table (n <= 3)
            want_in = rng.range(4, 7)
        if rng.chance(1, 8):
            want_out = rng.range(4, 7)
        while len(ins[s]) < want_in:
            i = len(elems)
            elems.append(gen_flow(rng, refs + later, consts))
            later.append(i)
            ins[s].append(i)
            o = [x for x in stocks if x != s and len(outs[x]) < 3]
            if o and rng.chance(1, 3):
                outs[rng.choice(o)].append(i)
        while len(outs[s]) < want_out:
            i = len(elems)
            elems.append(gen_flow(rng, refs + later, consts))
            later.append(i)
            outs[s].append(i)
    for s in stocks:
        c = rng.below(4)
        if c < 2:
            init = ("L", rng.choice(LITS + [0.0, 100.0]))
        elif c < 3:
            init = ("R", rng.choice(consts))
        else:
            init = gen_ex(rng, consts, consts, 1)
        nn = rng.chance(1, 4)            # wave 2: <non_negative/> on the stock
        if nn and rng.chance(1, 2):      # an initial value the clamp has to act on
            init = ("-", ("L", rng.choice([0.0, 0.5, 1.0])), ("L", rng.choice([2.0, 3.0, 10.0])))
        elems[s] = ("stock", init, ins[s], outs[s], nn)
    return elems


def el_eq(el):
    """the equation of an element (for a stock: its initial value)"""
    return el[2] if el[0] in ("flow", "gflow") else el[1]


def stock_nn(el):
    return len(el) > 4 and bool(el[4])


def el_table(el):
    """(points, mode) of an element that carries a graphical function, else None"""
    if el[0] == "gf":
        return el[2], el[3]
    if el[0] == "gflow":
        return el[3], el[4]
    return None


SKEW_TABLES = [   # (xs, ys): integer tables with integral slopes, strongly uneven spacing (wave 6)
    ([0, 1, 2, 3, 20], [0, 10, 0, 10, 61]),                       # clustered at the low end, one far point
    ([0, 17, 18, 19, 20], [5, 39, 30, 41, 20]),                   # clustered at the high end
    ([1, 2, 4, 8, 16, 32, 64], [0, 3, -1, 7, -1, 31, -1]),        # geometric
    ([0, 1, 2, 30, 31, 32], [4, 0, 6, 62, 50, 57]),               # a gap in the middle
    ([-3, -2, -1, 0, 1, 2, 3, 40], [9, 0, 7, 1, 8, 2, 6, 43]),    # 8 points, far outlier
    ([0, 5], [2, 12]), ([0, 1, 10], [3, 0, 27])]


def gen_table_skewed(rng):
    """<xpts> of 2-8 points with skewed spacing: geometric, clustered at either end, one far outlier; dyadic coordinates"""
    n = rng.range(2, 8)
    style = rng.below(4)
    if style == 0:
        xs = [float(2 ** k) for k in range(n)]
    elif style == 1:
        xs = [0.5 * k for k in range(n - 1)] + [0.5 * (n - 2) + rng.choice([16.0, 25.0, 40.5])]
    elif style == 2:
        far = rng.choice([16.0, 25.0, 40.5])
        xs = [0.0] + [far + 0.5 * k for k in range(n - 1)]
    else:
        h = max(1, n // 2)
        xs = [float(k) for k in range(h)] + [h - 1 + rng.choice([20.0, 33.5]) + k for k in range(n - h)]
    xs = sorted(set(xs))
    if len(xs) < 2:
        xs = [0.0, 8.0]
    off = rng.choice([0.0, -4.0, 1.5])
    xs = [x + off for x in xs]
    ys = [rng.choice([0.0, 1.0, 2.0, 3.5, 5.0, 8.0, 41.25, 7.25, -1.5, -0.25, 12.0]) for _ in xs]
    return list(zip(xs, ys)), ("xpts",)


def lerp_probe_points(pts):
    """abscissae: below, every knot, the middle and the quarters of every segment, above"""
    xs = [p[0] for p in pts]
    out = [xs[0] - 1, xs[0] - 0.5]
    for a, b in zip(xs, xs[1:]):
        out += [a, a + (b - a) / 4, a + (b - a) / 2, a + 3 * (b - a) / 4]
    return out + [xs[-1], xs[-1] + 0.5, xs[-1] + 7]


def probe_lerp(mod, rng, quick):
    """the REAL generated LERP against the reference on skewed tables; returns (kernel rows, first failure or None, count)"""
    rows, fail, count = [], None, 0
    tables = [list(zip(map(float, xs), map(float, ys))) for xs, ys in SKEW_TABLES] + [gen_table_skewed(rng)[0] for _ in range(12 if quick else 200)]
    for ti, pts in enumerate(tables):
        integer = ti < len(SKEW_TABLES)
        probes = lerp_probe_points(pts)
        if integer:
            probes = sorted(set(probes) | {float(x) for x in range(int(pts[0][0]) - 2, int(pts[-1][0]) + 3)})
        for x in probes:
            want = py_lerp(pts, x)
            try:
                got = float(mod.LERP(x, [tuple(p) for p in pts]))
            except BaseException as ex:
                got = f"{type(ex).__name__}: {ex}"
            count += 1
            good = isinstance(got, float) and math.isclose(got, want, rel_tol=1e-12, abs_tol=1e-12)
            if not good and fail is None:
                fail = {"points": [list(p) for p in pts], "x": x, "observed": got, "expected": want}
            if integer and x == int(x) and isinstance(got, float) and got == int(got) and len(rows) < 400:
                rows.append(([(int(a), int(b)) for a, b in pts], int(x), int(got), want == got))
    return rows, fail, count


def gen_table(rng):
    n = rng.range(2, 6)
    if rng.chance(1, 3):
        return gen_table_skewed(rng)
    if rng.chance(1, 2):
        lo, hi = rng.choice([(0.0, 10.0), (0.0, 1.0), (1.0, 13.0), (-5.0, 5.0)])
        xs = [lo + k * (hi - lo) / (n - 1) for k in range(n)]
        mode = ("scale", lo, hi)
    else:
        xs = sorted({rng.choice([0.0, 0.5, 1.0, 2.0, 2.5, 3.0, 4.5, 6.0, 7.0, 8.0, 10.0, 12.5]) for _ in range(n + 2)})
        if len(xs) < 2:
            xs = [0.0, 1.0]
        mode = ("xpts",)
    ys = [rng.choice([0.0, 1.0, 2.0, 3.5, 5.0, 8.0, 0.1, 41.3, 7.25, -1.5, -0.25]) for _ in xs]
    return list(zip(xs, ys)), mode


def gen_flow(rng, refs, consts):
    """a flow: uniflow / biflow with an equation, or (wave 2) a flow DEFINED by a graphical function"""
    if rng.chance(1, 5):
        pts, mode = gen_table(rng)
        return ("gflow", rng.chance(1, 2), gen_ex(rng, refs, consts, 1), pts, mode)
    return ("flow", rng.chance(1, 2), gen_ex(rng, refs, consts, 2))


def ex_refs(e):
    if e[0] == "R":
        return {e[1]}
    if e[0] in ("L", "T", "D"):
        return set()
    if e[0] == "?":
        return set().union(*(ex_refs(x) for x in e[2:]))
    return ex_refs(e[1]) | ex_refs(e[2])


def ex_uses(e, tag):
    if e[0] == tag:
        return True
    if e[0] in ("L", "T", "D", "R"):
        return False
    return any(ex_uses(x, tag) for x in (e[2:] if e[0] == "?" else e[1:]))


def nm(i):
    return f"e{i}"


# ---------------------------------------------------------------- writers
def ex_xmile(e):
    k = e[0]
    if k == "L":
        return repr(e[1])
    if k == "R":
        return nm(e[1])
    if k == "T":
        return "TIME"
    if k == "D":
        return "DT"
    if k in "+-*/":
        return f"({ex_xmile(e[1])} {k} {ex_xmile(e[2])})"
    if k == "M":
        return f"MAX({ex_xmile(e[1])}, {ex_xmile(e[2])})"
    if k == "m":
        return f"MIN({ex_xmile(e[1])}, {ex_xmile(e[2])})"
    return f"(IF {ex_xmile(e[2])} {CMPS[e[1]]} {ex_xmile(e[3])} THEN {ex_xmile(e[4])} ELSE {ex_xmile(e[5])})"


def xmile_doc(elems, start, stop, d, name="c04"):
    from xml.sax.saxutils import escape
    ex_x = lambda e: escape(ex_xmile(e))
    dt = f"<dt>{d[0]}</dt>" if d[0] is not None else f'<dt reciprocal="true">{d[1]}</dt>'
    v = []
    for i, el in enumerate(elems):
        if el[0] == "stock":
            body = f"\t\t\t\t<eqn>{ex_x(el[1])}</eqn>\n"
            body += "".join(f"\t\t\t\t<inflow>{nm(x)}</inflow>\n" for x in el[2])
            body += "".join(f"\t\t\t\t<outflow>{nm(x)}</outflow>\n" for x in el[3])
            if stock_nn(el):
                body += "\t\t\t\t<non_negative/>\n"
            v.append(f'\t\t\t<stock name="{nm(i)}">\n{body}\t\t\t</stock>\n')
        elif el[0] == "flow":
            nn = "\t\t\t\t<non_negative/>\n" if el[1] else ""
            v.append(f'\t\t\t<flow name="{nm(i)}">\n\t\t\t\t<eqn>{ex_x(el[2])}</eqn>\n{nn}\t\t\t</flow>\n')
        elif el[0] == "aux":
            v.append(f'\t\t\t<aux name="{nm(i)}">\n\t\t\t\t<eqn>{ex_x(el[1])}</eqn>\n\t\t\t</aux>\n')
        else:
            pts, mode = el_table(el)
            ys = ",".join(repr(p[1]) for p in pts)
            if mode[0] == "scale":
                xs = f'<xscale min="{mode[1]!r}" max="{mode[2]!r}"/>'
            else:
                xs = "<xpts>" + ",".join(repr(p[0]) for p in pts) + "</xpts>"
            if el[0] == "gflow":
                nn = "\t\t\t\t<non_negative/>\n" if el[1] else ""
                v.append(f'\t\t\t<flow name="{nm(i)}">\n\t\t\t\t<eqn>{ex_x(el[2])}</eqn>\n\t\t\t\t<gf>\n\t\t\t\t\t{xs}\n'
                         f'\t\t\t\t\t<yscale min="0" max="100"/>\n\t\t\t\t\t<ypts>{ys}</ypts>\n\t\t\t\t</gf>\n{nn}\t\t\t</flow>\n')
                continue
            v.append(f'\t\t\t<aux name="{nm(i)}">\n\t\t\t\t<eqn>{ex_x(el[1])}</eqn>\n\t\t\t\t<gf>\n\t\t\t\t\t{xs}\n'
                     f'\t\t\t\t\t<yscale min="0" max="100"/>\n\t\t\t\t\t<ypts>{ys}</ypts>\n\t\t\t\t</gf>\n\t\t\t</aux>\n')
    return ('<?xml version="1.0" encoding="utf-8"?>\n'
            '<xmile version="1.0" xmlns="http://docs.oasis-open.org/xmile/ns/XMILE/v1.0" xmlns:isee="http://iseesystems.com/XMILE">\n'
            f'\t<header>\n\t\t<smile version="1.0" namespace="std, isee"/>\n\t\t<name>{name}</name>\n\t\t<vendor>verif</vendor>\n'
            '\t\t<product version="1.0" lang="en">verif</product>\n\t</header>\n'
            f'\t<sim_specs method="Euler" time_units="Months">\n\t\t<start>{start}</start>\n\t\t<stop>{stop}</stop>\n\t\t{dt}\n\t</sim_specs>\n'
            '\t<model>\n\t\t<variables>\n' + "".join(v) + '\t\t</variables>\n\t</model>\n</xmile>\n')


_mod_counter = [0]


def compile_xmile_model(elems, start, stop, d, scratch):
    """writes the XMILE text, runs the real compiler, imports the generated module; returns (module, source path)"""
    from BPTK_Py.sdcompiler.compile import compile_xmile
    _mod_counter[0] += 1
    base = os.path.join(scratch, f"c04m{_mod_counter[0]}")
    with open(base + ".stmx", "w") as f:
        f.write(xmile_doc(elems, start, stop, d))
    compile_xmile(base + ".stmx", base + ".py", "py")
    spec = importlib.util.spec_from_file_location(f"c04m{_mod_counter[0]}", base + ".py")
    mod = importlib.util.module_from_spec(spec)
    spec.loader.exec_module(mod)
    return mod, base


def build_dsl(elems, start, stop, dt, name="c04dsl"):
    from BPTK_Py import Model
    from BPTK_Py import sd_functions as sd
    m = Model(starttime=float(start), stoptime=float(stop), dt=dt, name=name)
    obj = {}
    for i, el in enumerate(elems):
        if el[0] == "stock":
            obj[i] = m.stock(nm(i))
        elif el[0] in ("flow", "gflow"):
            obj[i] = m.flow(nm(i)) if el[1] else m.biflow(nm(i))
        elif el[0] == "aux" and el[1][0] == "L":
            obj[i] = m.constant(nm(i))
        else:
            obj[i] = m.converter(nm(i))

    def dx(e):
        k = e[0]
        if k == "L":
            return e[1]
        if k == "R":
            return obj[e[1]]
        if k == "T":
            return sd.time()
        if k == "D":
            return sd.dt(m)
        if k in "+-*/":
            a, b = dx(e[1]), dx(e[2])
            if isinstance(a, float) and isinstance(b, float):
                a = sd.max(a, a)          # keep the operation in the model (not folded by Python)
            return a + b if k == "+" else a - b if k == "-" else a * b if k == "*" else a / b
        if k == "M":
            return sd.max(dx(e[1]), dx(e[2]))
        if k == "m":
            return sd.min(dx(e[1]), dx(e[2]))
        a, b = dx(e[2]), dx(e[3])
        if isinstance(a, float) and isinstance(b, float):
            a = sd.max(a, a)
        c = a < b if e[1] == "lt" else a <= b if e[1] == "le" else a > b if e[1] == "gt" else a >= b
        return sd.If(c, dx(e[4]), dx(e[5]))

    def as_eq(x):
        return x

    for i, el in enumerate(elems):
        if el[0] == "stock":
            init = el[1]
            if stock_nn(el):         # the DSL has no non-negative stock: spell out what the transpiler does (max(0, initial value))
                h = m.converter(f"init_{nm(i)}")
                v0 = dx(init)
                h.equation = sd.max(0.0, v0)
                obj[i].initial_value = h
            elif init[0] == "L":
                obj[i].initial_value = float(init[1])
            elif init[0] == "R" and elems[init[1]][0] == "aux":
                obj[i].initial_value = obj[init[1]]
            else:
                h = m.converter(f"init_{nm(i)}")
                h.equation = as_eq(dx(init))
                obj[i].initial_value = h
            ins, outs = el[2], el[3]

            def total(ix):
                acc = obj[ix[0]]
                for j in ix[1:]:
                    acc = acc + obj[j]
                return acc
            if ins and outs:
                obj[i].equation = total(ins) - total(outs)
            elif ins:
                obj[i].equation = total(ins)
            elif outs:
                obj[i].equation = total(outs) * (-1.0)
            else:
                obj[i].equation = 0.0
        elif el[0] == "flow":
            obj[i].equation = as_eq(dx(el[2]))
        elif el[0] == "aux":
            obj[i].equation = as_eq(dx(el[1]))
        else:
            m.points[f"p_{nm(i)}"] = [[p[0], p[1]] for p in el_table(el)[0]]
            arg = dx(el_eq(el))
            obj[i].equation = sd.lookup(arg, f"p_{nm(i)}")
    return m


# ---------------------------------------------------------------- independent reference: plain Euler loop
def py_lerp(pts, x):
    if x <= pts[0][0]:
        return pts[0][1]
    if x >= pts[-1][0]:
        return pts[-1][1]
    j = 0
    while not (x < pts[j + 1][0]):
        j += 1
    if x == pts[j][0]:
        return pts[j][1]
    slope = (pts[j + 1][1] - pts[j][1]) / (pts[j + 1][0] - pts[j][0])
    return slope * (x - pts[j][0]) + pts[j][1]


def ref_euler(elems, dt, labels):
    """rows[k][i] = value of element i at grid index k; stock(k+1) = stock(k) + dt * net(k)"""
    n = len(elems)
    rows = []
    for k, t in enumerate(labels):
        row = [None] * n

        def val(i):
            if row[i] is None:
                row[i] = compute(i)
            return row[i]

        def ev(e):
            c = e[0]
            if c == "L":
                return e[1]
            if c == "R":
                return val(e[1])
            if c == "T":
                return t
            if c == "D":
                return dt
            if c == "?":
                a, b = ev(e[2]), ev(e[3])
                ok = a < b if e[1] == "lt" else a <= b if e[1] == "le" else a > b if e[1] == "gt" else a >= b
                return ev(e[4]) if ok else ev(e[5])
            a, b = ev(e[1]), ev(e[2])
            if c == "+":
                return a + b
            if c == "-":
                return a - b
            if c == "*":
                return a * b
            if c == "/":
                return a / b
            if c == "M":
                return b if b > a else a
            return b if b < a else a

        def compute(i):
            el = elems[i]
            if el[0] == "stock":
                if k == 0:
                    v0 = ev(el[1])
                    return (v0 if v0 > 0 else 0.0) if stock_nn(el) else v0     # non-negative stock: initial value only
                p = rows[k - 1]
                ins, outs = el[2], el[3]

                def tot(ix):
                    acc = p[ix[0]]
                    for j in ix[1:]:
                        acc = acc + p[j]
                    return acc
                if ins and outs:
                    d = tot(ins) - tot(outs)
                elif ins:
                    d = tot(ins)
                elif outs:
                    d = -1.0 * tot(outs)
                else:
                    d = 0.0
                return p[i] + dt * d
            if el[0] == "flow":
                v = ev(el[2])
                return (v if v > 0 else 0.0) if el[1] else v
            if el[0] == "aux":
                return ev(el[1])
            if el[0] == "gflow":
                v = py_lerp(el[3], ev(el[2]))
                return (v if v > 0 else 0.0) if el[1] else v
            return py_lerp(el[2], ev(el[1]))
        for i in range(n):
            val(i)
        rows.append([float(x) for x in row])
    return rows


# ---------------------------------------------------------------- wire
def ex_wire(e):
    k = e[0]
    if k == "L":
        return f"L{fbits(e[1])}~{float(e[1])!r}"
    if k == "R":
        return f"R{e[1]}"
    if k in ("T", "D"):
        return k
    if k == "?":
        return f"?{e[1]} " + " ".join(ex_wire(x) for x in e[2:])
    return f"{k} {ex_wire(e[1])} {ex_wire(e[2])}"


def elem_wire(el):
    lst = lambda xs: ",".join(map(str, xs)) if xs else "-"
    if el[0] == "stock":
        return f"{'nnstock' if stock_nn(el) else 'stock'} {ex_wire(el[1])} ; {lst(el[2])} ; {lst(el[3])}"
    if el[0] == "gflow":
        return f"gflow {1 if el[1] else 0} {ex_wire(el[2])} ; " + ",".join(f"{fbits(p[0])}:{fbits(p[1])}" for p in el[3])
    if el[0] == "flow":
        return f"flow {1 if el[1] else 0} {ex_wire(el[2])}"
    if el[0] == "aux":
        return f"aux {ex_wire(el[1])}"
    return f"gf {ex_wire(el[1])} ; " + ",".join(f"{fbits(p[0])}:{fbits(p[1])}" for p in el[2])


def sim_line(elems, dt, labels):
    return "sim|" + fbits(dt) + "|" + ",".join(fbits(t) for t in labels) + "|" + "|".join(elem_wire(e) for e in elems)


EQ_LINE = re.compile(r"^\s*'(e\d+)'\s*: lambda t: (.*),\s*$")


def equation_texts(base, n):
    """the Python text of every equation of the generated class, by name"""
    out = {}
    for line in open(base + ".py"):
        m = EQ_LINE.match(line)
        if m and m.group(1) not in out:
            out[m.group(1)] = m.group(2)
    return [out.get(nm(i)) for i in range(n)]


def chk_line(elems, texts):
    words = []
    for t in texts:
        try:
            words.append(" ".join(pyfrag.lex(t)) if t is not None else "Imissing")
        except pyfrag.Unsupported:
            words.append("Iunsupported")
    return "chk|" + "|".join(elem_wire(e) for e in elems) + "|#|" + "|".join(words)


# ---------------------------------------------------------------- real runs
def expected_labels(start, d, n):
    """start + k*dt for k = 0..n in exact rational arithmetic on the decimal / reciprocal spelling"""
    fd = Fraction(d[0]) if d[0] is not None else Fraction(1, d[1])
    return [Fraction(start) + k * fd for k in range(n + 1)]


def impl_labels(start, stop, dt):
    from BPTK_Py.util import timerange
    return timerange(float(start), float(stop), dt, exclusive=False)


def run_xmile(mod, n, labels, order="up"):
    sim = mod.simulation_model()
    rows = [[None] * n for _ in labels]
    ks = range(len(labels)) if order == "up" else reversed(range(len(labels)))
    for k in ks:
        for i in range(n):
            rows[k][i] = float(sim.equation(nm(i), labels[k]))
    return rows, sim


def run_dsl(m, n, labels):
    return [[float(m.evaluate_equation(nm(i), t)) for i in range(n)] for t in labels]


def nonfinite_index(*tables):
    """first grid index at which any side holds a non-finite number (nan / inf: overflow of a growing stock, 0/0 ...).  IEEE non-finite
    arithmetic is not the property's subject (nan payloads and signs differ between routes): from that index on a case is OUTSIDE the
    value oracle's domain.  Returns the number of leading rows that are in the domain."""
    k_min = None
    for t in tables:
        if t is None:
            continue
        for k, row in enumerate(t):
            if any(isinstance(x, float) and not math.isfinite(x) for x in row):
                k_min = k if k_min is None else min(k_min, k)
                break
    n = min((len(t) for t in tables if t is not None), default=0)
    return n if k_min is None else min(n, k_min)


OUT_OF_DOMAIN = {"cases": 0, "rows": 0}


def first_diff(a, b):
    for k, (ra, rb) in enumerate(zip(a, b)):
        for i, (x, y) in enumerate(zip(ra, rb)):
            if fbits(x) != fbits(y):
                return k, i, x, y
    if len(a) != len(b):
        return min(len(a), len(b)), -1, None, None
    return None


class Case:
    def __init__(self, elems, start, stop, d, n):
        self.elems, self.start, self.stop, self.d, self.n = elems, start, stop, d, n
        self.dt = dt_value(d)

    def canon(self):
        return (json.dumps(self.elems), self.start, self.stop, self.d)

    def to_json(self):
        return {"elems": self.elems, "start": self.start, "stop": self.stop, "dt": list(self.d), "n": self.n}

    @staticmethod
    def from_json(j):
        def tup(x):
            return tuple(tup(y) for y in x) if isinstance(x, list) else x
        elems = []
        for e in j["elems"]:
            if e[0] == "stock":
                elems.append(("stock", tup(e[1]), list(e[2]), list(e[3]), bool(e[4]) if len(e) > 4 else False))
            elif e[0] == "gflow":
                elems.append(("gflow", bool(e[1]), tup(e[2]), [tuple(p) for p in e[3]], tuple(e[4])))
            elif e[0] == "flow":
                elems.append(("flow", e[1], tup(e[2])))
            elif e[0] == "aux":
                elems.append(("aux", tup(e[1])))
            else:
                elems.append(("gf", tup(e[1]), [tuple(p) for p in e[2]], tuple(e[3])))
        return Case(elems, j["start"], j["stop"], tuple(j["dt"]), j["n"])


def evaluate_case(c, scratch, want_dsl=True, want_down=False, bp=None):
    """runs the real code; returns dict(labels, xm, dsl, texts, points_ok, grid_ok, problems)"""
    out = {"problems": []}
    labels = impl_labels(c.start, c.stop, c.dt)
    exp = expected_labels(c.start, c.d, c.n)
    out["labels"] = labels
    grid_ok = (len(labels) == c.n + 1 and labels[0] == float(c.start) and labels[-1] == float(c.stop) and
               all(abs(Fraction(l) - e) < Fraction(1, 10 ** 9) for l, e in zip(labels, exp)))
    out["grid_ok"] = grid_ok
    mod, base = compile_xmile_model(c.elems, c.start, c.stop, c.d, scratch)
    n = len(c.elems)
    xm, sim = run_xmile(mod, n, labels)
    out["xm"] = xm
    out["specs_ok"] = (sim.dt == c.dt and sim.starttime == float(c.start) and sim.stoptime == float(c.stop))
    out["texts"] = equation_texts(base, n)
    pts_ok = True
    for i, el in enumerate(c.elems):
        if el_table(el) is not None:
            got = [tuple(map(float, p)) for p in sim.points.get(nm(i), [])]
            if [fbits(a) + fbits(b) for a, b in got] != [fbits(a) + fbits(b) for a, b in el_table(el)[0]]:
                pts_ok = False
    out["points_ok"] = pts_ok
    out["keys_bad"] = grid_keys_check(mod, sim, c, labels) if grid_ok else None
    if want_down and len(labels) <= 60:
        out["xm_down"] = run_xmile(mod, n, labels, order="down")[0]
    if want_dsl:
        m = build_dsl(c.elems, c.start, c.stop, c.dt)
        out["dsl"] = run_dsl(m, n, labels)
    if bp is not None:
        import contextlib, io
        _mod_counter[0] += 1
        tag = f"c04sm{_mod_counter[0]}"
        names = [nm(i) for i in range(n)]

        def frame_rows(df):
            idx = [float(x) for x in df.index]
            keep = [k for k, t in enumerate(idx) if t <= float(c.stop)]
            cols = {q: (q if q in df.columns else next(cn for cn in df.columns if cn.endswith("_" + q))) for q in names}
            rows = [[float(df[cols[q]].iloc[k]) for q in names] for k in keep]
            return rows, [idx[k] for k in keep], len(idx) - len(keep)
        with contextlib.redirect_stdout(io.StringIO()):
            bp.register_model(base + ".stmx", scenario_manager=tag)
            df = bp.run_scenarios(scenario_managers=[tag], scenarios=["base"], equations=names, series_names={}, return_format="df")
        out["xm_bptk"], out["xm_bptk_index"], out["xm_bptk_extra"] = frame_rows(df)
        if want_dsl:
            m2 = build_dsl(c.elems, c.start, c.stop, c.dt, name=tag + "d")
            with contextlib.redirect_stdout(io.StringIO()):
                bp.register_model(m2)
                df2 = bp.run_scenarios(scenario_managers=["sm" + (tag + "d").capitalize()], scenarios=["base"], equations=names,
                                       series_names={}, return_format="df")
            out["dsl_bptk"], out["dsl_bptk_index"], out["dsl_bptk_extra"] = frame_rows(df2)
    return out


def grid_keys_check(mod, sim, c, labels):
    """GridOK on doubles, clause by clause (wave 2): the generated `grid_time` is util.floating_point.normalize with the
    precision max(scale start, scale dt) (the function C05's `normalize` models), it fixes every label (normLabel), it
    takes `label(k+1) - dt` to `label k` bit for bit (prevLabel), and after the ascending run every memo key is a label.
    Returns None or a description of the first clause that fails."""
    gt = getattr(mod, "grid_time", None)
    if gt is None:
        return None
    from BPTK_Py.util.floating_point import normalize, scale
    start, dt = float(c.start), c.dt
    prec = max(scale(start), scale(dt))
    for k, t in enumerate(labels):
        for what, x in (("label", t),) + ((("label(k+1)-dt", labels[k + 1] - dt),) if k + 1 < len(labels) else ()):
            a = gt(x, dt, start)
            b = normalize(x, dt, start, prec)
            if fbits(float(a)) != fbits(float(b)):
                return {"clause": "grid_time = normalize", "k": k, "x": x, "grid_time": a, "normalize": b}
            if fbits(float(a)) != fbits(t):
                return {"clause": "normLabel" if what == "label" else "prevLabel", "k": k, "x": x, "key": a, "label": t}
    lab = {fbits(t) for t in labels}
    for name, memo in sim.memo.items():
        for key in memo.keys():
            if fbits(float(key)) not in lab:
                return {"clause": "memo key is not a label", "elem": name, "key": key}
    if not (labels[0] <= start) or any(t <= start for t in labels[1:]):
        return {"clause": "start test"}
    return None


def spec_failure(c, ev):
    """the property's right-hand side, computed independently: returns (key, text, detail) or None"""
    if not ev["specs_ok"]:
        return ("run-spec", f"run spec of the generated model differs from <sim_specs> (dt {dt_name(c.d)})", {})
    if not ev["grid_ok"]:
        return None   # the grid labels themselves are C05's subject; values are compared on the labels the code uses
    ref = ref_euler(c.elems, c.dt, ev["labels"])
    has_gf = any(el_table(e) is not None for e in c.elems)
    for which in ("xm_bptk", "dsl_bptk"):
        if which in ev and [fbits(t) for t in ev[which + "_index"]] != [fbits(t) for t in ev["labels"]]:
            return ("grid-rows", f"{which}: run_scenarios returns rows at {ev[which + '_index'][:4]}...{ev[which + '_index'][-2:]} "
                                 f"({len(ev[which + '_index'])} rows up to stop), grid has {len(ev['labels'])} points "
                                 f"(dt {dt_name(c.d)}, start {c.start}, stop {c.stop})", {"which": which})
    streams = [ev[w] for w in ("xm", "xm_down", "dsl", "xm_bptk", "dsl_bptk") if w in ev]
    K = nonfinite_index(ref, *streams)
    ev["in_domain_rows"] = K
    for which in ("xm", "xm_down", "dsl", "xm_bptk", "dsl_bptk"):
        if which not in ev:
            continue
        full = len(ev[which]) == len(ref)
        d = first_diff(ev[which][:K] if full else ev[which], ref[:K] if full else ref)
        if d is not None:
            k, i, got, want = d
            if has_gf and got is not None and math.isclose(got, want, rel_tol=1e-12, abs_tol=1e-12):
                continue      # scipy's interpolation is opaque: ulp-level differences are not the property
            key = {"xm": "xmile-not-euler", "xm_down": "xmile-route-dependent", "dsl": "dsl-not-euler",
                   "xm_bptk": "xmile-not-euler", "dsl_bptk": "dsl-not-euler"}[which]
            return (key, f"{which}: element {nm(i)} at t={ev['labels'][k]!r} (grid index {k}, dt {dt_name(c.d)}, start {c.start}) "
                         f"is {got!r}, explicit Euler gives {want!r}", {"which": which, "k": k, "elem": i, "got": got, "want": want})
    return None


def shrink_case(c, fails):
    """greedy: shorten the grid, then drop elements nobody needs"""
    best = c
    # shorten
    lo = 1
    fd = Fraction(c.d[0]) if c.d[0] is not None else Fraction(1, c.d[1])
    for n in range(1, c.n):
        stop = Fraction(c.start) + n * fd
        txt = str(stop.numerator) if stop.denominator == 1 else repr(float(stop))
        if Fraction(txt) != stop:
            continue
        cand = Case(c.elems, c.start, txt, c.d, n)
        if fails(cand):
            best = cand
            break
    changed = True
    while changed:
        changed = False
        n = len(best.elems)
        for i in reversed(range(n)):
            used = set()
            for j, el in enumerate(best.elems):
                if j == i:
                    continue
                used |= ex_refs(el_eq(el))
            if i in used:
                continue
            ren = lambda x: x - 1 if x > i else x

            def rex(e):
                if e[0] == "R":
                    return ("R", ren(e[1]))
                if e[0] in ("L", "T", "D"):
                    return e
                if e[0] == "?":
                    return (e[0], e[1]) + tuple(rex(x) for x in e[2:])
                return (e[0], rex(e[1]), rex(e[2]))
            new = []
            for j, el in enumerate(best.elems):
                if j == i:
                    continue
                if el[0] == "stock":
                    new.append(("stock", rex(el[1]), [ren(x) for x in el[2] if x != i], [ren(x) for x in el[3] if x != i], stock_nn(el)))
                elif el[0] == "gflow":
                    new.append(("gflow", el[1], rex(el[2]), el[3], el[4]))
                elif el[0] == "flow":
                    new.append(("flow", el[1], rex(el[2])))
                elif el[0] == "aux":
                    new.append(("aux", rex(el[1])))
                else:
                    new.append(("gf", rex(el[1]), el[2], el[3]))
            if not any(e[0] == "stock" for e in new):
                continue
            cand = Case(new, best.start, best.stop, best.d, best.n)
            try:
                if fails(cand):
                    best = cand
                    changed = True
                    break
            except Exception:
                pass
    return best


# ---------------------------------------------------------------- probes
def probe_skeletons():
    """StockExpressions + parseExpression on placeholder stocks with 0..3 inflows x 0..3 outflows.
    Returns [(nin, nout, words)] with element 0 the stock, 1..nin the inflows, then the outflows; the
    initial value is the literal 7.5."""
    return probe_skeleton_shapes([(ni, no) for ni in range(4) for no in range(4)])


def probe_skeleton_shapes(shapes, nonneg=False):
    from BPTK_Py.sdcompiler.plugins import StockExpressions
    from BPTK_Py.sdcompiler.generator.py.py import parseExpression
    out = []
    for ni, no in shapes:
        ent = {"name": "e0", "inflow": [nm(1 + i) for i in range(ni)], "outflow": [nm(1 + ni + i) for i in range(no)],
               "equation_parsed": [7.5]}
        if nonneg:      # what parse_xmile does with <non_negative/> (xmile.py: "Handle Non-Negative stocks")
            ent["equation_parsed"] = {"name": 'max', "type": 'call', "args": [0, [7.5]]}
        IR = {"models": {"": {"name": "", "entities": {"stock": [ent], "flow": []}}}}
        IR = StockExpressions(IR)
        text = parseExpression(IR["models"][""]["entities"]["stock"][0]["equation_parsed"])
        out.append((ni, no, str(text), pyfrag.lex(str(text))))
    return out


# wave 2: shapes beyond the kernel-checked 0..3 x 0..3 table; token equality with the intended text is decided by the
# Lean driver (`skeletonTextOK`), parse + denotation for ANY n is `skeletonTextOK_sound` / `stock_text_denotes`
LARGE_SHAPES_QUICK = [(4, 0), (0, 4), (4, 4), (5, 2), (2, 5), (6, 6), (9, 1), (1, 9), (10, 11), (12, 12), (25, 0), (0, 25), (17, 23)]


def large_shapes(quick):
    if quick:
        return LARGE_SHAPES_QUICK
    return sorted(set(LARGE_SHAPES_QUICK) | {(a, b) for a in range(11) for b in range(11) if a > 3 or b > 3} | {(40, 40), (101, 3)})


PROBE_ELEMS = [("stock", ("L", 0.0), [1], []), ("flow", True, ("L", 1.0))]


def probe_memo_normalises(scratch):
    """dt = 0.1, stock with inflow 1: S(0.4) evaluated on a fresh model must be the Euler value (4 steps)"""
    c = Case(PROBE_ELEMS, "0", "1.3", ("0.1", None), 13)
    mod, _ = compile_xmile_model(c.elems, c.start, c.stop, c.d, scratch)
    labels = impl_labels(c.start, c.stop, c.dt)
    ref = ref_euler(c.elems, c.dt, labels)
    bad = []
    for k in range(len(labels)):
        sim = mod.simulation_model()
        v = float(sim.equation("e0", labels[k]))
        if fbits(v) != fbits(ref[k][0]):
            bad.append((labels[k], v, ref[k][0]))
    return (not bad), bad, c


PROBE_GF_ELEMS = [("stock", ("L", 0.0), [1], [2], False),
                  ("gflow", False, ("T",), [(0.0, 1.0), (10.0, 21.0)], ("xpts",)),
                  ("gflow", True, ("-", ("T",), ("L", 4.0)), [(-5.0, -7.0), (5.0, 3.0)], ("scale", -5.0, 5.0))]


def probe_flow_gf(scratch):
    """repaired mechanism (fixes/C04-flow-gf): a <flow> that carries a <gf> is the graphical function of its equation
    (uniflow: clamped after the lookup); on the pinned tree the table was dropped and the flow was its bare equation."""
    c = Case(PROBE_GF_ELEMS, "0", "3", ("1", None), 3)
    labels = impl_labels(c.start, c.stop, c.dt)
    ref = ref_euler(c.elems, c.dt, labels)
    bad = []
    try:
        mod, base = compile_xmile_model(c.elems, c.start, c.stop, c.d, scratch)
        sim = mod.simulation_model()
        for k, t in enumerate(labels):
            for i in (1, 2):
                v = float(sim.equation(nm(i), t))
                if not math.isclose(v, ref[k][i], rel_tol=1e-12, abs_tol=1e-12):
                    bad.append((nm(i), t, v, ref[k][i]))
    except Exception as ex:
        bad.append((nm(1), labels[0], f"{type(ex).__name__}: {ex}", ref[0][1]))
    return (not bad), bad, c



# wave 5: the IR node `sum` that StockExpressions builds (inside PREVIOUS(...)), for every branch and up to 6 names, as Lean data;
# the kernel decides `builderOK` (IR node for node = model `sumS`, tokens = model text); the general theorem
# `builder_stock_text` then covers every n, m
BUILDER_SHAPES = sorted({(a, b) for a in range(4) for b in range(4)} | {(n, 0) for n in (4, 5, 6)} | {(0, n) for n in (4, 5, 6)}
                        | {(n, n) for n in (4, 5, 6)} | {(1, 6), (6, 1), (2, 5)})
SIR_OPS = {"+": ".add", "-": ".sub", "*": ".mul"}


def sir_lean(node):
    """IR node -> Lean term of type Bptk.C04.SIR; anything the model has no constructor for becomes an identifier that cannot match"""
    if isinstance(node, bool):
        return '(.ident "UNMODELLED bool")'
    if isinstance(node, (int, float)):
        return ".zero" if node == 0 else ".minus1" if node == -1 else f'(.ident "UNMODELLED number {node}")'
    if isinstance(node, dict):
        ty, name = node.get("type"), node.get("name")
        if ty == "nothing":
            return ".nothing"
        if ty == "identifier":
            return f"(.ident {pyfrag.lean_str(name)})"
        if ty == "operator" and name == "()" and len(node["args"]) == 1:
            return f"(.paren {sir_lean(node['args'][0])})"
        if ty == "operator" and name in SIR_OPS and len(node["args"]) == 2:
            return f"(.op {SIR_OPS[name]} {sir_lean(node['args'][0])} {sir_lean(node['args'][1])})"
    return f'(.ident {pyfrag.lean_str("UNMODELLED " + json.dumps(node, default=str)[:60])})'


def joined_expected(names):
    if not names:
        return ".nothing"
    if len(names) == 1:
        return f"(.ident {pyfrag.lean_str(names[0])})"
    return f"(.op .add (.ident {pyfrag.lean_str(names[0])}) {joined_expected(names[1:])})"


def sum_expected(ins, outs):
    """harness-side prediction of the model's `sumS` (only used to SELECT which obligation is stated; the kernel decides it)"""
    if not ins and not outs:
        return ".zero"
    if not outs:
        return f"(.paren {joined_expected(ins)})"
    if not ins:
        return f"(.paren (.op .mul .minus1 (.paren {joined_expected(outs)})))"
    return f"(.paren (.op .sub {joined_expected(ins)} (.paren {joined_expected(outs)})))"


def probe_builder(shapes=BUILDER_SHAPES):
    """[(ins, outs, sum node as Lean SIR, predicted, token words, text)] from the real StockExpressions + parseExpression"""
    from BPTK_Py.sdcompiler.plugins import StockExpressions
    from BPTK_Py.sdcompiler.generator.py.py import parseExpression
    import copy
    out = []
    for ni, no in shapes:
        ins, outs = [nm(1 + i) for i in range(ni)], [nm(1 + ni + i) for i in range(no)]
        ent = {"name": "e0", "inflow": list(ins), "outflow": list(outs), "equation_parsed": [7.5]}
        IR = StockExpressions({"models": {"": {"name": "", "entities": {"stock": [ent], "flow": []}}}})
        expr = IR["models"][""]["entities"]["stock"][0]["equation_parsed"]
        try:
            node = expr["args"][2]["args"][1]["args"][1]["args"][0]      # IF(.., init, PREVIOUS(s) + DT * PREVIOUS(sum))
        except Exception:
            node = {"type": "unreachable"}
        lean = sir_lean(copy.deepcopy(node))
        text = str(parseExpression(copy.deepcopy(expr)))
        out.append((ins, outs, lean, sum_expected(ins, outs), pyfrag.lex(text), text))
    return out



# wave 7: name shapes and document shape of a stock/flow structure.  The same graph (stock with two inflows, one outflow that drains
# the stock, an auxiliary) written (a) with plain names in the root model, (b) with blanks / upper case / underscores in the names and
# in the <inflow>/<outflow> references, (c) inside a named <model> (module): the stock's trajectory must be the same.
def shaped_doc(variant, dt_xml):
    if variant == "plain":
        S, I1, I2, O, A, model_open = "level", "gain", "bonus", "drain", "factor", "<model>"
        ri1, ri2, ro = "gain", "bonus", "drain"
    elif variant == "names":
        S, I1, I2, O, A, model_open = "Water Level", "Net GAIN", "bonus_x", "Drain Rate", "The Factor", "<model>"
        ri1, ri2, ro = "Net_Gain", "BONUS_X", "drain_rate"
    else:
        S, I1, I2, O, A, model_open = "Water Level", "Net GAIN", "bonus_x", "Drain Rate", "The Factor", '<model name="Tank One">'
        ri1, ri2, ro = "Net_Gain", "BONUS_X", "drain_rate"
    u = lambda n: n.replace(" ", "_")
    root = '<model><variables><module name="Tank One"/><aux name="unrelated"><eqn>1</eqn></aux></variables></model>' if variant == "module" else ""
    return (f'<?xml version="1.0" encoding="utf-8"?>\n<xmile version="1.0" xmlns="http://docs.oasis-open.org/xmile/ns/XMILE/v1.0">\n'
            f'<header><name>c04shape</name><vendor>verif</vendor></header>\n<sim_specs method="Euler" time_units="Months"><start>0</start><stop>2</stop>{dt_xml}</sim_specs>\n'
            f'{root}{model_open}<variables>\n'
            f'<stock name="{S}"><eqn>10</eqn><inflow>{ri1}</inflow><inflow>{ri2}</inflow><outflow>{ro}</outflow></stock>\n'
            f'<flow name="{I1}"><eqn>{u(A)} * 2</eqn></flow>\n<flow name="{I2}"><eqn>TIME</eqn><non_negative/></flow>\n'
            f'<flow name="{O}"><eqn>{u(S).upper()} * 0.25</eqn><non_negative/></flow>\n<aux name="{A}"><eqn>0.5 + DT</eqn></aux>\n'
            f'</variables></model>\n</xmile>\n')


def probe_shapes(scratch):
    """returns (ok, detail): trajectories of the stock under the three spellings, dt 0.1 and 1/4"""
    from BPTK_Py.sdcompiler.compile import compile_xmile
    import importlib.util
    detail, ok = {}, True
    for dt_xml, dt, n in (("<dt>0.1</dt>", 0.1, 20), ('<dt reciprocal="true">4</dt>', 0.25, 8)):
        ref = [10.0]
        for k in range(n):
            t = k * dt
            ref.append(ref[-1] + dt * (((0.5 + dt) * 2 + max(0, t)) - max(0, ref[-1] * 0.25)))
        for variant, key in (("plain", "level"), ("names", "waterLevel"), ("module", "tankOne.waterLevel")):
            _mod_counter[0] += 1
            base = os.path.join(scratch, f"shape{_mod_counter[0]}")
            with open(base + ".xmile", "w") as f:
                f.write(shaped_doc(variant, dt_xml))
            try:
                compile_xmile(base + ".xmile", base + ".py", "py")
                spec = importlib.util.spec_from_file_location(f"c04shape{_mod_counter[0]}", base + ".py")
                mod = importlib.util.module_from_spec(spec); spec.loader.exec_module(mod)
                sim = mod.simulation_model()
                got = [float(sim.equation(key, 1.0 * round(k * dt, 10))) for k in range(n + 1)]
            except BaseException as ex:
                got = f"{type(ex).__name__}: {str(ex)[:150]}"
            good = isinstance(got, list) and all(math.isclose(a, b, rel_tol=1e-12, abs_tol=1e-12) for a, b in zip(got, ref))
            detail[f"{variant}@{dt}"] = "ok" if good else {"observed": got if not isinstance(got, list) else got[:6], "expected": ref[:6]}
            if not good and ok:
                ok = False
                detail["first"] = {"variant": variant, "dt_xml": dt_xml, "key": key, "xmile": shaped_doc(variant, dt_xml)}
    return ok, detail



# wave 10: an XMILE model registered through a SCENARIO FILE whose scenarios override the run specs of the <sim_specs> (dt decimal /
# reciprocal / binary, start, stop).  The transpiled model must be Euler-exact on the SCENARIO's grid (rows and values), on the first
# and on the second run, and agree with the DSL twin run with the same spec.
RS_ELEMS = [("stock", ("L", 10.0), [1, 2], [3], False), ("flow", True, ("*", ("L", 0.2), ("R", 0))), ("flow", False, ("-", ("L", 3.0), ("T",))),
            ("flow", True, ("*", ("R", 4), ("R", 0))), ("aux", ("+", ("L", 0.1), ("D",)))]
RS_FILE_SPEC = ("0", "2", ("0.25", None))
RS_SCENARIOS = [("fileSpec", {}, (0.0, 2.0, 0.25)), ("decimalDt", {"dt": 0.1}, (0.0, 2.0, 0.1)), ("fineDt", {"dt": 0.05, "stoptime": 3.0}, (0.0, 3.0, 0.05)),
                ("recipDt", {"dt": 1 / 3, "stoptime": 4.0}, (0.0, 4.0, 1 / 3)), ("binaryDt", {"starttime": 1.0, "dt": 0.125}, (1.0, 2.0, 0.125)),
                ("coarseDt", {"dt": 0.5, "stoptime": 3.0}, (0.0, 3.0, 0.5))]


def write_runspec_project(folder):
    """scenario file + .stmx in `folder` (must exist before bptk() is created with `folder` as working directory)"""
    os.makedirs(os.path.join(folder, "scenarios"), exist_ok=True)
    os.makedirs(os.path.join(folder, "rsmodels"), exist_ok=True)
    with open(os.path.join(folder, "rsmodels", "rs_model.stmx"), "w") as f:
        f.write(xmile_doc(RS_ELEMS, RS_FILE_SPEC[0], RS_FILE_SPEC[1], RS_FILE_SPEC[2], name="rs_model"))
    with open(os.path.join(folder, "scenarios", "c04rs.json"), "w") as f:
        json.dump({"smC04rs": {"model": "rsmodels/rs_model", "source": "rsmodels/rs_model.stmx",
                               "scenarios": {name: ({"runspecs": rs} if rs else {}) for name, rs, _ in RS_SCENARIOS}}}, f, indent=1)


def check_runspec_scenarios(bp, only=None):
    """returns (first failure dict or None, per-scenario notes)"""
    import contextlib, io
    names = [nm(i) for i in range(len(RS_ELEMS))]
    notes, fail = {}, None
    for sname, rs, (start, stop, dt) in RS_SCENARIOS:
        if only is not None and sname != only:
            continue
        labels = impl_labels(start, stop, dt)
        ref = ref_euler(RS_ELEMS, dt, labels)
        dslm = build_dsl(RS_ELEMS, start, stop, dt, name="c04rsd" + sname.lower())
        dsl = run_dsl(dslm, len(RS_ELEMS), labels)
        for run in ("first", "second"):
            try:
                with contextlib.redirect_stdout(io.StringIO()):
                    df = bp.run_scenarios(scenario_managers=["smC04rs"], scenarios=[sname], equations=names, series_names={}, return_format="df")
                idx = [float(x) for x in df.index]
                cols = {q: (q if q in df.columns else next(cn for cn in df.columns if cn.endswith("_" + q))) for q in names}
                rows = [[float(df[cols[q]].iloc[k]) for q in names] for k in range(len(idx))]
                problem = None
                if len(idx) != len(labels):
                    problem = f"{len(idx)} rows (first times {idx[:4]}), the scenario's grid start={start} stop={stop} dt={dt} has {len(labels)} points"
                elif any(abs(a - b) > 1e-9 for a, b in zip(idx, labels)):
                    k = next(i for i, (a, b) in enumerate(zip(idx, labels)) if abs(a - b) > 1e-9)
                    problem = f"row {k} has time {idx[k]!r}, the scenario's grid point is {labels[k]!r}"
                else:
                    for k in range(len(labels)):
                        for i in range(len(names)):
                            if not math.isclose(rows[k][i], ref[k][i], rel_tol=1e-12, abs_tol=1e-12):
                                problem = f"{names[i]} at t={labels[k]!r} is {rows[k][i]!r}, explicit Euler on the scenario's grid gives {ref[k][i]!r}"
                                break
                            if not math.isclose(dsl[k][i], ref[k][i], rel_tol=1e-12, abs_tol=1e-12):
                                problem = f"DSL twin: {names[i]} at t={labels[k]!r} is {dsl[k][i]!r}, explicit Euler gives {ref[k][i]!r}"
                                break
                        if problem:
                            break
            except BaseException as ex:
                problem = f"run_scenarios raises {type(ex).__name__}: {str(ex)[:150]}"
            notes[f"{sname}/{run}"] = "ok" if problem is None else problem
            if problem is not None and fail is None:
                fail = {"kind": "scenario-runspecs", "scenario": sname, "runspecs": rs, "spec": [start, stop, dt], "run": run, "problem": problem,
                        "file_spec": [RS_FILE_SPEC[0], RS_FILE_SPEC[1], RS_FILE_SPEC[2][0]]}
    return fail, notes


def lean_list(xs):
    return "[" + ", ".join(xs) + "]"


def gen_lean(skels, normalises, bprobes=(), skel_ok=True, builder_ok=True, lerp_rows=(), lerp_ok=True, run_grid_ok=True):
    rows = []
    for ni, no, _text, words in skels:
        toks = ", ".join(pyfrag.lean_tok(w) for w in words)
        rows.append(f"  ({ni}, {no}, [{toks}])")
    brows = []
    for ins, outs, lean, _pred, words, _text in bprobes:
        toks = ", ".join(pyfrag.lean_tok(w) for w in words)
        brows.append('  { s := "e0", ins := [' + ", ".join(pyfrag.lean_str(x) for x in ins) + "], outs := [" + ", ".join(pyfrag.lean_str(x) for x in outs)
                     + f"],\n    ir := {lean},\n    toks := [{toks}] }}")
    b = "true" if normalises else "false"
    g = "true" if run_grid_ok else "false"
    body = ("theorem holds : C04_full cfg := C04_full_of_good cfg (by decide)\n#print axioms holds\n" if normalises and run_grid_ok else
            "/-- the rows of a run are walked with another dt than the model integrates with (probe: scenario run specs over an XMILE file) -/\n"
            "theorem violated : ¬ C04_full cfg := C04_witness_run_grid cfg (by decide)\n#print axioms violated\n#print axioms rows_stale_dt_witness\n" if normalises else
            "theorem violated : ¬ C04_full cfg := C04_witness_raw_keys cfg (by decide)\n#print axioms violated\n"
            "#print axioms C04_partial\n")
    skel_ob = ("/-- every probed stock equation (0..3 inflows x 0..3 outflows) is, token for token, the intended\n"
               "parenthesised skeleton, and denotes the `Tm` code that `compile` assigns to the stock -/\n"
               "theorem xmile_skeleton_ok : skeletonsOK skeletons = true := by decide +kernel\n#print axioms xmile_skeleton_ok\n" if skel_ok else
               "/-- some probed stock equation is NOT the intended skeleton -/\n"
               "theorem xmile_skeleton_not_ok : skeletonsOK skeletons = false := by decide +kernel\n#print axioms xmile_skeleton_not_ok\n")
    bld_ob = ("/-- wave 5: the `sum` node StockExpressions builds is, node for node, the model's `sumS` in every branch (1, 2, 3 .. 6 names)\n"
              "and the emitted tokens are the model's text; with `builder_stock_text` (all n, m) this is the syntax tie -/\n"
              "theorem xmile_builder_ok : builderOK bprobes = true := by decide +kernel\n#print axioms xmile_builder_ok\n"
              "example := builder_sound bprobes xmile_builder_ok\n" if builder_ok else
              "/-- the builder's IR / text is NOT the model's; `bare_outflows_witness` shows what the only-outflows branch without its\n"
              "inner `()` node denotes -/\n"
              "theorem xmile_builder_not_ok : builderOK bprobes = false := by decide +kernel\n#print axioms xmile_builder_not_ok\n"
              "#print axioms bare_outflows_witness\n")
    lint = lambda i: f"({i})" if i < 0 else str(i)
    lrows = ",\n".join("  { pts := [" + ", ".join(f"({lint(a)}, {lint(b)})" for a, b in pts) + f"], x := {lint(x)}, y := {lint(y)} }}" for pts, x, y, _ in lerp_rows)
    lerp_ob = f"def lerpRows : List LerpRow := [\n{lrows}]\n" + (
        "/-- wave 6: what the REAL generated LERP returned on integer tables with strongly uneven spacing (every integer abscissa from below to above\n"
        "the range) is the model's `lerp` -/\ntheorem xmile_lerp_rows_ok : lerpRowsOK lerpRows = true := by decide +kernel\n#print axioms xmile_lerp_rows_ok\n" if lerp_ok else
        "/-- the generated LERP is NOT the model's `lerp` on some probed row; `lerp_bounded_witness` shows a segment search with bounded correction -/\n"
        "theorem xmile_lerp_rows_not_ok : lerpRowsOK lerpRows = false := by decide +kernel\n#print axioms xmile_lerp_rows_not_ok\n#print axioms lerp_bounded_witness\n")
    return ("import Bptk.Props.C04\n/-! GENERATED by harness/props/c04.py from /repo on every run — do not edit. -/\n"
            "namespace Bptk.C04.Gen\nopen Bptk.Py in\n"
            "def skeletons : List (Nat × Nat × List Bptk.Py.Tok) := [\n" + ",\n".join(rows) + "]\n"
            "open Bptk.Py in\ndef bprobes : List BProbe := [\n" + ",\n".join(brows) + "]\n"
            f"def cfg : Cfg := {{ memoNormalises := {b}, xmileRunGridUsesModelDt := {g} }}\n"
            + skel_ob + bld_ob + lerp_ob + body + "end Bptk.C04.Gen\n")


# ---------------------------------------------------------------- run
def run(chk):
    quiet_bptk_logging()
    import warnings
    warnings.filterwarnings("ignore")
    scratch = scratch_dir("bptkc04")
    cwd = os.getcwd()
    try:
        _run(chk, scratch)
    finally:
        os.chdir(cwd)
        import shutil
        shutil.rmtree(scratch, ignore_errors=True)


def _run(chk, scratch):
    import BPTK_Py
    os.chdir(scratch)
    if scratch not in sys.path:
        sys.path.insert(0, scratch)
    write_runspec_project(scratch)
    bp = BPTK_Py.bptk()
    try:
        _run2(chk, scratch, bp)
    finally:
        try:
            bp.destroy()
        except Exception:
            pass
        if scratch in sys.path:
            sys.path.remove(scratch)


def _run2(chk, scratch, bp):
    skels = probe_skeletons()
    normalises, bad_probe, probe_case = probe_memo_normalises(scratch)
    flow_gf_ok, bad_gf, gf_probe_case = probe_flow_gf(scratch)
    chk.notes["cfg"] = {"memoNormalises": normalises}
    chk.notes["probe_flow_gf_applied"] = flow_gf_ok
    chk.notes["skeleton_texts"] = {f"{a}in{b}out": t for a, b, t, _ in skels}
    lmod, _ = compile_xmile_model(PROBE_ELEMS, "0", "1", ("1", None), scratch)
    lerp_rows, lerp_fail, lerp_count = probe_lerp(lmod, chk.rng.fork("c04-lerp"), chk.quick)
    lerp_rows_ok = all(r[3] for r in lerp_rows) and len(lerp_rows) > 0
    chk.notes["lerp_probe"] = {"calls": lerp_count, "kernel_rows": len(lerp_rows), "first_failure": lerp_fail}
    rs_fail, rs_notes = check_runspec_scenarios(bp)
    chk.notes["scenario_runspecs"] = rs_notes
    run_grid_ok = not any(("rows (first times" in v or "the scenario's grid point is" in v) for k_, v in rs_notes.items())
    chk.notes["cfg"]["xmileRunGridUsesModelDt"] = run_grid_ok
    for k_ in rs_notes:
        chk.case(("scenario-runspecs", k_), nontrivial=True)
    shapes_ok, shapes_detail = probe_shapes(scratch)
    chk.notes["shape_probe"] = {k: v for k, v in shapes_detail.items() if k != "first"}
    chk.case(("shape-probe",), nontrivial=True)
    bprobes = probe_builder()
    bld_bad = [(len(i), len(o), lean, pred, text) for i, o, lean, pred, _w, text in bprobes if lean != pred]
    skel_reply = drive("C04", [f"skel|{ni}|{no}|" + " ".join(words) for ni, no, _t, words in skels])
    skel_bad = [(ni, no, text) for (ni, no, text, _w), r in zip(skels, skel_reply) if r != "ok"]
    bld_tok_reply = drive("C04", [f"skel|{len(i)}|{len(o)}|" + " ".join(w) for i, o, _l, _p, w, _t in bprobes])
    bld_tok_bad = [(len(i), len(o), text) for (i, o, _l, _p, _w, text), r in zip(bprobes, bld_tok_reply) if r != "ok"]
    builder_ok = not bld_bad and not bld_tok_bad
    chk.notes["builder_probe"] = {"shapes": [f"{len(i)}/{len(o)}" for i, o, *_ in bprobes], "ir_differs": [(a, b, l, p) for a, b, l, p, _ in bld_bad][:4],
                                  "text_differs": bld_tok_bad[:4], "skeleton_differs": skel_bad[:4]}
    ok, why = chk.prove(gen_lean(skels, normalises, bprobes, skel_ok=not skel_bad, builder_ok=builder_ok, lerp_rows=lerp_rows, lerp_ok=lerp_rows_ok, run_grid_ok=run_grid_ok),
                        extra_sources=["Bptk/Core/PyFrag.lean", "Bptk/Proofs/PyFrag.lean"])
    chk.cov["trusted_base"] = [
        "Lean 4.33 kernel; axioms propext, Classical.choice, Quot.sound (audited per run via #print axioms); decide +kernel on Float literals for the drift witness only",
        "model lean/Bptk/Core/C04.lean of the generated class (memoize, equations) and of StockExpressions' output; tied to /repo per run by the skeleton probe (token equality + denotation), by the per-model check that every emitted equation text denotes compile M, and by the bit-exact simulation correspondence",
        "A1 Python-fragment parser (lean/Bptk/Core/PyFrag.lean) and the Python-side lexer harness/pyfrag.py",
        "CPython float + - * / comparisons = IEEE double = Lean Float; scipy interp1d (LERP interior) is opaque: compared with tolerance 1e-12",
        "time keys: the normalising memoize is represented by the hypothesis GridOK (normalised t-dt from label k+1 is label k), discharged (a) for the rational model with bounded rounding error (normalize_keys_on_grid), (b) wave 2: for C05's float adversary Fl on every decimal grid under C05's explicit Budget (gridOK_of_C05, from Bptk.C05.normalize_near), and checked clause by clause on the doubles of every case (grid_time = util normalize bit for bit, normLabel, prevLabel, memo keys = labels)",
        "wave 2: IEEE doubles as an instance of Bptk.C05.Fl (bounded relative error, monotone, idempotent) and the Budget inequalities for u = 2^-53 are C05's trusted part; reciprocal dt that are not decimal fractions (1/3, 1/7, ...) are outside C05's Grid (decimal start and step) - for them the key clauses are checked on the doubles of every run only",
        "wave 5: StockExpressions' IR builder is modelled for ANY lists of inflows / outflows (sumS, joinedS, renderS); tied per run by the kernel-decided builderOK on the real "
        "IR nodes and tokens of every branch with 1, 2, 3 .. 6 names; that the sum node sits where the probe looks (IF / + / * / PREVIOUS frame) is checked by the token equality of the whole stock text",
        "wave 2: element names e<n> for any n via the proved coding nameIx (nmG n) = n; shapes beyond 0..3 x 0..3 are compared token for token by the driver (skeletonTextOK / skeletonTextNNOK), parse + denotation for any n is skeletonTextOK_sound / stock_text_denotes",
    ]
    chk.assumptions = ["acyclic models (a rank function on same-time references exists)",
                       "equation vocabulary of the generated graphs: + - * / MAX MIN IF-THEN-ELSE TIME DT literals references; other builtins are C03's subject",
                       "the time labels themselves (util.timerange) are C05's subject: values are compared on the labels the code uses, after checking count, first, last and |label - (start+k*dt)| < 1e-9"]
    chk.cov["rule"] = ("generated stock/flow graphs (1-4 stocks, 0-3 (1 in 8: 4-7) inflows and outflows each incl. stock-to-stock flows, uniflows and biflows, "
                       "flows defined by a graphical function (uniflow: clamped after the lookup), non-negative stocks (initial value clamped, integration not), "
                       "auxiliaries, constants, a graphical function) x run specs (start in {0,1,0.5,2,2020,1999.5}, dt in {1,.5,.25,.125,.2,.1,.05,.01,1/2,1/3,1/4,1/6,1/7,1/8,1/9,1/10,1/12} "
                       "decimal and reciprocal spelling; in every run, both tiers: 1/3 1/7 1/9 1/12 1/6 0.1 0.05 0.01 from start 2020); each written as XMILE (compiled by the real compiler) and as SD-DSL model; every element at every grid "
                       "point; compared as IEEE bit patterns with the Lean driver, the Python reference Euler loop and each other; a case = (graph, run spec); "
                       "non-trivial = dt is not a binary fraction or the graph has >= 2 stocks")
    rng = chk.rng.fork("c04")
    ncases = 96 if chk.quick else 760
    cases = []
    # corpus first
    cdir = os.path.join(VERIF, "corpus", "C04")
    if os.path.isdir(cdir):
        for fn in sorted(os.listdir(cdir)):
            if fn.endswith(".json"):
                cases.append(Case.from_json(json.load(open(os.path.join(cdir, fn)))["replay"]["case"]))
    # the probe case and systematic single-stock cases over every dt
    cases.append(probe_case)
    for d in DTS:
        for ni, no in [(1, 0), (2, 1), (0, 2), (3, 3), (0, 0)]:
            if chk.quick and (ni, no) not in [(1, 0), (3, 3)]:
                continue
            el = [("stock", ("L", 1.0), list(range(1, 1 + ni)), list(range(1 + ni, 1 + ni + no)))]
            for j in range(ni + no):
                el.append(("flow", j % 2 == 0, ("*", ("L", LITS[j % len(LITS)]), ("R", 0)) if j % 3 == 0 else ("L", LITS[(j + 3) % len(LITS)])))
            fd = Fraction(d[0]) if d[0] is not None else Fraction(1, d[1])
            n = 14 if d[0] is not None else 2 * d[1]
            stop = n * fd
            txt = str(stop.numerator) if stop.denominator == 1 else repr(float(stop))
            if Fraction(txt) == stop:
                cases.append(Case(el, "0", txt, d, n))
    # wave 2, in BOTH tiers: reciprocal / decimal dt that are not binary fractions from calendar-year starts, on a stock
    # with inflows and outflows (index snapping vs. rounding to decimal places), a non-negative stock whose initial value
    # the clamp changes and that goes below zero afterwards, a uniflow and a biflow defined by graphical functions, and
    # more than 3 inflows / outflows
    cases.append(gf_probe_case)
    for wi, (d, start) in enumerate(W2_SPECS):
        fd = Fraction(d[0]) if d[0] is not None else Fraction(1, d[1])
        n = 2 * d[1] if d[0] is None else 12
        stop = Fraction(start) + n * fd
        txt = str(stop.numerator) if stop.denominator == 1 else repr(float(stop))
        if Fraction(txt) != stop:
            continue
        if wi % 3 == 0:
            el = [("stock", ("L", 1.0), [1, 2], [3], False),
                  ("flow", True, ("*", ("L", 0.25), ("R", 0))), ("flow", False, ("L", 0.3)), ("flow", True, ("*", ("L", 0.1), ("R", 0)))]
        elif wi % 3 == 1:
            el = [("stock", ("-", ("L", 0.5), ("L", 2.0)), [1], [2], True),
                  ("gflow", True, ("-", ("T",), ("L", float(Fraction(start)))), [(0.0, -1.0), (0.5, 0.25), (2.0, 3.0)], ("xpts",)),
                  ("gflow", False, ("R", 0), [(-5.0, 2.0), (0.0, 1.0), (5.0, -2.0)], ("scale", -5.0, 5.0))]
        else:
            el = [("stock", ("L", 2.0), [1, 2, 3, 4, 5], [6, 7, 8, 9], wi % 2 == 0)]
            for j in range(9):
                el.append(("flow", j % 2 == 0, ("*", ("L", LITS[j % len(LITS)]), ("R", 0)) if j % 4 == 0 else ("L", LITS[(j + 5) % len(LITS)])))
        cases.append(Case(el, start, txt, d, n))
    # wave 6, in BOTH tiers: an auxiliary and a flow defined by a skewed graphical function, swept through below-range, every knot,
    # every segment and above-range by the linear input lo - 1 + TIME / 2 (dt 1), feeding a stock (Euler reference, XMILE = DSL)
    for xs, ys in SKEW_TABLES[:5] if chk.quick else SKEW_TABLES:
        pts = list(zip(map(float, xs), map(float, ys)))
        n = int(2 * (xs[-1] - xs[0] + 2))
        half = ("*", ("T",), ("L", 0.5))
        inp = ("+", half, ("L", float(xs[0] - 1))) if xs[0] - 1 >= 0 else ("-", half, ("L", float(1 - xs[0])))
        el = [("stock", ("L", 0.0), [2], [3], False), ("gf", inp, pts, ("xpts",)), ("flow", False, ("R", 1)),
              ("gflow", True, ("-", inp, ("L", 0.25)), pts, ("xpts",))]
        cases.append(Case(el, "0", str(n), ("1", None), n))
    while len(cases) < ncases:
        start, stop, d, n = grid_spec(rng, chk.quick)
        cases.append(Case(gen_graph(rng), start, stop, d, n))

    req, meta = [], []
    dist = {"dt": {}, "start": {}, "stocks": {}, "flows_in_out": {}, "gf": 0, "uniflow": 0, "biflow": 0, "grid_points": 0,
            "nonneg_stocks": 0, "nonneg_stocks_clamped_at_start": 0, "nonneg_stocks_below_zero_later": 0,
            "gf_uniflow": 0, "gf_biflow": 0}
    keys_fail = None
    first_fail = None
    corr_fail = None
    results = []
    for ci, c in enumerate(cases):
        try:
            ev = evaluate_case(c, scratch, want_dsl=True, want_down=(ci % 4 == 0), bp=bp)
        except Exception as ex:       # the real compiler / generated class / DSL raised on a well-formed model
            import traceback
            tb = traceback.format_exc().strip().splitlines()
            if first_fail is None and (flow_gf_ok or not any(e[0] == "gflow" for e in c.elems)):
                first_fail = (c, ("impl-exception", f"compiling or simulating the model raised {type(ex).__name__}: {ex} ({tb[-3].strip() if len(tb) > 2 else ''})",
                                  {"exception": repr(ex), "traceback": tb[-6:]}))
            results.append(None)
            chk.case(c.canon(), nontrivial=True, sample={"dt": dt_name(c.d), "start": c.start, "stop": c.stop, "raised": repr(ex)[:200]})
            continue
        results.append(ev)
        dist["dt"][dt_name(c.d)] = dist["dt"].get(dt_name(c.d), 0) + 1
        dist["start"][c.start] = dist["start"].get(c.start, 0) + 1
        if keys_fail is None and ev.get("keys_bad"):
            keys_fail = (ci, c, ev["keys_bad"])
        ns = sum(1 for e in c.elems if e[0] == "stock")
        dist["stocks"][ns] = dist["stocks"].get(ns, 0) + 1
        for e in c.elems:
            if e[0] == "stock":
                kk = f"{len(e[2])}/{len(e[3])}"
                dist["flows_in_out"][kk] = dist["flows_in_out"].get(kk, 0) + 1
                if stock_nn(e):
                    si = c.elems.index(e)
                    dist["nonneg_stocks"] += 1
                    col = [r[si] for r in ev["xm"]]
                    if col and col[0] == 0.0 and e[1][0] == "-":
                        dist["nonneg_stocks_clamped_at_start"] += 1
                    if any(x < 0 for x in col[1:]):
                        dist["nonneg_stocks_below_zero_later"] += 1
            elif e[0] == "gf":
                dist["gf"] += 1
            elif e[0] == "gflow":
                dist["gf_uniflow" if e[1] else "gf_biflow"] += 1
            elif e[0] == "flow":
                dist["uniflow" if e[1] else "biflow"] += 1
        dist["grid_points"] += len(ev["labels"])
        binary = c.d[0] in ("1", "0.5", "0.25", "0.125") or c.d[1] in (2, 4, 8)
        chk.case(c.canon(), nontrivial=(not binary) or ns >= 2,
                 sample={"dt": dt_name(c.d), "start": c.start, "stop": c.stop, "xmile_eqns": [ex_xmile(el_eq(e)) for e in c.elems][:6]})
        if first_fail is None and (flow_gf_ok or not any(e[0] == "gflow" for e in c.elems)):
            sf = spec_failure(c, ev)
            if sf is not None:
                first_fail = (c, sf)
        req.append(sim_line(c.elems, c.dt, ev["labels"]))
        meta.append(("sim", ci))
        req.append(chk_line(c.elems, ev["texts"]))
        meta.append(("chk", ci))
    chk.cov["input_distribution"] = dist
    # wave 2: stock skeletons with more than 3 inflows/outflows, decided by the driver's skeletonTextOK
    big = probe_skeleton_shapes(large_shapes(chk.quick))
    for bi, (ni, no, _text, words) in enumerate(big):
        req.append(f"skel|{ni}|{no}|" + " ".join(words))
        meta.append(("skel", bi))
    chk.cov["large_skeleton_shapes_checked_by_driver"] = [f"{a}/{b}" for a, b, _, _ in big]
    bignn = probe_skeleton_shapes([(0, 0), (1, 0), (0, 1), (2, 2), (3, 1), (5, 4), (12, 12)], nonneg=True)
    for bi, (ni, no, _text, words) in enumerate(bignn):
        req.append(f"skelnn|{ni}|{no}|" + " ".join(words))
        meta.append(("skelnn", bi))
    model = drive("C04", req)
    chk.cov["traces_validated_against_impl"] = len(cases)
    ngrid_bad = sum(1 for ev in results if ev is not None and not ev["grid_ok"])
    chk.cov["grids_not_exact_reported_under_C05"] = ngrid_bad
    chk.cov["run_scenarios_rows_beyond_stop_reported_under_C05"] = sum(ev.get("xm_bptk_extra", 0) + ev.get("dsl_bptk_extra", 0) for ev in results if ev is not None)
    n_tol = 0
    for (kind, ci), reply in zip(meta, model):
        if corr_fail is not None:
            break
        if kind in ("skel", "skelnn"):
            if reply != "ok":
                ni, no, text, _ = (big if kind == "skel" else bignn)[ci]
                corr_fail = ("skeleton-large", f"StockExpressions text for {ni} inflows / {no} outflows is not the intended skeleton "
                             f"(Bptk.C04.skeletonTextOK answers {reply!r}): {text[:300]}", {"nin": ni, "nout": no, "text": text, "reply": reply})
            continue
        c, ev = cases[ci], results[ci]
        if not flow_gf_ok and any(e[0] == "gflow" for e in c.elems):
            continue      # already reported with its own key (xmile-flow-gf-ignored) and a concrete input
        if kind == "chk":
            if reply != "ok":
                idx = int(reply.split()[1]) if reply.startswith("diff") else -1
                corr_fail = ("equation-text", f"case {ci}: the Python text emitted for {nm(idx)} does not denote the model's code: {ev['texts'][idx] if idx >= 0 else reply!r}",
                             {"case": c.to_json(), "elem": idx, "text": ev["texts"][idx] if idx >= 0 else None, "reply": reply})
            continue
        if reply == "bad-op":
            corr_fail = ("driver", f"case {ci}: driver rejected the model", {"case": c.to_json()})
            continue
        rows = [[(from_fbits(x) if x != "ERR" else None) for x in r.split(",")] for r in reply.split(";")]
        has_gf = any(el_table(e) is not None for e in c.elems)
        model_rows = [[(x if x is not None else 0.0) for x in r] for r in rows]
        K = nonfinite_index(model_rows, *[ev[w] for w in ("xm", "dsl", "xm_down", "xm_bptk", "dsl_bptk") if w in ev])
        if K < len(ev["labels"]):
            OUT_OF_DOMAIN["cases"] += 1
            OUT_OF_DOMAIN["rows"] += len(ev["labels"]) - K
        for which in ("xm", "dsl", "xm_down", "xm_bptk", "dsl_bptk"):
            if which not in ev:
                continue
            a = ev[which]
            bad = None
            for k in range(min(len(a), K)):
                for i in range(len(a[k])):
                    mv = rows[k][i] if k < len(rows) and i < len(rows[k]) else None
                    if mv is None or fbits(mv) != fbits(a[k][i]):
                        if has_gf and mv is not None and math.isclose(mv, a[k][i], rel_tol=1e-12, abs_tol=1e-12):
                            n_tol += 1
                            continue
                        bad = (k, i, mv, a[k][i])
                        break
                if bad:
                    break
            if bad:
                corr_fail = ("values", f"case {ci} ({which}): Lean euler and implementation differ at element {nm(bad[1])}, grid index {bad[0]}: model {bad[2]!r} impl {bad[3]!r}",
                             {"case": c.to_json(), "which": which, "k": bad[0], "elem": bad[1], "model": bad[2], "impl": bad[3]})
                break
        if not ev["points_ok"] and corr_fail is None:
            corr_fail = ("gf-points", f"case {ci}: points of a graphical function differ from the XMILE document", {"case": c.to_json()})
    chk.cov["values_compared_with_tolerance_because_of_scipy_interp"] = n_tol
    chk.cov["out_of_domain_nonfinite"] = dict(OUT_OF_DOMAIN, rule="from the first grid index at which any route (Lean, XMILE, DSL, Python Euler) holds nan/inf, a case is outside the value oracle's domain")

    # ---- decide
    if first_fail is not None:
        c, (key, text, detail) = first_fail

        def fails(cc):
            e2 = evaluate_case(cc, scratch, want_dsl=(key == "dsl-not-euler"), want_down=(key == "xmile-route-dependent"),
                               bp=(bp if detail.get("which", "").endswith("_bptk") else None))
            s2 = spec_failure(cc, e2)
            return s2 is not None and s2[0] == key
        if key == "impl-exception":
            small, sf = c, (key, text, detail)
        else:
            try:
                small = shrink_case(c, fails)
            except Exception:
                small = c
            ev = evaluate_case(small, scratch, want_dsl=True, want_down=True, bp=bp)
            sf = spec_failure(small, ev) or (key, text, detail)
        chk.add_finding(sf[0], sf[1], {"case": small.to_json(), "xmile": xmile_doc(small.elems, small.start, small.stop, small.d),
                                       "detail": sf[2], "dt": dt_name(small.d)})
    elif rs_fail is not None:
        chk.add_finding("xmile-scenario-runspecs", f"XMILE model (<sim_specs> start 0 stop 2 dt 0.25) run through scenario {rs_fail['scenario']!r} with runspecs "
                        f"{rs_fail['runspecs']} ({rs_fail['run']} run): {rs_fail['problem']}", rs_fail)
    elif not shapes_ok:
        f = shapes_detail["first"]
        chk.add_finding("xmile-name-or-module-shape", f"the same stock/flow graph written with {f['variant']} ({f['dt_xml']}): stock {f['key']} = "
                        f"{shapes_detail[f['variant'] + '@' + ('0.1' if '0.1' in f['dt_xml'] else '0.25')]}", {"kind": "shape", **f})
    elif lerp_fail is not None:
        chk.add_finding("xmile-lerp-segment", f"generated LERP({lerp_fail['x']!r}, {lerp_fail['points']}) = {lerp_fail['observed']!r}, linear interpolation on the segment "
                        f"that holds x gives {lerp_fail['expected']!r}", {"kind": "lerp", **lerp_fail})
    elif not flow_gf_ok:
        q, t, got, want = bad_gf[0]
        chk.add_finding("xmile-flow-gf-ignored", f"probe: flow {q} defined by a graphical function: value at t={t!r} is {got!r}, "
                        f"the graphical function of its equation gives {want!r} (the <gf> of a <flow> is dropped by the transpiler)",
                        {"case": gf_probe_case.to_json(), "xmile": xmile_doc(gf_probe_case.elems, gf_probe_case.start, gf_probe_case.stop, gf_probe_case.d),
                         "detail": {"bad": bad_gf[:5]}, "dt": "1"})
    elif not normalises:
        lab, got, want = bad_probe[0]
        chk.add_finding("xmile-not-euler", f"probe: stock with inflow 1, dt 0.1: S({lab!r}) = {got!r}, Euler gives {want!r}",
                        {"case": probe_case.to_json(), "detail": {"bad": bad_probe[:5]}, "dt": "0.1"})
    have_input = first_fail is not None or not flow_gf_ok or not normalises or lerp_fail is not None or not shapes_ok or rs_fail is not None      # a finding with a concrete failing input was reported above
    if (skel_bad or not builder_ok) and not have_input:
        a, b, text = (skel_bad or bld_tok_bad or [(x[0], x[1], x[4]) for x in bld_bad])[0]
        chk.add_finding("obligation", f"StockExpressions no longer builds the modelled net-flow node ({a} inflows / {b} outflows: {text[:200]}); "
                        "kernel proved xmile_builder_not_ok / xmile_skeleton_not_ok, and no generated graph showed a wrong trajectory",
                        {"theorem": "Bptk.C04.Gen.xmile_builder_not_ok", "builder_probe": chk.notes["builder_probe"]}, found_input=False)
    if not ok:
        chk.add_finding("obligation", f"proof obligations of C04 no longer check: {why}",
                        {"theorem": "Bptk.C04.Gen.xmile_skeleton_ok / holds", "detail": why,
                         "skeletons": {f"{a}in{b}out": t for a, b, t, _ in skels}}, found_input=False)
    if corr_fail is not None and not have_input:
        chk.add_finding("correspondence", corr_fail[1], dict(corr_fail[2], stream=corr_fail[0]), found_input=False)
    elif keys_fail is not None and not have_input:
        ci, c, kb = keys_fail
        chk.add_finding("correspondence", f"case {ci}: the time keys of the generated memoize leave the grid (GridOK hypothesis of "
                        f"xmile_run_eq_euler / gridOK_of_C05 fails on doubles): {kb}", {"case": c.to_json(), "stream": "grid-keys", "detail": kb},
                        found_input=False)


def replay(path):
    quiet_bptk_logging()
    import warnings
    warnings.filterwarnings("ignore")
    r = json.load(open(path))["replay"]
    if r.get("kind") == "scenario-runspecs":
        import BPTK_Py
        scratch = scratch_dir("bptkc04r")
        cwd = os.getcwd()
        bp = None
        try:
            os.chdir(scratch)
            sys.path.insert(0, scratch)
            write_runspec_project(scratch)
            bp = BPTK_Py.bptk()
            fail, notes = check_runspec_scenarios(bp, only=r["scenario"])
            print(f"scenario {r['scenario']!r} runspecs {r['runspecs']} over <sim_specs> {r['file_spec']}: {notes}")
            return 1 if fail else 0
        finally:
            try:
                if bp is not None:
                    bp.destroy()
            except Exception:
                pass
            os.chdir(cwd)
            if scratch in sys.path:
                sys.path.remove(scratch)
            import shutil
            shutil.rmtree(scratch, ignore_errors=True)
    if r.get("kind") == "shape":
        scratch = scratch_dir("bptkc04r")
        cwd = os.getcwd()
        try:
            os.chdir(scratch)
            ok_, detail = probe_shapes(scratch)
            print({k: v for k, v in detail.items() if k != "first"})
            return 0 if ok_ else 1
        finally:
            os.chdir(cwd)
            import shutil
            shutil.rmtree(scratch, ignore_errors=True)
    if r.get("kind") == "lerp":
        scratch = scratch_dir("bptkc04r")
        cwd = os.getcwd()
        try:
            os.chdir(scratch)
            mod, _ = compile_xmile_model(PROBE_ELEMS, "0", "1", ("1", None), scratch)
            pts = [tuple(p) for p in r["points"]]
            want = py_lerp(pts, r["x"])
            try:
                got = float(mod.LERP(r["x"], pts))
            except BaseException as ex:
                got = f"{type(ex).__name__}: {ex}"
            print(f"generated LERP({r['x']!r}, {pts}) = {got!r}; linear interpolation on the segment that holds x: {want!r}")
            return 0 if isinstance(got, float) and math.isclose(got, want, rel_tol=1e-12, abs_tol=1e-12) else 1
        finally:
            os.chdir(cwd)
            import shutil
            shutil.rmtree(scratch, ignore_errors=True)
    if "case" not in r:
        print("replay file names an obligation / correspondence, no concrete input:", json.dumps(r)[:600])
        return 1
    c = Case.from_json(r["case"])
    scratch = scratch_dir("bptkc04r")
    try:
        print(f"start {c.start} stop {c.stop} dt {dt_name(c.d)}; elements: {[e[0] + ('!' if (e[0] == 'stock' and stock_nn(e)) or (e[0] in ('flow', 'gflow') and e[1]) else '') for e in c.elems]}")
        try:
            ev = evaluate_case(c, scratch, want_dsl=True, want_down=True)
        except Exception as ex:
            print(f"on the current tree: compiling or simulating the model raises {type(ex).__name__}: {ex}")
            return 1
        sf = spec_failure(c, ev)
        print("xmile equations:", [ex_xmile(el_eq(e)) for e in c.elems])
        print(f"start {c.start} stop {c.stop} dt {dt_name(c.d)}")
        print("on the current tree:", sf if sf else "explicit Euler at every grid point")
        return 1 if sf else 0
    finally:
        import shutil
        shutil.rmtree(scratch, ignore_errors=True)
