"""C02 — SD DSL expressions keep the grouping of the Python expression that built them.

translate: probe every operator class of the C02 vocabulary (+ array aggregates) with placeholder
operands -> lean/Bptk/Gen/C02Table.lean;  obligations: tableOK / specOK / vocabOK by `decide +kernel`;
correspondence: generated expression trees — real term text vs `render` of the Lean model, Lean parser
vs CPython `ast.parse`, `denote` vs parse; reference check: real value vs ordinary Python arithmetic."""
import inspect, math, json
import numpy as np
from common import *
import pyfrag

L = 6
VOCAB_BIN = {"add": "AdditionOperator", "sub": "SubtractionOperator", "mul": "MultiplicationOperator",
             "div": "DivisionOperator", "mod": "ModOperator", "pow": "PowerOperator"}
CMP = [">", "<", ">=", "<=", "==", "!="]


def env():
    """scratch model with scalar constants and sample arrays (values chosen so that regroupings change results)"""
    from BPTK_Py import Model
    m = Model(0, 5, 1, name="c02")
    vals = {"a": 7.0, "b": 3.0, "c": 2.0, "d": 5.0, "e": 11.0}
    els = {}
    for n, v in vals.items():
        els[n] = m.constant(n)
        els[n].equation = v
    # operands of every element KIND (the overloads live on Element, but Flow/Stock/Converter/Biflow are separate classes):
    # a flow (4.0), a flow whose equation is negative (clamped: 0.0 — a falsy value), a biflow (-4.0), a stock (6.0 at any time,
    # no inflow), a converter holding a compound equation (a + b = 10.0)
    fl = m.flow("fl"); fl.equation = els["a"] - els["b"]; vals["fl"] = 4.0
    fz = m.flow("fz"); fz.equation = els["b"] - els["a"]; vals["fz"] = 0
    bf = m.biflow("bf"); bf.equation = els["b"] - els["a"]; vals["bf"] = -4.0
    st = m.stock("st"); st.initial_value = 6.0; vals["st"] = 6.0
    cvx = m.converter("cvx"); cvx.equation = els["a"] + els["b"]; vals["cvx"] = 10.0
    els.update({"fl": fl, "fz": fz, "bf": bf, "st": st, "cvx": cvx})
    v = m.constant("v"); v.setup_vector(3, [2.0, 3.0, 5.0])
    w = m.constant("w"); w.setup_vector(3, [7.0, 11.0, 13.0])
    mm = m.constant("mm"); mm.setup_matrix([2, 2], [[2.0, 3.0], [5.0, 7.0]])
    arrs = {"v": (v, [2.0, 3.0, 5.0]), "w": (w, [7.0, 11.0, 13.0]), "mm": (mm, [2.0, 3.0, 5.0, 7.0])}
    return m, els, vals, arrs


def make_ph():
    import BPTK_Py.sddsl.operators as O

    class PH(O.Operator):
        def __init__(self, i):
            super().__init__()
            self.i = i
            self.times = []
        def term(self, time="t"):
            self.times.append(time)
            return f"__h{self.i}__"
    return PH


def probe_table():
    """returns (entries, attrmap, extended, problems): entries = [(cls_key, arity, words)] of the C02 table."""
    import BPTK_Py.sddsl.operators as O
    PH = make_ph()
    m, els, vals, arrs = env()
    entries, attrmap, problems = [], {}, []
    built = {}

    def add(key, obj, phs):
        built[key] = obj
        try:
            text = obj.term("t")
            words = pyfrag.lex(text)
        except Exception as ex:
            problems.append((key, f"{type(ex).__name__}: {ex}"))
            return
        amap = []
        for ph in phs:
            found = None
            for an, av in vars(obj).items():
                if av is ph or (type(av) is O.UnaryOperator and av.element is ph):
                    found = an
            amap.append(found)
        attrmap[key] = amap
        entries.append((key, len(phs), words))

    def mk(cls, n, *extra):
        phs = [PH(i) for i in range(n)]
        return cls(*phs, *extra), phs

    for k, cn in VOCAB_BIN.items():
        o, p = mk(getattr(O, cn), 2); add(cn, o, p)
    o, p = mk(O.NumericalMultiplicationOperator, 2); add("NumericalMultiplicationOperator", o, p)
    for s in CMP:
        o, p = mk(O.ComparisonOperator, 2, s); add(f"ComparisonOperator[{s}]", o, p)
    for cn, n in [("If", 3), ("And", 2), ("Or", 2), ("Not", 1), ("AbsOperator", 1), ("MaxOperator", 2), ("MinOperator", 2),
                  ("Exp", 1), ("Sqrt", 1), ("Round", 2), ("Sin", 1), ("Cos", 1), ("Tan", 1), ("Arcsin", 1), ("Arccos", 1),
                  ("Arctan", 1)]:
        o, p = mk(getattr(O, cn), n); add(cn, o, p)
    # array aggregates on the sample arrays (arity 0: their text mentions the array's own elements)
    for an, (el, _) in arrs.items():
        for meth, cn in [("arr_sum", "ArraySumOperator"), ("arr_prod", "ArrayProductOperator"), ("arr_mean", "ArrayMeanOperator"),
                         ("arr_median", "ArrayMedianOperator"), ("arr_stddev", "ArrayStandardDeviationOperator"),
                         ("arr_size", "ArraySizeOperator")]:
            add(f"{cn}@{an}", getattr(el, meth)(), [])
        add(f"ArrayRankOperator@{an}", el.arr_rank(2), [])
    add("DotOperator@v.w", arrs["v"][0].dot(arrs["w"][0]), [])
    # extended (informational): every other Operator subclass that can be instantiated generically
    extended = []
    known = {e[0].split("[")[0].split("@")[0] for e in entries}
    for name, cls in sorted(vars(O).items()):
        if not (inspect.isclass(cls) and issubclass(cls, O.Operator)) or name in known:
            continue
        if name in ("Operator", "Function", "BinaryOperator", "UnaryOperator", "NaryOperator", "DotOperator"):
            continue
        try:
            params = [p for p in inspect.signature(cls.__init__).parameters.values() if p.name != "self"]
            args, phs = [], []
            for p in params:
                if p.kind in (p.VAR_POSITIONAL, p.VAR_KEYWORD) or p.name in ("index", "arrayed", "allow_different_sized_arrays"):
                    continue
                if p.name == "model":
                    args.append(m)
                elif p.name == "points":
                    args.append("tbl")
                else:
                    ph = PH(len(phs)); phs.append(ph); args.append(ph)
            if name in ("Pulse",):
                args = [m, phs[0], 2.0, 3.0]; phs = phs[:1]
            obj = cls(*args)
            words = pyfrag.lex(obj.term("t"))
            extended.append((name, len(phs), words))
            built[name] = obj
        except Exception as ex:
            problems.append((name, f"{type(ex).__name__}: {str(ex)[:80]}"))
    try:
        m2, els2, _, _ = env()
        PH2 = make_ph()
        from BPTK_Py.sddsl.operators import Pulse
        ph = PH2(0)
        extended.append(("Pulse[first]", 1, pyfrag.lex(Pulse(m2, ph, 2.0, 0.0).term("t"))))
    except Exception as ex:
        problems.append(("Pulse[first]", str(ex)[:80]))
    probe_table.built = built
    probe_table.element = els["a"]
    return entries, attrmap, extended, problems


def probe_negated(built, element):
    """unary minus as a BUILD step: for every operator class (and a plain element) the text of `-e`, `-(-e)`, `-(-(-e))`
    with the text of `e` itself replaced by hole 0.  Returns {n: [(key, 1, words)]}, problems."""
    rows, problems = {1: [], 2: [], 3: []}, []
    for key, obj in [("Element", element)] + sorted(built.items()):
        try:
            mine = pyfrag.lex(obj.term("t"))
            cur = obj
            for n in (1, 2, 3):
                cur = -cur
                words = pyfrag.lex(cur.term("t"))
                # the operand is the innermost = LAST occurrence of its own text (a class whose text is a bare number,
                # e.g. DT -> `1.0`, also occurs inside the literal `-1.0`)
                pos = [i for i in range(len(words) - len(mine) + 1) if words[i:i + len(mine)] == mine]
                out = words[:pos[-1]] + ["H0"] + words[pos[-1] + len(mine):] if pos else words
                rows[n].append((key, 1, out))
        except Exception as ex:
            problems.append((key, f"{type(ex).__name__}: {str(ex)[:80]}"))
    return rows, problems


FORWARD = {"__add__": ("+", "add"), "__sub__": ("-", "sub"), "__mul__": ("*", "mul"), "__truediv__": ("/", "div"), "__mod__": ("%", "mod"),
           "__pow__": ("**", "pow"), "__gt__": (">", "gt"), "__lt__": ("<", "lt"), "__ge__": (">=", "ge"), "__le__": ("<=", "le"),
           "__eq__": ("==", "eq"), "__ne__": ("!=", "ne")}


def probe_forward(built, element):
    """every forward overload `e X 7.5` as a BUILD step, on an instance of every operator class (placeholder operands), on the
    two-operand classes with a NUMBER as one operand (so that a rewrite keyed on literals is reached) and on a plain element;
    the text of `e` itself becomes hole 0, the literal hole 1.  Returns {method: [(key, 2, words)]}, problems"""
    import BPTK_Py.sddsl.operators as O
    PH = make_ph()
    subjects = [("Element", element)] + sorted(built.items())
    for cn in ["AdditionOperator", "SubtractionOperator", "MultiplicationOperator", "DivisionOperator", "ModOperator", "PowerOperator",
               "NumericalMultiplicationOperator", "MaxOperator", "MinOperator"]:
        for lit in (2.0, 2, 0.5, -1.0):
            subjects.append((f"{cn}(h,{lit})", getattr(O, cn)(PH(0), lit)))
            subjects.append((f"{cn}({lit},h)", getattr(O, cn)(lit, PH(0))))
    subjects.append(("ComparisonOperator(h,2.0)", O.ComparisonOperator(PH(0), 2.0, ">")))
    rows, problems = {mn: [] for mn in FORWARD}, []
    for key, obj in subjects:
        for mn in FORWARD:
            meth = getattr(type(obj), mn, None)
            if meth is None or meth is getattr(object, mn, None):
                continue
            try:
                res = meth(obj, 7.5)
                if res is NotImplemented:
                    continue
                words = pyfrag.lex(res.term("t"))
                mine = pyfrag.lex(obj.term("t"))
                pos = [i for i in range(len(words) - len(mine) + 1) if words[i:i + len(mine)] == mine]
                if pos:
                    words = words[:pos[-1]] + ["H0"] + words[pos[-1] + len(mine):]
                lit = [i for i, w in enumerate(words) if w == "N7.5"]
                if lit:
                    words = words[:lit[-1]] + ["H1"] + words[lit[-1] + 1:]
                rows[mn].append((key, 2, words))
            except Exception as ex:
                problems.append((f"{key}.{mn}", f"{type(ex).__name__}: {str(ex)[:80]}"))
    return rows, problems


def same_op_trees():
    """nestings of the SAME binary operator with number literals on both levels — (x op k1) op k2, k1 op (k2 op x),
    (k1 op x) op k2, x op (k1 op k2)-free — over operands that are positive, negative and zero at run time, with integer /
    fractional, even / odd, positive / negative literals.  A build-time identity ((x^m)^n = x^(mn), (x/k1)/k2 = x/(k1 k2),
    (x-k1)-k2 = x-(k1+k2), (x%k1)%k2 …) applied outside its domain changes the value."""
    a, b = ("el", "a"), ("el", "b")
    xs = [a, ("sub", b, a), ("sub", a, a), ("neg", a), ("mul", ("sub", b, a), ("num", 0.5)), ("agg", "arr_sum", "v")]
    k1s = [2, 2.0, 3, 0.5, -1.0, 4, 1.5]
    k2s = [0.5, 2, 3.0, -2, 1.5, 0.25]
    out = []
    for op in BIN:
        for x in xs:
            for k1 in k1s:
                for k2 in k2s:
                    out.append((op, (op, x, ("num", k1)), ("num", k2)))            # (x op k1) op k2
                    out.append((op, ("num", k1), (op, ("num", k2), x)))            # k1 op (k2 op x)
                    out.append((op, (op, ("num", k1), x), ("num", k2)))            # (k1 op x) op k2
    return out


def is_negn(sx, n):
    """Python twin of Lean `isNegN`: the S-expression is n nested `(-1.0) * …` around hole 0"""
    for _ in range(n):
        for lit in ("1.0", "1"):
            pre = f"(* (neg (num {lit})) "
            if sx.startswith(pre) and sx.endswith(")"):
                sx = sx[len(pre):-1]
                break
        else:
            return False
    return sx == "(hole 0)"


REFLECTED = {"__radd__": "+", "__rsub__": "-", "__rmul__": "*", "__rtruediv__": "/", "__rmod__": "%", "__rpow__": "**"}


def probe_reflected():
    """every reflected binary overload `__rX__` defined on Element / Operator, called with placeholder operands:
    hole 0 = self, hole 1 = other (the LEFT operand of `other X self`).  Returns (rows, unspecified):
    rows = [(key, 2, words, expected_sexp)]"""
    import re
    import BPTK_Py.sddsl.operators as O
    from BPTK_Py.sddsl.element import Element
    PH = make_ph()
    m, els, vals, arrs = env()
    rows, unspecified, problems = [], [], []
    for owner, cls in (("Element", Element), ("Operator", O.Operator)):
        for name in sorted(n for n in dir(cls) if re.fullmatch(r"__r[a-z]+__", n) and n not in ("__repr__", "__reduce__", "__reduce_ex__")):
            meth = getattr(cls, name, None)
            if meth is None or getattr(object, name, None) is meth:
                continue
            key = f"{owner}.{name}"
            if name not in REFLECTED:
                unspecified.append(key)
                continue
            try:
                other = PH(1)
                if owner == "Element":
                    me = els["a"]
                    words = pyfrag.lex(meth(me, other).term("t"))
                    mine = pyfrag.lex(me.term("t"))
                    out, i = [], 0
                    while i < len(words):
                        if words[i:i + len(mine)] == mine:
                            out.append("H0"); i += len(mine)
                        else:
                            out.append(words[i]); i += 1
                    words = out
                else:
                    words = pyfrag.lex(meth(PH(0), other).term("t"))
            except Exception as ex:
                problems.append((key, f"{type(ex).__name__}: {str(ex)[:80]}"))
                continue
            # `other X self`; for the commutative + and * also `self X other` (2.0 * a is built as a * 2.0)
            exp = [f"({REFLECTED[name]} (hole 1) (hole 0))"] + ([f"({REFLECTED[name]} (hole 0) (hole 1))"] if REFLECTED[name] in "+*" else [])
            rows.append((key, 2, words, exp))
    return rows, unspecified, problems


# ------------------------------------------------------------------ generator trees and their three readings
# G-tree: ("num", v) | ("el", name) | ("agg", kind, arr) | (op, child, ...)
BIN = ["add", "sub", "mul", "div", "pow", "mod"]
CMPN = {"gt": ">", "lt": "<", "ge": ">=", "le": "<=", "eq": "==", "ne": "!="}
UN = ["neg", "abs", "sqrt", "exp", "not"]
FN2 = ["min", "max", "and", "or"]
AGG = ["arr_sum", "arr_prod", "arr_mean", "arr_median", "arr_stddev", "arr_size", "arr_rank", "dot"]


class Reject(Exception):
    pass


def ref_eval(g, vals, arrs):
    """ordinary Python arithmetic on the operand values — the right-hand side of C02."""
    k = g[0]
    if k == "num": return g[1]
    if k == "el": return vals[g[1]]
    if k == "agg":
        a = arrs[g[2]][1]
        if g[1] == "arr_sum":
            s = a[0]
            for x in a[1:]: s = s + x
            return s
        if g[1] == "arr_prod":
            s = a[0]
            for x in a[1:]: s = s * x
            return s
        # numpy scalars on purpose: the DSL's aggregates ARE np.mean/np.median/np.std, and numpy typing (np.bool_ + bool
        # is a logical or) belongs to the operand values, not to the grouping
        if g[1] == "arr_mean": return np.mean(a)
        if g[1] == "arr_median": return np.median(a)
        if g[1] == "arr_stddev": return np.std(a)
        if g[1] == "arr_size": return len(a) if g[2] != "mm" else 2
        if g[1] == "arr_rank": return sorted(a, reverse=True)[1]
        if g[1] == "dot":
            x, y = arrs["v"][1], arrs["w"][1]
            s = x[0] * y[0]
            for i in range(1, len(x)): s = s + x[i] * y[i]
            return s
    c = [ref_eval(x, vals, arrs) if isinstance(x, tuple) else x for x in g[1:]]
    try:
        if k == "add": r = c[0] + c[1]
        elif k == "sub": r = c[0] - c[1]
        elif k == "mul": r = c[0] * c[1]
        elif k == "div": r = c[0] / c[1]
        elif k == "pow": r = c[0] ** c[1]
        elif k == "mod": r = c[0] % c[1]
        elif k in CMPN: r = {"gt": c[0] > c[1], "lt": c[0] < c[1], "ge": c[0] >= c[1], "le": c[0] <= c[1], "eq": c[0] == c[1], "ne": c[0] != c[1]}[k]
        elif k == "neg": r = (-1.0) * c[0]
        elif k == "abs": r = abs(c[0])
        elif k == "sqrt": r = c[0] ** (1 / 2)
        elif k == "exp": r = np.exp(c[0])
        elif k in ("sin", "cos", "tan", "arctan"): r = getattr(np, k)(c[0])
        elif k == "negshare":
            # v = <operand>; (-v) <op> v   — the SAME Python object used twice (an intermediate variable)
            return ref_eval((g[1], ("num", -1.0 * c[1]), ("num", c[1])), vals, arrs) if False else {"add": (-1.0 * c[1]) + c[1], "sub": (-1.0 * c[1]) - c[1], "mul": (-1.0 * c[1]) * c[1], "div": (-1.0 * c[1]) / c[1]}[g[1]]
        elif k == "not": r = not c[0]
        elif k == "min": r = min(c[0], c[1])
        elif k == "max": r = max(c[0], c[1])
        elif k == "and": r = c[0] and c[1]
        elif k == "or": r = c[0] or c[1]
        elif k == "if": r = c[1] if c[0] else c[2]
        elif k == "round": r = round(c[0], c[1] if len(c) > 1 else 2)
        else: raise Reject(k)
    except (ZeroDivisionError, OverflowError, ValueError, TypeError):
        raise Reject("domain")
    if isinstance(r, (complex, np.complexfloating)):
        raise Reject("range")
    if isinstance(r, (float, np.floating)):
        rf = float(r)
        if math.isnan(rf) or math.isinf(rf) or abs(rf) > 1e12:
            raise Reject("range")
        if rf != 0 and abs(rf) < 1e-9:
            raise Reject("tiny")
        if isinstance(r, np.floating) and r.dtype != np.float64:
            raise Reject("narrow-float")       # np.exp(bool) yields float16: numpy typing, not grouping
    return r


def build_real(g, els, arrs):
    """build the real DSL expression with Python operators / sd functions"""
    import BPTK_Py.sddsl.functions as sd
    k = g[0]
    if k == "num": return g[1]
    if k == "el": return els[g[1]]
    if k == "agg":
        if g[1] == "dot": return arrs["v"][0].dot(arrs["w"][0])
        if g[1] == "arr_rank": return arrs[g[2]][0].arr_rank(2)
        return getattr(arrs[g[2]][0], g[1])()
    c = [build_real(x, els, arrs) if isinstance(x, tuple) else x for x in g[1:]]
    if k in ("sin", "cos", "tan", "arctan"): return getattr(sd, k)(c[0])
    if k == "negshare":
        v = c[1]
        return {"add": lambda: (-v) + v, "sub": lambda: (-v) - v, "mul": lambda: (-v) * v, "div": lambda: (-v) / v}[g[1]]()
    if k == "add": return c[0] + c[1]
    if k == "sub": return c[0] - c[1]
    if k == "mul": return c[0] * c[1]
    if k == "div": return c[0] / c[1]
    if k == "pow": return c[0] ** c[1]
    if k == "mod": return c[0] % c[1]
    if k == "gt": return c[0] > c[1]
    if k == "lt": return c[0] < c[1]
    if k == "ge": return c[0] >= c[1]
    if k == "le": return c[0] <= c[1]
    if k == "eq": return c[0] == c[1]
    if k == "ne": return c[0] != c[1]
    if k == "neg": return -c[0]
    if k == "abs": return sd.abs(c[0])
    if k == "sqrt": return sd.sqrt(c[0])
    if k == "exp": return sd.exp(c[0])
    if k == "not": return sd.Not(c[0])
    if k == "min": return sd.min(c[0], c[1])
    if k == "max": return sd.max(c[0], c[1])
    if k == "and": return sd.And(c[0], c[1])
    if k == "or": return sd.Or(c[0], c[1])
    if k == "if": return sd.If(c[0], c[1], c[2])
    if k == "round": return sd.round(c[0], c[1] if len(c) > 1 else 2)
    raise Reject(k)


def gshow(g):
    k = g[0]
    if k == "num": return repr(g[1])
    if k == "el": return g[1]
    if k == "agg": return f"{g[2]}.{g[1]}()" if g[1] != "dot" else "v.dot(w)"
    return k + "(" + ", ".join(gshow(x) if isinstance(x, tuple) else str(x) for x in g[1:]) + ")"


def is_num(g):
    return g[0] == "num"


def extract_tree(obj, keyidx, attrmap):
    """E-tree (wire words) of a real operator object graph, by the attribute map found by the probe."""
    import BPTK_Py.sddsl.operators as O
    from BPTK_Py.sddsl.element import Element
    if type(obj) is O.UnaryOperator:
        obj = obj.element
    if isinstance(obj, Element):
        w = pyfrag.lex(obj.term("t"))
        return ["L", str(len(w))] + w
    if isinstance(obj, (int, float)) and not isinstance(obj, bool):
        w = pyfrag.lex(str(obj))
        return ["L", str(len(w))] + w
    cn = type(obj).__name__
    key = cn
    if cn == "ComparisonOperator":
        key = f"ComparisonOperator[{obj.sign}]"
    elif cn.startswith("Array"):
        key = f"{cn}@{obj.element.name}"
    elif cn == "DotOperator":
        key = "DotOperator@v.w"
    if key not in keyidx:
        raise Reject(f"class {key} not in table")
    out = ["N", str(keyidx[key]), str(len(attrmap[key]))]
    for an in attrmap[key]:
        if an is None:
            raise Reject(f"no attribute for a hole of {key}")
        out += extract_tree(getattr(obj, an), keyidx, attrmap)
    return out


def gen_tree(rng, depth, need_dsl=True):
    """random G-tree; `need_dsl`: the result must be a DSL object (not a bare number)"""
    if depth == 0 or rng.chance(1, 6):
        r = rng.below(10)
        if r < 6 or need_dsl and r < 8:
            return ("el", rng.choice(["a", "b", "c", "d", "e"]))
        if r < 8:
            return ("num", rng.choice([2.0, 3.0, 0.5, 4.0, 1.5, -2.0, 10.0]))
        return ("agg", rng.choice(AGG[:7]), rng.choice(["v", "w", "mm"])) if rng.chance(5, 6) else ("agg", "dot", "v")
    r = rng.below(20)
    if r < 11:
        op = rng.choice(BIN)
        if rng.chance(1, 5):
            # one numeric operand
            if rng.chance(1, 2):
                return (op, gen_tree(rng, depth - 1), ("num", rng.choice([2.0, 3.0, 0.5, -2.0])))
            return (op, ("num", rng.choice([2.0, 3.0, 0.5, 10.0])), gen_tree(rng, depth - 1))
        return (op, gen_tree(rng, depth - 1), gen_tree(rng, depth - 1))
    if r < 13:
        return (rng.choice(list(CMPN)), gen_tree(rng, depth - 1), gen_tree(rng, depth - 1))
    if r < 16:
        return (rng.choice(UN), gen_tree(rng, depth - 1))
    if r < 18:
        return (rng.choice(FN2), gen_tree(rng, depth - 1), gen_tree(rng, depth - 1))
    if r < 19:
        return ("if", (rng.choice(list(CMPN)), gen_tree(rng, depth - 1), gen_tree(rng, depth - 1)), gen_tree(rng, depth - 1), gen_tree(rng, depth - 1))
    return ("round", gen_tree(rng, depth - 1))


def exhaustive_trees(depth3):
    """the quadratic table: every outer operator × operand position × inner operator (depth 2),
    optionally one more level on a sample (depth 3)."""
    leaves = [("el", "a"), ("el", "b"), ("el", "c"), ("el", "d")]
    inner = []
    for op in BIN + list(CMPN) + FN2:
        inner.append((op, ("el", "b"), ("el", "c")))
    for op in UN:
        inner.append((op, ("el", "b")))
    inner.append(("if", ("gt", ("el", "b"), ("el", "c")), ("el", "d"), ("el", "e")))
    inner.append(("round", ("div", ("el", "b"), ("el", "c"))))
    inner += [("agg", k, "v") for k in AGG[:7]] + [("agg", "dot", "v"), ("agg", "arr_sum", "mm"), ("num", -2.0), ("num", 3.0)]
    inner.append(("mul", ("num", 2.0), ("el", "b")))
    out = []
    for op in BIN + list(CMPN) + FN2:
        for x in inner:
            out.append((op, x, ("el", "a")))
            out.append((op, ("el", "a"), x))
    for op in UN + ["round"]:
        for x in inner:
            out.append((op, x))
    for x in inner:
        out.append(("if", ("gt", x, ("el", "a")), ("el", "d"), ("el", "e")))
        out.append(("if", ("gt", ("el", "a"), ("el", "c")), x, ("el", "e")))
        out.append(("if", ("gt", ("el", "a"), ("el", "c")), ("el", "d"), x))
    if depth3:
        for op in BIN:
            for op2 in BIN:
                for op3 in BIN:
                    out.append((op, (op2, ("el", "a"), (op3, ("el", "b"), ("el", "c"))), ("el", "d")))
                    out.append((op, ("el", "d"), (op2, (op3, ("el", "a"), ("el", "b")), ("el", "c"))))
    return out


# ---- wave 3 (2): all trees of depth 3 over a reduced alphabet — one representative per precedence level and
# associativity class of the fragment (conditional 0, or 1, and 2, not 3, comparison 4, additive 5 [left], multiplicative 6
# [left; `/` and the separately templated `%`], unary minus 7, power 8 [right], call/primary) × all operand positions
ALPHA_BIN = ["or", "and", "gt", "sub", "div", "mod", "pow"]
ALPHA_UN = ["not", "neg", "abs"]


def alpha_slots():
    """(operator, arity, position) for every operand position of the reduced alphabet"""
    out = [(op, 2, p) for op in ALPHA_BIN for p in (0, 1)] + [(op, 1, 0) for op in ALPHA_UN]
    return out + [("if", 3, p) for p in (0, 1, 2)]


def leaf_for(op, i, name):
    # `%` exists on operator terms only (Element has no __mod__: `a % b` on two elements raises TypeError, see the
    # classification table), so the left leaf of the `%` representative is an aggregate term (v.arr_sum() = 10.0)
    return ("agg", "arr_sum", "v") if op == "mod" and i == 0 else ("el", name)


def plug(op, arity, pos, x, leaves):
    """operator node with `x` at operand position `pos` and leaves elsewhere"""
    it = iter(leaves)
    return (op,) + tuple(x if i == pos else leaf_for(op, i, next(it)) for i in range(arity))


def full(op, leaves):
    ar = 2 if op in ALPHA_BIN else 1 if op in ALPHA_UN else 3
    return (op,) + tuple(leaf_for(op, i, n) for i, n in enumerate(leaves[:ar]))


def depth3_trees():
    slots, ops = alpha_slots(), ALPHA_BIN + ALPHA_UN + ["if"]
    out = []
    for o1, a1, p1 in slots:                     # spines: outer[pos] ∘ middle[pos] ∘ inner
        for o2, a2, p2 in slots:
            for o3 in ops:
                out.append(plug(o1, a1, p1, plug(o2, a2, p2, full(o3, ["b", "c", "d"]), ["e", "a"]), ["a", "d"]))
    for o1 in ALPHA_BIN:                         # both operands compound
        for o2 in ops:
            for o3 in ops:
                out.append((o1, full(o2, ["a", "b", "e"]), full(o3, ["c", "d", "e"])))
    return out


# ---- wave 3 (3): the classification table of every (outer operator, operand position, inner form, kind of the other
# operand) — "nestings the DSL does not support are rejected with an exception, never evaluated to a different value"
def classification_cases():
    """[(row_label, inner_label, G-tree)]; rows = outer operator × position × other operand (element / number)."""
    inner = [("el", ("el", "b")), ("num", ("num", 3.0)), ("-num", ("num", -2.0)), ("neg(num)", ("neg", ("num", 2.0)))]
    for op in BIN + list(CMPN) + FN2:
        inner.append((f"b {op} c", (op, ("el", "b"), ("el", "c"))))
    for op in BIN + list(CMPN):                  # number-on-the-left forms: 2.0 ** b, 2.0 % b, 2.0 - b, 2.0 > b …
        inner.append((f"2.0 {op} b", (op, ("num", 2.0), ("el", "b"))))
    for op in BIN + list(CMPN):
        inner.append((f"b {op} 2.0", (op, ("el", "b"), ("num", 2.0))))
    for op in UN:
        inner.append((f"{op}(b)", (op, ("el", "b"))))
    inner.append(("if", ("if", ("gt", ("el", "b"), ("el", "c")), ("el", "d"), ("el", "e"))))
    inner.append(("round", ("round", ("div", ("el", "b"), ("el", "c")))))
    inner += [(f"v.{k}()", ("agg", k, "v")) for k in AGG[:7]] + [("v.dot(w)", ("agg", "dot", "v")), ("mm.arr_sum()", ("agg", "arr_sum", "mm"))]
    rows = []
    for op in BIN + list(CMPN) + FN2:
        for pos in (0, 1):
            for oname, other in (("el", ("el", "a")), ("num", ("num", 2.0))):
                rows.append((f"{op}[{pos}] other={oname}", lambda x, op=op, pos=pos, other=other: (op, x, other) if pos == 0 else (op, other, x)))
    for op in UN + ["round"]:
        rows.append((f"{op}[0]", lambda x, op=op: (op, x)))
    rows.append(("if[cond]", lambda x: ("if", x, ("el", "d"), ("el", "e"))))
    rows.append(("if[then]", lambda x: ("if", ("gt", ("el", "a"), ("el", "c")), x, ("el", "e"))))
    rows.append(("if[else]", lambda x: ("if", ("lt", ("el", "a"), ("el", "c")), ("el", "d"), x)))
    return [r for r, _ in rows], [i for i, _ in inner], [(r, i, mk(x)) for r, mk in rows for i, x in inner]


NUMBER_KINDS = [("int0", 0), ("float0", 0.0), ("int1", 1), ("int-1", -1), ("int2", 2), ("0.1", 0.1), ("1e-05", 1e-05), ("1e9", 1e9),
                ("-2.5", -2.5), ("123456.789012", 123456.789012), ("True", True), ("np.float64", np.float64(2.0)), ("np.int64", np.int64(2))]


def value_kind_trees():
    """[(row, G-tree)]: every overloaded binary operator × operand position × KIND of number (int / float / falsy 0 and 0.0 /
    negative / large / many decimals / bool / numpy scalars) against an element and a compound operand; the functions with
    numeric arguments (round digits 0..3, If branches 0 / 0.0, min/max/And/Or/Not with 0); and every element KIND (flow,
    clamped flow = 0, biflow, stock, converter with a compound equation) as left and right operand of every binary operator"""
    a, b = ("el", "a"), ("el", "b")
    comp = ("sub", a, b)
    out = []
    for kn, kv in NUMBER_KINDS:
        for op in BIN + list(CMPN):
            for other in (a, comp):
                out.append((f"number:{kn}", (op, other, ("num", kv))))
                out.append((f"number:{kn}", (op, ("num", kv), other)))
        out.append((f"number:{kn}", ("if", ("gt", a, b), ("num", kv), b)))
        out.append((f"number:{kn}", ("if", ("lt", a, b), a, ("num", kv))))
        for f in ("min", "max", "and", "or"):
            out.append((f"number:{kn}", (f, a, ("num", kv)))); out.append((f"number:{kn}", (f, ("num", kv), comp)))
        out.append((f"number:{kn}", ("mul", ("neg", ("mul", a, ("num", kv))), b)))
    for dg in (0, 1, 2, 3):
        out.append((f"round-digits:{dg}", ("round", ("div", a, b), dg)))
        out.append((f"round-digits:{dg}", ("sub", b, ("round", ("mul", ("div", a, b), ("num", 10.0)), dg))))
    for kind in ("fl", "fz", "bf", "st", "cvx"):
        e = ("el", kind)
        for op in BIN + list(CMPN):
            out.append((f"element:{kind}", (op, e, b))); out.append((f"element:{kind}", (op, a, e)))
            out.append((f"element:{kind}", (op, ("add", e, a), ("num", 2.0)))); out.append((f"element:{kind}", (op, ("num", 2.0), e)))
        for f in ("neg", "abs", "not"):
            out.append((f"element:{kind}", (f, e)))
        out.append((f"element:{kind}", ("if", e, a, b)))
    return out


def signed_trees():
    """stacked unary minus (0–3 signs) over EVERY operator class / sd function the DSL offers, bare, through a shared
    intermediate variable, and as left / right operand of an outer + - * / ; a unary minus is a build step
    (`NumericalMultiplicationOperator(e, -1.0)`), so a rewrite there changes the operator tree, not the text"""
    a, b, c = ("el", "a"), ("el", "b"), ("el", "c")
    d_ab = ("sub", a, b)
    heads = [a, ("num", 2.0)]
    heads += [(op, a, b) for op in ["add", "sub", "mul", "div", "pow"]] + [("mod", ("agg", "arr_sum", "v"), b)]
    heads += [(op, a, b) for op in CMPN] + [("min", a, b), ("max", a, b), ("and", a, b), ("or", a, b), ("not", a)]
    heads += [("mul", ("num", 2.0), a), ("mul", a, ("num", 2.0)), ("neg", a)]
    heads += [(f, d_ab) for f in ["abs", "exp", "sin", "cos", "tan", "arctan"]] + [("sqrt", ("abs", d_ab)), ("round", ("div", a, b))]
    heads += [(f, ("num", 2.0)) for f in ["abs", "exp"]] if False else []
    heads += [("abs", a), ("exp", b), ("if", ("gt", a, b), a, b)]
    heads += [("agg", k, "v") for k in AGG[:7]] + [("agg", "dot", "v"), ("agg", "arr_sum", "mm")]
    def neg(x, n):
        for _ in range(n):
            x = ("neg", x)
        return x
    out = []
    for h in heads:
        for n in range(4):
            x = neg(h, n)
            out.append(x)
            for op in ["add", "sub", "mul", "div"]:
                out.append((op, x, c)); out.append((op, c, x))
                if n >= 1:
                    out.append(("negshare", op, neg(h, n - 1)))
            for f in ["abs", "exp"]:
                if n >= 1:
                    out.append(neg((f, x), 2))           # -(-abs(-…h))
    return out


def number_side_trees(quick=True):
    """every binary Python operator the DSL overloads with a number on the LEFT (reflected overloads / mirrored
    comparisons) and on the RIGHT, over an element, a compound operand and a compound operand that itself has a number
    on either side (depth 2 and 3).  A build that raises is a rejection; otherwise the value must be Python's."""
    out = []
    nums = [("num", 2.0)] if quick else [("num", 2.0), ("num", 0.5), ("num", -3.0)]
    ops2 = ["sub", "div", "pow"] if quick else BIN
    comp = [("el", "b"), ("add", ("el", "a"), ("el", "b")), ("sub", ("el", "a"), ("el", "c")), ("mul", ("el", "b"), ("el", "c")),
            ("div", ("el", "a"), ("el", "c")), ("pow", ("el", "b"), ("el", "c")), ("neg", ("el", "b")), ("abs", ("sub", ("el", "c"), ("el", "a"))),
            ("gt", ("el", "a"), ("el", "b")), ("min", ("el", "a"), ("el", "b")), ("agg", "arr_sum", "v")]
    for op in BIN + list(CMPN):
        for k in nums:
            for x in comp:
                out.append((op, k, x))                       # k op x
                out.append((op, x, k))                       # x op k
                for op2 in ops2:
                    out.append((op, k, (op2, ("num", 3.0), x)))       # k op (3.0 op2 x)
                    out.append((op, (op2, x, ("num", 3.0)), k))       # (x op2 3.0) op k
                    out.append((op2, ("el", "d"), (op, k, x)))        # d op2 (k op x)
    return out


def gshrink(g, fails):
    """replace subtrees by leaves / children while the failure persists"""
    def subtrees(t, path=()):
        yield path, t
        if t[0] not in ("num", "el", "agg"):
            for i, c in enumerate(t[1:], 1):
                yield from subtrees(c, path + (i,))
    def replace(t, path, new):
        if not path: return new
        l = list(t); l[path[0]] = replace(t[path[0]], path[1:], new); return tuple(l)
    changed = True
    while changed:
        changed = False
        for path, t in list(subtrees(g)):
            if t[0] in ("num", "el", "agg"):
                continue
            cands = [c for c in t[1:] if c[0] != "num"] + [("el", "a")]
            for c in cands:
                g2 = replace(g, path, c)
                if g2 != g and fails(g2):
                    g = g2; changed = True
                    break
            if changed:
                break
    return g


def run(chk):
    quiet_bptk_logging()
    entries, attrmap, extended, problems = probe_table()
    keyidx = {e[0]: i for i, e in enumerate(entries)}
    refl, refl_unspec, refl_problems = probe_reflected()
    negrows, neg_problems = probe_negated(probe_table.built, probe_table.element)
    fwdrows, fwd_problems = probe_forward(probe_table.built, probe_table.element)
    table_src = ("import Bptk.Core.PyFrag\n/-! GENERATED from /repo by harness/props/c02.py on every run — do not edit. -/\n"
                 + pyfrag.lean_table("table", entries, "Bptk.C02.Gen") + pyfrag.lean_table("extended", extended, "Bptk.C02.Gen")
                 + pyfrag.lean_table("reflected", [r[:3] for r in refl], "Bptk.C02.Gen")
                 + "".join(pyfrag.lean_table(f"negated{n}", negrows[n], "Bptk.C02.Gen") for n in (1, 2, 3))
                 + "".join(pyfrag.lean_table(f"fwd_{FORWARD[mn][1]}", fwdrows[mn], "Bptk.C02.Gen") for mn in FORWARD))
    write_if_changed(os.path.join(LEAN, "Bptk", "Gen", "C02Table.lean"), table_src)
    b = lake_build(["Bptk.Gen.C02Table", "Bptk.Core.PyWire"])
    if not b["ok"]:
        raise LeanError("table module does not build: " + b["log"][-1500:])
    diag = dict(x.rsplit("=", 1) for x in drive("C02", ["tableok"])[0].split(";"))
    bad = {k: v for k, v in diag.items() if v != "ok"}
    # reflected overloads: the Lean parser's reading of each probed row against `other X self`
    rout = drive("C02", ["parse " + " ".join(r[2]) for r in refl]) if refl else []
    refl_bad = {r[0]: o for r, o in zip(refl, rout) if o not in ["sexp " + x for x in r[3]]}
    chk.notes["table"] = {"classes": len(entries), "extended_classes": len(extended), "not_ok": bad, "probe_problems": problems[:20]}
    if not bad:
        ob = ("theorem table_ok : tableOK L table = true := by decide +kernel\n"
              "theorem spec_ok : specOK table = true := by decide +kernel\n"
              "theorem vocab_ok : vocabOK table = true := by decide +kernel\n"
              "theorem holds : C02_full table := C02_full_of_tableOK table table_ok spec_ok vocab_ok\n#print axioms holds\n"
              "theorem unique (e : E) (he : E.ok table L e = true) : ∀ p, parse (render table e) = some p → p = denote table e :=\n  (C02_parse_unique table table_ok e he).2.1\n#print axioms unique\n"
              "theorem complete (e : E) (he : E.ok table L e = true) : parse (render table e) = some (denote table e) :=\n  (C02_parse_complete table table_ok e he).1\n#print axioms complete\n")
    else:
        ob = "theorem table_not_ok : tableOK L table = false := by decide +kernel\n#print axioms table_not_ok\n"
    # unary minus as a build step: `-e` n times must be n nested `(-1.0) * (…)` around e itself, for every class
    neg_bad, neg_folded = {}, []
    for n in (1, 2, 3):
        nout = drive("C02", ["parse " + " ".join(r[2]) for r in negrows[n]]) if negrows[n] else []
        for r, o in zip(negrows[n], nout):
            # m <= n nested (-1.0)* with m = n (mod 2): cancelling pairs of signs is exact, hence a harmless rewrite
            ms = [m for m in range(n, -1, -2) if o.startswith("sexp ") and is_negn(o[5:], m)]
            if not ms:
                neg_bad[f"{r[0]} x{n}"] = o[:120]
            elif ms[0] != n:
                neg_folded.append(f"{r[0]} x{n}->x{ms[0]}")
    for n in (1, 2, 3):
        if not any(k.endswith(f"x{n}") for k in neg_bad):
            ob += (f"theorem neg{n}_ok : negOK {n} negated{n} = true := by decide +kernel\n#print axioms neg{n}_ok\n")
        else:
            ob += (f"theorem neg{n}_not_ok : negOK {n} negated{n} = false := by decide +kernel\n#print axioms neg{n}_not_ok\n")
    # forward overloads as build steps: `e X 7.5` must be built as `X(e, 7.5)` for every class — no rewriting at build time
    fwd_bad = {}
    for mn, (sym, lname) in FORWARD.items():
        fo = drive("C02", ["parse " + " ".join(r[2]) for r in fwdrows[mn]]) if fwdrows[mn] else []
        okset = [f"sexp ({sym} (hole 0) (hole 1))"] + ([f"sexp ({sym} (hole 1) (hole 0))"] if sym in "+*" else [])
        bad_here = {f"{r[0]}.{mn}": o[:120] for r, o in zip(fwdrows[mn], fo) if o not in okset}
        fwd_bad.update(bad_here)
        if not bad_here:
            ob += f"theorem fwd_{lname}_ok : fwdOK .{lname} fwd_{lname} = true := by decide +kernel\n#print axioms fwd_{lname}_ok\n"
        else:
            ob += f"theorem fwd_{lname}_not_ok : fwdOK .{lname} fwd_{lname} = false := by decide +kernel\n#print axioms fwd_{lname}_not_ok\n"
    if not refl_bad:
        ob += ("theorem refl_ok : reflOK reflected = true := by decide +kernel\n#print axioms refl_ok\n"
               "theorem refl_denotes (t : Tmpl) (ht : t ∈ reflected) (k : BinOp) (hk : reflOp t.cls = some k) (α : Type) (C : Carrier α) (ρ : Nat → α) :\n"
               "    eval C ρ (shapeOf t) = C.bin k (ρ 1) (ρ 0) ∨ (commutes k = true ∧ eval C ρ (shapeOf t) = C.bin k (ρ 0) (ρ 1)) :=\n"
               "  refl_build_denotes reflected refl_ok t ht k hk α C ρ\n#print axioms refl_denotes\n")
    else:
        ob += "theorem refl_not_ok : reflOK reflected = false := by decide +kernel\n#print axioms refl_not_ok\n"
    gen = ("import Bptk.Props.C02\nimport Bptk.Gen.C02Table\n/-! GENERATED on every run. -/\nnamespace Bptk.C02.Gen\nopen Bptk.Py\n" + ob + "end Bptk.C02.Gen\n")
    ok, why = chk.prove(gen, extra_sources=["Bptk/Proofs/PyFrag.lean", "Bptk/Proofs/PySound.lean", "Bptk/Proofs/PyDet.lean", "Bptk/Proofs/PyComplete.lean", "Bptk/Core/PyFrag.lean", "Bptk/Gen/C02Table.lean"])
    chk.cov["trusted_base"] = [
        "Lean 4.33 kernel; axioms ⊆ {propext, Classical.choice, Quot.sound}; `decide +kernel` for the per-run table obligations",
        "A1 grammar of the Python fragment (binding powers of CPython's expression grammar) — validated on every run against ast.parse on all generated strings",
        "template probe (placeholder operands through the real term()) and lexer in harness/pyfrag.py; that term() is a token-level substitution is checked by the render correspondence",
        "CPython eval evaluates the parsed tree compositionally",
    ]
    chk.assumptions = ["operand level L=6: every DSL operand is an element reference, a number literal (possibly negative) or an operator term",
                       "values: operands distinct primes/dyadics so that a regrouping changes the value; trees with non-finite or huge reference values are discarded"]
    # ---------------- correspondence + reference
    m, els, vals, arrs = env()
    conv = m.converter("probe_conv")
    trees = exhaustive_trees(depth3=not chk.quick)
    n_exh = len(trees)
    n_d3 = 0
    if not chk.quick:
        d3 = depth3_trees()
        n_d3 = len(d3)
        trees += d3
    ns = number_side_trees(chk.quick)
    n_ns = len(ns)
    trees += ns
    st = signed_trees()
    n_st = len(st)
    trees += st
    so = same_op_trees()
    if chk.quick:
        so = so[::3]
    n_so = len(so)
    trees += so
    vk = value_kind_trees()
    vk_row = {}
    for r, g in vk:
        vk_row[len(trees)] = r
        trees.append(g)
    vk_counts = {}
    rng = chk.rng.fork("c02")
    for _ in range(400 if chk.quick else 6000):
        trees.append(gen_tree(rng, rng.range(2, 5)))
    row_names, inner_names, ccases = classification_cases()
    label = {}                                   # index in `trees` -> (row, inner) of the classification table
    for r, i, g in ccases:
        label[len(trees)] = (r, i)
        trees.append(g)
    cls_code = {}                                # (row, inner) -> R right | B rejected at build | E rejected at evaluation |
                                                 # P plain Python number (no DSL object) | D outside the value domain | W WRONG
    req, meta = [], []
    stats = {"rejected_build": 0, "rejected_domain": 0, "unsupported_lex": 0, "ops": {}}
    ref_fail = None
    def value_fails(g):
        try:
            exp = ref_eval(g, vals, arrs)
            real = build_real(g, els, arrs)
            conv.equation = real
            got = conv(1)
        except Reject:
            return False
        except Exception:
            return False
        return not same(got, exp)
    def same(got, exp):
        try:
            if isinstance(exp, (bool, np.bool_)) or isinstance(got, (bool, np.bool_)):
                return bool(got) == bool(exp) and float(got) == float(exp)
            return float(got) == float(exp) or (abs(float(got) - float(exp)) <= 1e-12 * max(1.0, abs(float(exp))) )
        except Exception:
            return False
    cls_detail = {}
    def classify(ti, code, detail=None):
        if ti in vk_row:
            c_ = vk_counts.setdefault(vk_row[ti], {})
            c_[code] = c_.get(code, 0) + 1
        if ti in label:
            cls_code[label[ti]] = code
            if detail:
                cls_detail.setdefault(code + ":" + detail, []).append(" / ".join(label[ti]))
    for ti, g in enumerate(trees):
        try:
            exp = ref_eval(g, vals, arrs)
            dom = True
        except Reject:
            exp, dom = None, False
            if ti not in label and ti not in vk_row:
                stats["rejected_domain"] += 1
                continue
        try:
            real = build_real(g, els, arrs)
        except Reject:
            stats["rejected_build"] += 1
            classify(ti, "B", "Reject")
            continue
        except Exception as ex:
            # unsupported nesting rejected with an exception at build time: allowed by the property
            stats["rejected_build"] += 1
            stats.setdefault("build_exceptions", {}).setdefault(type(ex).__name__, 0)
            stats["build_exceptions"][type(ex).__name__] += 1
            classify(ti, "B", type(ex).__name__)
            continue
        if isinstance(real, (int, float)):
            classify(ti, "P")
            continue
        if not dom:
            # the reference value is outside the comparable domain (overflow, complex, nan, numpy narrow float):
            # the DSL may compute anything or raise; recorded, not compared
            stats["rejected_domain"] += 1
            classify(ti, "D")
            continue
        stats["ops"][g[0]] = stats["ops"].get(g[0], 0) + 1
        try:
            text = real.term("t")
        except Exception as ex:
            stats["rejected_build"] += 1
            stats.setdefault("build_exceptions", {}).setdefault(type(ex).__name__, 0)
            stats["build_exceptions"][type(ex).__name__] += 1
            classify(ti, "B", type(ex).__name__)
            continue
        try:
            conv.equation = real
            got = conv(1)
            verr = None
        except Exception as ex:
            got, verr = None, f"{type(ex).__name__}: {ex}"
        if verr is None and not same(got, exp) and ref_fail is None:
            ref_fail = (g, got, exp, text)
        classify(ti, "E" if verr is not None else ("R" if same(got, exp) else "W"), verr.split(":")[0] if verr is not None else None)
        # evaluation-time exception = "rejected with an exception": allowed, counted
        if verr is not None:
            stats.setdefault("eval_exceptions", 0); stats["eval_exceptions"] += 1
        try:
            words = pyfrag.lex(text)
            tw = extract_tree(real, keyidx, attrmap)
            py_sexp = pyfrag.sexp_of_source(text)
        except (pyfrag.Unsupported, Reject) as ex:
            stats["unsupported_lex"] += 1
            continue
        i = len(meta)
        req += ["render " + " ".join(tw), "parse " + " ".join(words), "denote " + " ".join(tw), "eok " + " ".join(tw),
                "parsemin " + " ".join(words)]
        meta.append((g, text, words, py_sexp))
        chk.case(gshow(g), nontrivial=any(c[0] not in ("num", "el") for c in g[1:]), sample={"expr": gshow(g), "text": text, "value": repr(got)})
    out = drive("C02", req) if req else []
    chk.cov["traces_validated_against_impl"] = len(meta)
    chk.cov["exhaustive_depth2_trees"] = n_exh
    chk.cov["depth3_reduced_alphabet_trees"] = n_d3
    chk.cov["number_left_right_trees"] = n_ns
    chk.cov["stacked_minus_trees"] = n_st
    chk.cov["same_operator_literal_nestings"] = n_so
    chk.cov["forward_builds"] = {"rows": {mn: len(r) for mn, r in fwdrows.items()}, "not_ok": fwd_bad, "problems": fwd_problems[:10]}
    # per kind of number / element: how many trees were accepted-and-right (R), rejected when built (B) / evaluated (E), no DSL
    # object (P), outside the comparable domain (D), wrong (W)
    chk.cov["value_and_element_kinds"] = vk_counts
    chk.cov["negated_builds"] = {"classes": len(negrows[1]), "not_ok": neg_bad, "sign_pairs_cancelled": neg_folded[:10], "problems": neg_problems}
    chk.cov["reflected_overloads"] = {"probed": [r[0] for r in refl], "not_ok": refl_bad, "unspecified": refl_unspec, "problems": refl_problems}
    chk.cov["distribution"] = stats
    # classification table: one string per row (outer operator[position], kind of the other operand), one letter per inner form
    counts = {}
    for c in cls_code.values():
        counts[c] = counts.get(c, 0) + 1
    chk.cov["classification"] = {
        "legend": "R accepted and right; B rejected with an exception when the expression is built; E rejected with an exception when it is "
                  "evaluated; P no DSL object involved (plain Python number); D reference value outside the comparable domain (overflow / complex / "
                  "numpy narrow float) — not compared; W accepted and WRONG (a violation)",
        "inner_forms": inner_names,
        "rows": {r: "".join(cls_code.get((r, i), "?") for i in inner_names) for r in row_names},
        "counts": counts,
        "rejections": {k: v[:6] + ([f"... {len(v)} in all"] if len(v) > 6 else []) for k, v in sorted(cls_detail.items())},
    }
    chk.cov["rule"] = (f"every outer operator × operand position × inner operator of the C02 vocabulary (depth 2{', plus all +-*/**% triples at depth 3' if not chk.quick else ''}; {n_exh} trees){f', all depth-3 spines and two-compound-operand trees over the reduced alphabet (one representative per precedence level / associativity class) × all operand positions ({n_d3} trees)' if n_d3 else ''}, "
                       f"every overloaded binary operator with a number on the left / right of an element, a compound and a number-sided compound operand ({n_ns} trees, depth 2–3), "
                       f"nestings of the same operator with number literals on both levels over operands of both signs and zero ({n_so} trees), 0–3 stacked unary minus over every operator class / sd function, bare, through a shared variable and under outer + − × ÷ ({n_st} trees), "
                       f"the classification table outer[position] × inner form × kind of the other operand incl. number-on-the-left forms ({len(ccases)} cases) "
                       "and seeded random trees to depth 5; per tree: real term text = Lean render; Lean parse = CPython ast.parse; denote = parse; parse with the proved fuel bound 2·length+2 = parse; real value = Python arithmetic. "
                       "distinct = canonical expression text; non-trivial = at least one compound operand")
    corr = None
    for i, (g, text, words, py_sexp) in enumerate(meta):
        r, p, d, e, pm = out[5 * i:5 * i + 5]
        if pm != p:
            corr = corr or ("parser-fuel-bound (2·length+2, Proofs/PyComplete)", g, text, pm, p)
        elif r != "toks " + " ".join(words):
            corr = corr or ("render", g, text, r, " ".join(words))
        elif p != "sexp " + py_sexp:
            corr = corr or ("parser-vs-cpython", g, text, p, py_sexp)
        elif d != p:
            corr = corr or ("denote-vs-parse", g, text, d, p)
        elif e != "true":
            corr = corr or ("tree-not-ok", g, text, e, "true")
    # ---------------- decide
    if ref_fail is not None:
        g, got, exp, text = ref_fail
        small = gshrink(g, value_fails)
        real = build_real(small, els, arrs); conv.equation = real
        chk.add_finding("grouping:" + small[0], f"{gshow(small)} evaluates to {conv(1)!r}, ordinary arithmetic gives {ref_eval(small, vals, arrs)!r}; emitted text {real.term('t')}",
                        {"expr": gshow(small), "tree": json.loads(json.dumps(small)), "operands": vals, "observed": repr(conv(1)), "expected": repr(ref_eval(small, vals, arrs)), "text": real.term("t")})
    if bad and ref_fail is None:
        chk.add_finding("obligation", f"tableOK fails for {bad} and no expression with a wrong value was found",
                        {"theorem": "Bptk.C02.Gen.table_ok (tableOK L table)", "not_ok": bad}, found_input=False)
    if fwd_bad and ref_fail is None:
        chk.add_finding("obligation", f"a forward overload does not build Op(self, literal): {fwd_bad} and no expression with a wrong value was found",
                        {"theorem": "Bptk.C02.Gen.fwd_*_ok (fwdOK)", "not_ok": fwd_bad}, found_input=False)
    if neg_bad and ref_fail is None:
        chk.add_finding("obligation", f"unary minus does not build (-1.0)*(operand) for: {neg_bad} and no expression with a wrong value was found",
                        {"theorem": "Bptk.C02.Gen.negN_ok (negOK n negatedN)", "not_ok": neg_bad}, found_input=False)
    if refl_bad and ref_fail is None:
        chk.add_finding("obligation", f"reflected overloads do not build `other op self`: {refl_bad} and no expression with a wrong value was found",
                        {"theorem": "Bptk.C02.Gen.refl_ok (reflOK reflected)", "not_ok": refl_bad}, found_input=False)
    if not ok:
        chk.add_finding("obligation", f"proof obligations of C02 no longer check: {why}", {"theorem": "Bptk.C02.Gen.*", "detail": why}, found_input=False)
    if corr is not None and ref_fail is None:
        kind, g, text, a, b2 = corr
        chk.add_finding("correspondence", f"{kind}: model and implementation differ on {gshow(g)}",
                        {"correspondence": kind, "expr": gshow(g), "text": text, "model": a, "impl": b2}, found_input=False)


def replay(path):
    quiet_bptk_logging()
    r = json.load(open(path))["replay"]
    if "tree" not in r:
        print(r); return 1
    def tup(x): return tuple(tup(y) if isinstance(y, list) else y for y in x)
    g = tup(r["tree"])
    m, els, vals, arrs = env()
    exp = ref_eval(g, vals, arrs)
    try:
        conv = m.converter("k"); conv.equation = build_real(g, els, arrs)
        got = conv(1)
    except Exception as ex:
        # rejected with an exception: what the property allows for a nesting the DSL does not support
        print(gshow(g), "-> rejected with", type(ex).__name__ + ":", str(ex)[:120], "(expected value", exp, ")")
        return 0
    print(gshow(g), "->", got, "expected", exp, "text", conv.function_string)
    return 0 if float(got) == float(exp) else 1
