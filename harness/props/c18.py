"""C18 — step-advancing requests on one instance never interleave.

Real side: the three handlers (`run-step`, `run-steps`, `stream-steps`) are driven as WSGI calls from request
threads under a cooperative scheduler.  Every access to the state the requests share (the lock flag, the
session clock, the simulation call, the chunks handed to the client) is a *visible action*; exactly one
thread runs at a time and the scheduler decides, before every visible action, which thread performs the
next one.  Two modes:
  * action mode  — threads park inside the recording wrappers, immediately before each visible action;
                   schedules are enumerated exhaustively up to a pre-emption bound (iterative context bounding);
  * line mode    — `sys.settrace`: threads park before every source line of the handler functions and of
                   `bptk.run_step`; schedules = explicit switch points at line granularity (all single
                   switch points in thorough, sampled in quick); visible actions are only logged.
Every run yields a global log of visible actions = a schedule of the Lean model (Drive/C18), which predicts
labels, statuses, step times, clock and lock; both are diffed.  Independently of the model the run is
checked against the statement of C18 (reference check) — a failure there is a violation with the schedule
as replay."""
import json, sys, threading, itertools
from common import *

SM, SC = "smC18", "base"
KINDS = ("p", "r", "s")            # run-step, run-steps, stream-steps


# ------------------------------------------------------------------------------------------- real server
def factory():
    import BPTK_Py
    from BPTK_Py import Model
    m = Model(starttime=0.0, stoptime=50.0, dt=1.0, name="c18")
    stock, flow, const = m.stock("stock"), m.flow("flow"), m.constant("constant")
    stock.initial_value = 0.0
    stock.equation = flow
    flow.equation = const
    const.equation = 1.0
    b = BPTK_Py.bptk()
    b.register_scenario_manager({SM: {"model": m}})
    b.register_scenarios(scenario_manager=SM, scenarios={SC: {"constants": {"constant": 1.0}}})
    return b


class Deadlock(Exception):
    pass


class Ctl:
    """Cooperative scheduler + recorder.  `chooser(enabled, pending, current)` names the next thread."""
    def __init__(self):
        self.cv = threading.Condition()
        self.tls = threading.local()
        self.reset(None, "off")

    def reset(self, chooser, mode):
        self.chooser, self.mode = chooser, mode         # mode: off | action | line
        self.state, self.pending = {}, {}
        self.turn = None
        self.log = []                                   # (tid, label, info)
        self.decisions = []                             # (enabled tuple, chosen, current)
        self.choices = []
        self.sim_count = {}
        self.fail = {}                                  # tid -> index of the simulation call that raises
        self.current = None
        self.lines = 0

    # -- called from request threads
    def tid(self):
        return getattr(self.tls, "tid", None)

    def atomic(self):
        return getattr(self.tls, "atomic", 0)

    def _park(self, tid, label):
        with self.cv:
            self.state[tid] = "parked"
            self.pending[tid] = label
            self.cv.notify_all()
            while self.turn != tid:
                if not self.cv.wait(timeout=20):
                    raise Deadlock(f"thread {tid} never scheduled at {label}")
            self.turn = None
            self.state[tid] = "running"

    def visible(self, label, info=None, folded=False):
        """park (action mode) and record; returns the log entry [tid, label, info, folded] or None"""
        tid = self.tid()
        if tid is None or self.mode == "off":
            return None
        if self.atomic():
            if folded:
                self.log.append([tid, label, info, True])
            return None
        if self.mode == "action":
            self._park(tid, label)
        e = [tid, label, info, False]
        self.log.append(e)
        return e

    def line(self, where):
        tid = self.tid()
        if tid is None or self.mode != "line" or self.atomic():
            return
        self.lines += 1
        self._park(tid, where)

    def finish(self, tid):
        with self.cv:
            self.state[tid] = "done"
            self.cv.notify_all()

    # -- controller (main thread)
    def drive(self, n):
        with self.cv:
            while True:
                ok = self.cv.wait_for(lambda: self.turn is None and len(self.state) == n and
                                      all(v in ("parked", "done") for v in self.state.values()), timeout=30)
                if not ok:
                    raise Deadlock(f"threads did not quiesce: {self.state} pending={self.pending}")
                enabled = tuple(sorted(t for t, v in self.state.items() if v == "parked"))
                if not enabled:
                    return
                ch = self.chooser(enabled, self.pending, self.current, len(self.choices))
                self.decisions.append((enabled, ch, self.current))
                self.choices.append(ch)
                self.current = ch
                self.state[ch] = "running"
                self.turn = ch
                self.cv.notify_all()


CTL = Ctl()


class RecDict(dict):
    """session_state with recorded accesses to the session clock."""
    def __getitem__(self, k):
        if k == "step":
            CTL.visible("RS")
        return dict.__getitem__(self, k)

    def __setitem__(self, k, v):
        if k == "step":
            CTL.visible("WS", v)
        dict.__setitem__(self, k, v)


class InjectedError(Exception):
    pass


class World:
    """One BptkServer with one instance; sessions are re-begun for every run."""
    def __init__(self):
        from BPTK_Py.server import BptkServer
        import BPTK_Py.bptk                                   # noqa: F401  (the attribute BPTK_Py.bptk is the class)
        bmod = sys.modules["BPTK_Py.bptk"]
        self.bmod = bmod
        self.app = BptkServer("c18", factory)
        self.app.logger.disabled = True                      # injected failures would be logged with a traceback
        c = self.app.test_client()
        r = c.post("/start-instance", json={"timeout": {"weeks": 0, "days": 0, "hours": 1, "minutes": 0, "seconds": 0,
                                                        "milliseconds": 0, "microseconds": 0}})
        self.id = json.loads(r.data)["instance_uuid"]
        self.inst = self.app._instance_manager._instances[self.id]["instance"]
        self.client = c
        self.has_try_lock = hasattr(self.inst, "try_lock")
        self._instrument()

    def _instrument(self):
        inst = self.inst
        cls = type(inst)
        o_is, o_lock, o_unlock = cls.is_locked, cls.lock, cls.unlock

        def is_locked():
            CTL.visible("RL")
            return o_is(inst)

        def lock():
            CTL.visible("SL", folded=True)
            return o_lock(inst)

        def unlock():
            CTL.visible("CL", folded=True)
            return o_unlock(inst)
        inst.is_locked, inst.lock, inst.unlock = is_locked, lock, unlock
        if self.has_try_lock:
            o_try = cls.try_lock

            def try_lock():
                e = CTL.visible("TAS")
                CTL.tls.atomic = CTL.atomic() + 1
                try:
                    r = o_try(inst)
                    if e is not None:
                        e[2] = bool(r)
                    return r
                finally:
                    CTL.tls.atomic -= 1
            inst.try_lock = try_lock
        runner = self.bmod.SdRunner
        self._orig_sim = runner.run_scenario_step
        orig = self._orig_sim

        def run_scenario_step(rself, *a, **kw):
            tid = CTL.tid()
            CTL.visible("SIM")
            if tid is not None and CTL.mode != "off":
                k = CTL.sim_count.get(tid, 0)
                CTL.sim_count[tid] = k + 1
                if CTL.fail.get(tid) == k:
                    raise InjectedError("injected simulation failure")
            return orig(rself, *a, **kw)
        runner.run_scenario_step = run_scenario_step

    def close(self):
        self.bmod.SdRunner.run_scenario_step = self._orig_sim
        try:
            self.client.post(f"/{self.id}/stop-instance")
        finally:
            self.inst.destroy()
            if self.app._bptk is not None:
                self.app._bptk.destroy()

    def reset(self, stop):
        r = self.client.post(f"/{self.id}/begin-session",
                             json={"scenario_managers": [SM], "scenarios": [SC], "equations": ["stock", "flow"]})
        assert r.status_code == 200, r.data
        st = RecDict(self.inst.session_state)
        dict.__setitem__(st, "stoptime", float(stop))
        self.inst.session_state = st

    def clock(self):
        return int(round(dict.__getitem__(self.inst.session_state, "step")))

    def locked(self):
        return bool(dict.get(self.inst.session_state, "lock", False))

    # -- one request as a WSGI call (what a server thread does)
    def request(self, tid, kind, n, gone_after, out):
        from werkzeug.test import EnvironBuilder
        CTL.tls.tid = tid
        CTL.tls.atomic = 0
        res = {"status": None, "times": [], "msgs": 0, "body": "", "chunks": 0, "closed_early": False, "exc": None}
        out[tid] = res
        try:
            if CTL.mode == "line":
                sys.settrace(TRACER.trace)
                CTL.line(("thread-start", 0))
            body = {"settings": {}}
            path = {"p": "run-step", "r": "run-steps", "s": "stream-steps"}[kind]
            if kind == "r":
                body["numberSteps"] = n
            env = EnvironBuilder(path=f"/{self.id}/{path}", method="POST", json=body).get_environ()
            got = {}

            def start_response(status, headers, exc_info=None):
                got["status"] = int(status.split()[0])
                return lambda b: None
            app_iter = self.app(env, start_response)
            res["status"] = got.get("status")
            it = iter(app_iter)
            chunks = []
            try:
                if kind == "s" and res["status"] == 200:
                    while True:
                        if gone_after is not None and len(chunks) == gone_after:
                            CTL.visible("GONE")
                            res["closed_early"] = True
                            break
                        try:
                            ch = next(it)
                        except StopIteration:
                            break
                        chunks.append(ch.decode())
                        CTL.visible("Y")
                else:
                    chunks = [b"".join(it).decode()]
            finally:
                CTL.tls.atomic = CTL.atomic() + (1 if res["closed_early"] else 0)
                try:
                    app_iter.close()
                finally:
                    CTL.tls.atomic = 0
            res["chunks"] = len(chunks)
            res["body"] = "".join(chunks)[:300]
            if res["status"] == 200:
                if kind == "s":
                    objs = [json.loads(c) for c in chunks if c not in ("[", ",", "]")]
                elif kind == "r":
                    objs = json.loads(chunks[0])
                else:
                    objs = [json.loads(chunks[0])]
                for o in objs:
                    t = time_of(o)
                    if t is None:
                        res["msgs"] += 1
                    else:
                        res["times"].append(t)
        except Deadlock:
            raise
        except Exception as e:                                         # noqa: BLE001 — recorded, judged later
            res["exc"] = f"{type(e).__name__}: {e}"
        finally:
            sys.settrace(None)
            CTL.finish(tid)


def time_of(obj):
    """time (in steps) of one run_step result; None for the stop-time message / empty results."""
    if not isinstance(obj, dict) or "msg" in obj or "error" in obj:
        return None
    try:
        eqs = obj[SM][SC]
        k = next(iter(next(iter(eqs.values())).keys()))
        return int(round(float(k)))
    except Exception:
        return None


# ------------------------------------------------------------------------------------------- line tracer
class Tracer:
    def __init__(self):
        self.codes = {}

    def setup(self):
        from BPTK_Py.server.bptkServer import BptkServer
        import types
        bmod = sys.modules["BPTK_Py.bptk"]
        self.codes = {}
        for name in ("_run_step_resource", "_run_steps_resource", "_stream_steps_resource"):
            f = getattr(BptkServer, name)
            f = getattr(f, "__wrapped__", f)
            self.codes[f.__code__] = name
            for c in f.__code__.co_consts:
                if isinstance(c, types.CodeType):
                    self.codes[c] = name + "." + c.co_name
        self.codes[bmod.bptk.run_step.__code__] = "bptk.run_step"
        self.codes[bmod.bptk.progress.__code__] = "bptk.progress"

    def trace(self, frame, event, arg):
        if event == "call":
            return self.local if frame.f_code in self.codes else None
        return None

    def local(self, frame, event, arg):
        if event == "line":
            CTL.line((self.codes[frame.f_code], frame.f_lineno))
        return self.local


TRACER = Tracer()


# ------------------------------------------------------------------------------------------- one run
class Scn:
    """kinds: list of (kind, n); stop; fail: {tid: k}; gone: {tid: chunks}"""
    def __init__(self, stop, kinds, fail=None, gone=None):
        self.stop, self.kinds = stop, [tuple(k) for k in kinds]
        self.fail = {int(k): v for k, v in (fail or {}).items()}
        self.gone = {int(k): v for k, v in (gone or {}).items()}

    def key(self):
        return (self.stop, tuple(self.kinds), tuple(sorted(self.fail.items())), tuple(sorted(self.gone.items())))

    def kinds_str(self):
        return ",".join(k if k != "r" else f"r{n}" for k, n in self.kinds)

    def to_json(self):
        return {"stop": self.stop, "kinds": self.kinds, "fail": self.fail, "gone": self.gone}


def execute(world, scn, mode, prefix=(), switches=None):
    """Run the scenario under the scheduler.  action mode: follow `prefix` (thread ids), then the default
    policy (stay on the current thread, else the lowest enabled id).  line mode: `switches` = list of
    (line-step index, thread id): at that global line step switch to that thread; otherwise stay."""
    world.reset(scn.stop)
    n = len(scn.kinds)
    if mode == "action":
        def chooser(enabled, pending, current, k):
            if k < len(prefix) and prefix[k] in enabled:
                return prefix[k]
            return current if current in enabled else enabled[0]
    else:
        sw = dict(switches or [])

        def chooser(enabled, pending, current, k):
            want = sw.get(k)
            if want is not None and want in enabled:
                return want
            return current if current in enabled else enabled[0]
    CTL.reset(chooser, mode)
    CTL.fail = dict(scn.fail)
    out = {}
    ths = [threading.Thread(target=world.request, args=(i, k, nn, scn.gone.get(i), out), daemon=True)
           for i, (k, nn) in enumerate(scn.kinds)]
    try:
        for i, t in enumerate(ths):           # start-up (routing, instance lookup) runs serially
            t.start()
            with CTL.cv:
                if not CTL.cv.wait_for(lambda: CTL.state.get(i) in ("parked", "done"), timeout=30):
                    raise Deadlock(f"thread {i} did not reach its first action")
        CTL.drive(n)
    finally:
        for t in ths:
            t.join(timeout=20)
    rec = {"log": list(CTL.log), "decisions": list(CTL.decisions), "choices": list(CTL.choices),
           "out": [out[i] for i in range(n)], "clock": world.clock(), "lock": world.locked(), "lines": CTL.lines}
    CTL.reset(None, "off")
    return rec


# ------------------------------------------------------------------------------------------- model side
def model_schedule(scn, rec):
    """The run's log as a schedule of the Lean model (+ the labels the model must reproduce)."""
    sched, labels = [], []
    simk = {}
    for tid, lab, info, folded in rec["log"]:
        if folded:
            continue
        ev = "g"
        if lab == "SIM":
            k = simk.get(tid, 0)
            simk[tid] = k + 1
            if scn.fail.get(tid) == k:
                ev = "f"
        if lab == "GONE":
            ev = "x"
        sched.append(f"{tid}{ev}")
        labels.append(lab)
    # completion of a stream that does not unlock is not a recorded action: let every thread finish
    tail = [f"{i}g" for i in range(len(scn.kinds))]
    return sched, labels, tail


def model_line(scn, rec):
    sched, labels, tail = model_schedule(scn, rec)
    return f"run {scn.stop} {scn.kinds_str()} {','.join(sched + tail) or '-'}", labels


def canon_real(scn, rec, labels):
    """Real outcome in the driver's reply format (only what the statement fixes)."""
    ths = []
    for i, (k, n) in enumerate(scn.kinds):
        o = rec["out"][i]
        if o["status"] == 500 and "locked" in o["body"]:
            st = "refused"
        elif o["closed_early"]:
            st = "gone"
        elif i in scn.fail and any(l[0] == i and l[1] == "SIM" for l in rec["log"]) and \
                sum(1 for l in rec["log"] if l[0] == i and l[1] == "SIM") > scn.fail[i]:
            st = "error"
        elif o["status"] == 200:
            st = "ok"
        else:
            st = f"http{o['status']}"
        ths.append((st, o["times"], o["msgs"]))
    produced = [int(round(info)) - 1 for tid, lab, info, folded in rec["log"] if lab == "WS"]
    return labels, ths, rec["clock"], rec["lock"], produced


def parse_model(reply, nlabels):
    labs, ths, fin = reply.split("|")
    labs = labs.split(",") if labs else []
    tail = labs[nlabels:]
    labs = labs[:nlabels]
    tl = []
    for t in ths.split(";"):
        st, res, msgs, holds, pc = t.split(":")
        tl.append((st, [] if res == "-" else [int(x) for x in res.split(".")], int(msgs), holds == "1", pc))
    f = dict(x.split("=") for x in fin.split(";"))
    return labs, tail, tl, int(f["clock"]), f["lock"] == "1", [] if f["produced"] == "-" else [int(x) for x in f["produced"].split(".")]


def compare(scn, rec, reply):
    """None if the model's prediction equals the real outcome, else a description of the first difference."""
    line, labels = model_line(scn, rec)
    rl, rths, rclock, rlock, rprod = canon_real(scn, rec, labels)
    ml, tail, mths, mclock, mlock, mprod = parse_model(reply, len(labels))
    if ml != rl:
        k = next((i for i, (a, b) in enumerate(zip(ml, rl)) if a != b), min(len(ml), len(rl)))
        return f"action {k}: model {ml[k] if k < len(ml) else None} impl {rl[k] if k < len(rl) else None}"
    for i, ((mst, mres, mmsgs, mholds, mpc), (rst, rres, rmsgs)) in enumerate(zip(mths, rths)):
        if mpc != "done":
            return f"thread {i}: model not finished ({mst}) impl {rst}"
        if (mst, mres, mmsgs) != (rst, rres, rmsgs):
            return f"thread {i}: model {(mst, mres, mmsgs)} impl {(rst, rres, rmsgs)}"
        k, n = scn.kinds[i]
        http = rec["out"][i]["status"]
        want = {"ok": 200, "refused": 500, "gone": 200, "error": 500 if k == "p" else 200}.get(mst)
        if http != want:
            return f"thread {i}: status {http}, model says {mst} -> {want}"
    if (mclock, mlock, mprod) != (rclock, rlock, rprod):
        return f"final: model clock={mclock} lock={mlock} produced={mprod} impl clock={rclock} lock={rlock} produced={rprod}"
    return None


# ------------------------------------------------------------------------------------------- reference check
def reference(scn, rec):
    """The statement of C18 checked directly on the recorded run; returns [(key, text)]."""
    out = []
    kinds = [k for k, _ in scn.kinds]
    holders = set()
    how_ended = {}
    stepping = {}            # tid -> inside run_step (between RS of run_step and WS)
    overlap_multi = overlap_p = False
    for tid, lab, info, folded in rec["log"]:
        if folded and lab != "CL":
            continue
        if lab != "SIM":
            stepping[tid] = False
        if lab in ("SL",):
            if holders - {tid}:
                overlap_multi = True
                out.append(("lock-check-then-act", f"request {tid} ({kinds[tid]}) sets the lock while request(s) "
                            f"{sorted(holders - {tid})} hold it"))
            holders.add(tid)
        elif lab == "TAS" and info:
            if holders - {tid}:
                out.append(("lock-check-then-act", f"request {tid} acquired through try_lock while {sorted(holders - {tid})} hold the lock"))
            holders.add(tid)
        elif lab == "CL":
            holders.discard(tid)
        elif lab in ("RS", "SIM", "WS"):
            others = holders - {tid}
            if others and lab in ("SIM", "WS"):
                key = "run-step-without-lock" if kinds[tid] == "p" and tid not in holders else "lock-check-then-act"
                out.append((key, f"request {tid} ({kinds[tid]}) performs {lab} while request {sorted(others)} holds the lock"))
            if lab == "SIM":
                busy = [t for t, v in stepping.items() if v and t != tid]
                if busy:
                    key = "run-step-without-lock" if (kinds[tid] == "p" or any(kinds[b] == "p" for b in busy)) else "lock-check-then-act"
                    out.append((key, f"requests {busy + [tid]} are inside run_step at the same time"))
                stepping[tid] = True
    produced = [int(round(info)) - 1 for tid, lab, info, folded in rec["log"] if lab == "WS"]
    if len(set(produced)) != len(produced):
        dup = sorted({p for p in produced if produced.count(p) > 1})
        key = "run-step-without-lock" if any(k == "p" for k in kinds) and not any(k == "lock-check-then-act" for k, _ in out) else "lock-check-then-act"
        out.append((key, f"simulation time(s) {dup} produced twice (write order {produced})"))
    total = 0
    for i, o in enumerate(rec["out"]):
        if o["exc"]:
            out.append(("harness-exception", f"request {i}: {o['exc']}"))
        if o["status"] == 200:
            t = o["times"]
            total += len(t)
            if t != list(range(t[0], t[0] + len(t))) if t else False:
                out.append(("non-consecutive", f"response {i} ({kinds[i]}) contains steps {t}"))
        if o["status"] == 500 and "locked" in o["body"]:
            if any(l[0] == i and l[1] in ("RS", "SIM", "WS") for l in rec["log"]):
                out.append(("refused-but-stepped", f"request {i} was refused but touched the clock"))
    if rec["clock"] != total and not any(k in ("lock-check-then-act", "run-step-without-lock") for k, _ in out):
        out.append(("clock-mismatch", f"clock advanced by {rec['clock']} but {total} steps were returned"))
    elif rec["clock"] != total:
        out.append((next(k for k, _ in out if k in ("lock-check-then-act", "run-step-without-lock")),
                    f"clock advanced by {rec['clock']} but {total} steps were returned"))
    if rec["lock"]:
        # who left it set?
        last = None
        for tid, lab, info, folded in rec["log"]:
            if lab == "SL" or (lab == "TAS" and info):
                last = tid
        o = rec["out"][last] if last is not None else None
        if last is None:
            key = "lock-leak"
        elif o["closed_early"]:
            key = "client-gone-leaves-lock"
        elif last in scn.fail:
            key = "error-leaves-lock"
        elif kinds[last] == "s":
            key = "stream-completion-leaves-lock"
        else:
            key = "lock-leak"
        out.append((key, f"all requests have ended but the instance is still locked (last acquired by request {last}, {kinds[last] if last is not None else '?'})"))
    prim = [k for k, _ in out if k in ("lock-check-then-act", "run-step-without-lock")]
    if prim:                       # consequences of an interleaving are reported under its cause
        out = [(prim[0] if k in ("non-consecutive", "clock-mismatch", "refused-but-stepped") else k, t) for k, t in out]
    return out


# ------------------------------------------------------------------------------------------- exploration
def explore(world, scn, bound, budget):
    """All schedules of the scenario with at most `bound` pre-emptions (iterative context bounding)."""
    stack = [((), 0)]
    runs = 0
    while stack and runs < budget:
        prefix, used = stack.pop()
        rec = execute(world, scn, "action", prefix)
        runs += 1
        yield rec
        for k in range(len(prefix), len(rec["decisions"])):
            enabled, chosen, cur = rec["decisions"][k]
            cost = 1 if cur in enabled else 0
            if used + cost > bound:
                continue
            for alt in enabled:
                if alt != chosen:
                    stack.append((tuple(rec["choices"][:k]) + (alt,), used + cost))


def scenarios(chk):
    """request-kind combinations (all ordered pairs are covered by the scheduler's choice of who starts)."""
    two = []
    for a, b in itertools.combinations_with_replacement(KINDS, 2):
        two.append(Scn(1, [(a, 2), (b, 2)]))
    extra = [
        Scn(2, [("r", 3), ("p", 0)]),
        Scn(1, [("s", 0), ("s", 0)], gone={0: 2}),
        Scn(1, [("s", 0), ("r", 2)], gone={0: 0}),
        Scn(1, [("s", 0), ("p", 0)], gone={0: 4}),
        Scn(2, [("r", 2), ("r", 2)], fail={0: 1}),
        Scn(2, [("s", 0), ("p", 0)], fail={0: 1}),
        Scn(2, [("p", 0), ("r", 2)], fail={0: 0}),
        Scn(1, [("r", 3), ("s", 0)]),                      # stop time reached inside run-steps
        Scn(1, [("r", 0), ("p", 0)]),                      # numberSteps = 0
    ]
    three = [Scn(1, [("r", 2), ("s", 0), ("p", 0)]), Scn(1, [("r", 1), ("r", 1), ("p", 0)]),
             Scn(1, [("s", 0), ("s", 0), ("p", 0)]), Scn(1, [("p", 0), ("p", 0), ("p", 0)])]
    return two, extra, three


# ------------------------------------------------------------------------------------------- probes
def probe(world):
    """mechanism facts of the handlers, by sequential/forced runs with the recorder."""
    f = {}
    # how the lock is acquired: labels of a solo run-steps and a solo stream
    r = execute(world, Scn(1, [("r", 1)]), "action")
    s = execute(world, Scn(1, [("s", 0)]), "action")
    p = execute(world, Scn(1, [("p", 0)]), "action")
    lr = [l[1] for l in r["log"] if not l[3]]
    ls = [l[1] for l in s["log"] if not l[3]]
    lp = [l[1] for l in p["log"] if not l[3]]
    f["lockIsTestAndSet"] = "TAS" in lr and "SL" not in lr and "TAS" in ls and "SL" not in ls
    f["runStepTakesLock"] = ("TAS" in lp or "SL" in lp) and "CL" in lp
    f["streamUnlocksOnDone"] = not s["lock"]
    e1 = execute(world, Scn(2, [("r", 2)], fail={0: 1}), "action")
    e2 = execute(world, Scn(2, [("s", 0)], fail={0: 1}), "action")
    f["unlockOnError"] = not e1["lock"] and not e2["lock"]
    g = execute(world, Scn(2, [("s", 0)], gone={0: 2}), "action")
    f["unlockOnClientGone"] = not g["lock"]
    f["_solo_labels"] = {"run-steps": lr, "stream": ls, "run-step": lp}
    f["_runs"] = [(Scn(1, [("s", 0)]), s), (Scn(2, [("r", 2)], fail={0: 1}), e1), (Scn(2, [("s", 0)], fail={0: 1}), e2),
                  (Scn(2, [("s", 0)], gone={0: 2}), g), (Scn(1, [("r", 1)]), r), (Scn(1, [("p", 0)]), p)]
    return f


FACTS = ["lockIsTestAndSet", "runStepTakesLock", "streamUnlocksOnDone", "unlockOnError", "unlockOnClientGone"]
WITNESS = {"lockIsTestAndSet": "C18_witness_toctou", "runStepTakesLock": "C18_witness_run_step_unlocked",
           "streamUnlocksOnDone": "C18_witness_stream_completion", "unlockOnError": "C18_witness_error",
           "unlockOnClientGone": "C18_witness_client_gone"}


def gen_lean(f):
    b = lambda x: "true" if x else "false"
    cfg = ", ".join(f"{k} := {b(f[k])}" for k in FACTS)
    if all(f[k] for k in FACTS):
        body = "theorem holds : C18_full cfg := C18_full_of_good cfg (by decide)\n#print axioms holds\n"
    else:
        body = ""
        for k in FACTS:
            if not f[k]:
                body += (f"theorem violated_{k} : ¬ C18_full cfg := {WITNESS[k]} cfg (by decide)\n"
                         f"#print axioms violated_{k}\n")
        body += "#print axioms C18_partial\n"
    return ("import Bptk.Props.C18\n/-! GENERATED by harness/props/c18.py from /repo on every run — do not edit. -/\n"
            "namespace Bptk.C18.Gen\n" f"def cfg : Cfg := {{ {cfg} }}\n" + body + "end Bptk.C18.Gen\n")


# ------------------------------------------------------------------------------------------- the check
def run(chk):
    quiet_bptk_logging()
    import time as _t
    world = World()
    try:
        _run(chk, world)
    finally:
        world.close()


def _run(chk, world):
    import time as _t
    facts = probe(world)
    chk.notes["cfg"] = {k: facts[k] for k in FACTS}
    chk.notes["solo_action_labels"] = facts["_solo_labels"]
    ok, why = chk.prove(gen_lean(facts))
    chk.cov["trusted_base"] = [
        "Lean 4.33 kernel; axioms propext, Classical.choice, Quot.sound (audited per run via #print axioms)",
        "hand-written thread programs of lean/Bptk/Core/C18.lean (run-step / run-steps / stream-steps handlers, bptk.run_step, lock/unlock/is_locked/try_lock) at the granularity of accesses to the lock flag, the session clock, the simulation call and the chunks handed to the client; tied to /repo by the five probed mechanism facts and by the label-by-label and outcome comparison of every forced schedule",
        "the recorder: instance-level wrappers of is_locked/lock/unlock/try_lock, a dict subclass recording session_state['step'], a wrapper of SdRunner.run_scenario_step; the cooperative scheduler (one thread runs at a time)",
        "thread switches inside one source line / inside C calls are not modelled; try_lock's guarded body is one action",
    ]
    chk.assumptions = [
        "requests reach the handlers as WSGI calls (Flask routing/werkzeug response iteration are not modelled); a client disconnect is the server closing the response iterable",
        "session dt = 1, start 0 (time = number of steps); simulation values are not compared, only times",
        "begin-session/end-session are not step-advancing requests and are outside the statement",
    ]
    two, extra, three = scenarios(chk)
    bound2 = 3 if chk.quick else 4
    bound3 = 2 if chk.quick else 3
    budget = 1500 if chk.quick else 40000
    cases = [(scn, rec, "action") for scn, rec in facts["_runs"]]                      # (scn, rec, mode)
    dist = {}
    t0 = _t.time()
    deadline = t0 + (55 if chk.quick else 600)
    for group, bound in ((two, bound2), (extra, bound2), (three, bound3)):
        for scn in group:
            n = 0
            for rec in explore(world, scn, bound, budget):
                cases.append((scn, rec, "action"))
                n += 1
                if _t.time() > deadline:
                    break
            dist[f"{scn.kinds_str()} stop={scn.stop} fail={scn.fail} gone={scn.gone} preemptions<={bound}"] = n
    # line granularity: every single switch point (thorough) / sampled (quick), plus sampled double switches
    TRACER.setup()
    rng = chk.rng.fork("c18-lines")
    nline = 0
    line_scns = two if not chk.quick else [two[i] for i in (1, 2, 4)]
    for scn in line_scns:
        base = execute(world, scn, "line", switches=[])
        cases.append((scn, base, "line"))
        total = len(base["choices"])
        pts = list(range(1, total))
        if chk.quick:
            pts = sorted(rng.shuffle(pts)[:12])
        for a in pts:
            for first in (0, 1):
                sw = [(0, first), (a, 1 - first)]
                if not chk.quick or rng.chance(1, 2):
                    cases.append((scn, execute(world, scn, "line", switches=sw), "line"))
                    nline += 1
        for _ in range(6 if chk.quick else 150):
            a = rng.range(1, max(1, total - 2)); b = rng.range(a + 1, total + 5); c = rng.range(b + 1, total + 20)
            first = rng.below(2)
            sw = [(0, first), (a, 1 - first), (b, first), (c, 1 - first)]
            cases.append((scn, execute(world, scn, "line", switches=sw), "line"))
            nline += 1
        dist[f"line-level {scn.kinds_str()}: line steps of the serial run"] = total
    chk.cov["input_distribution"] = dist
    chk.cov["line_level_runs"] = nline
    chk.cov["rule"] = (f"action mode: for every unordered pair of request kinds (run-step, run-steps 2, stream to stop time 1), "
                       f"scenarios with an injected simulation failure, with a client closing the stream after 0/2/4 chunks, with the stop time "
                       f"reached and with numberSteps 0, all schedules with <= {bound2} pre-emptions; four 3-request scenarios with <= {bound3}; "
                       "line mode (sys.settrace, park before every line of the three handlers, the stream generator and bptk.run_step): "
                       "serial run, single switch points, random double/triple switches; a case = scenario + the global order of visible actions; "
                       "non-trivial = at least one pre-emption or injected event")
    # model side
    cfgline = "cfg " + " ".join("1" if facts[k] else "0" for k in FACTS)
    req = [cfgline]
    labs = []
    for scn, rec, mode in cases:
        line, labels = model_line(scn, rec)
        req.append(line)
        labs.append(labels)
    replies = drive("C18", req)
    first_diff = None
    found = {}
    for idx, (scn, rec, mode) in enumerate(cases):
        sched, labels, tail = model_schedule(scn, rec)
        pre = sum(1 for k, (en, ch, cur) in enumerate(rec["decisions"]) if cur in en and ch != cur)
        chk.case((scn.key(), tuple(sched)), nontrivial=pre > 0 or bool(scn.fail) or bool(scn.gone),
                 sample={"kinds": scn.kinds_str(), "stop": scn.stop, "mode": mode, "schedule": ",".join(sched)} if pre > 1 else None)
        for key, text in reference(scn, rec):
            if key not in found:
                found[key] = (scn, rec, mode, text)
        d = compare(scn, rec, replies[idx + 1])
        if d is not None and first_diff is None:
            first_diff = (scn, rec, mode, d, req[idx + 1], replies[idx + 1])
    chk.cov["traces_validated_against_impl"] = len(cases)
    chk.notes["explore_wall_s"] = round(_t.time() - t0, 1)
    for key, (scn, rec, mode, text) in found.items():
        sched, _, _ = model_schedule(scn, rec)
        chk.add_finding(key, f"{scn.kinds_str()} (stop time {scn.stop}), schedule {','.join(sched)}: {text}",
                        replay_of(scn, rec, mode, text))
    bad = [k for k in FACTS if not facts[k]]
    probe_keys = {"lockIsTestAndSet": "lock-check-then-act", "runStepTakesLock": "run-step-without-lock",
                  "streamUnlocksOnDone": "stream-completion-leaves-lock", "unlockOnError": "error-leaves-lock",
                  "unlockOnClientGone": "client-gone-leaves-lock"}
    for k in bad:
        if probe_keys[k] not in found:
            chk.add_finding(probe_keys[k], f"probe {k} = false but no schedule explored exhibits the violation",
                            {"probe": k, "solo_labels": facts["_solo_labels"]}, found_input=False)
    if not ok:
        chk.add_finding("obligation", f"proof obligations of C18 no longer check: {why}",
                        {"theorem": "Bptk.C18.Gen.* / Bptk.Props.C18", "detail": why}, found_input=False)
    if first_diff is not None and not found:
        scn, rec, mode, d, rq, rp = first_diff
        chk.add_finding("correspondence", f"model and implementation disagree on {scn.kinds_str()}: {d}",
                        dict(replay_of(scn, rec, mode, d), request=rq, model_reply=rp), found_input=False)
    elif first_diff is not None:
        chk.notes["model_diff_under_violation"] = first_diff[3]


def replay_of(scn, rec, mode, text):
    return {"scenario": scn.to_json(), "mode": mode,
            "choices": rec["choices"] if mode == "action" else None,
            "switches": [(k, ch) for k, (en, ch, cur) in enumerate(rec["decisions"]) if ch != cur] if mode == "line" else None,
            "actions": [f"{t}:{l}" for t, l, i, f in rec["log"] if not f],
            "responses": [{"status": o["status"], "times": o["times"], "msgs": o["msgs"], "body": o["body"][:80]} for o in rec["out"]],
            "clock": rec["clock"], "locked_at_end": rec["lock"], "observed": text}


def replay(path):
    quiet_bptk_logging()
    r = json.load(open(path))["replay"]
    if "scenario" not in r:
        print("nothing to replay (no concrete schedule stored):", r)
        return 1
    scn = Scn(r["scenario"]["stop"], r["scenario"]["kinds"], r["scenario"]["fail"], r["scenario"]["gone"])
    world = World()
    try:
        if r["mode"] == "action":
            rec = execute(world, scn, "action", tuple(r["choices"]))
        else:
            TRACER.setup()
            rec = execute(world, scn, "line", switches=[tuple(x) for x in r["switches"]])
    finally:
        world.close()
    v = reference(scn, rec)
    print("scenario:", scn.to_json())
    print("actions:", " ".join(f"{t}:{l}" for t, l, i, f in rec["log"] if not f))
    print("responses:", [(o["status"], o["times"], o["msgs"]) for o in rec["out"]], "clock", rec["clock"], "locked", rec["lock"])
    print("violations on the current tree:", v)
    return 1 if v else 0
