"""C18 — step-advancing requests on one instance never interleave.

Real side: the three handlers (`run-step`, `run-steps`, `stream-steps`) are driven as WSGI calls from request
threads under a cooperative scheduler.  Every access to the state the requests share (the lock flag, the
session clock, the simulation call, the chunks handed to the client) is a *visible action*; exactly one
thread runs at a time and the scheduler decides, before every visible action, which thread performs the
next one.  Two modes:
  * action mode  — threads park inside the recording wrappers, immediately before each visible action;
                   schedules are enumerated exhaustively up to a pre-emption bound (iterative context bounding);
  * line mode    — `sys.settrace`: threads park before every source line of the handler functions and of
                   `bptk.run_step`; schedules = explicit switch points at line granularity (all single
                   switch points in thorough, sampled in quick); visible actions are only logged.
  * refusal sandwiches — directed schedules for every ordered triple (A, B, C) of request kinds: B stops before its
                   acquisition attempt, A acquires and advances j scheduling points, B ends (refused while A holds),
                   C arrives and ends, A ends; every j at action level, sampled / every j at line level;
  * thread programs — every handler alone under `sys.settrace` against a recording stub of the instance (the real
                   class code bound to a recording state): the recorded accesses become per-run obligations
                   `prog_*` (`decide`) against the model's program of that request kind.
Every run yields a global log of visible actions = a schedule of the Lean model (Drive/C18), which predicts
labels, statuses, step times, clock and lock; both are diffed.  Independently of the model the run is
checked against the statement of C18 (reference check) — a failure there is a violation with the schedule
as replay."""
import json, sys, threading, itertools
from common import *

SM, SC = "smC18", "base"
KINDS = ("p", "r", "s")            # run-step, run-steps, stream-steps


# ------------------------------------------------------------------------------------------- real server
GRID = {"start": 0.0, "dt": 1.0}       # the time grid of the session under test: time = start + index * dt


def idx(t):
    """grid index of a simulation time (the model counts steps)"""
    return int(round((float(t) - GRID["start"]) / GRID["dt"]))


def factory():
    import BPTK_Py
    from BPTK_Py import Model
    m = Model(starttime=GRID["start"], stoptime=GRID["start"] + 50.0 * GRID["dt"], dt=GRID["dt"], name="c18")
    stock, flow, const = m.stock("stock"), m.flow("flow"), m.constant("constant")
    stock.initial_value = 0.0
    stock.equation = flow
    flow.equation = const
    const.equation = 1.0
    b = BPTK_Py.bptk()
    b.register_scenario_manager({SM: {"model": m}})
    b.register_scenarios(scenario_manager=SM, scenarios={SC: {"constants": {"constant": 1.0}}})
    return b


class Deadlock(Exception):
    pass


class Ctl:
    """Cooperative scheduler + recorder.  `chooser(enabled, pending, current)` names the next thread."""
    def __init__(self):
        self.cv = threading.Condition()
        self.tls = threading.local()
        self.reset(None, "off")

    def reset(self, chooser, mode):
        self.chooser, self.mode = chooser, mode         # mode: off | action | line
        self.state, self.pending = {}, {}
        self.blocked = {}
        self.turn = None
        self.log = []                                   # (tid, label, info)
        self.decisions = []                             # (enabled tuple, chosen, current)
        self.choices = []
        self.sim_count = {}
        self.fail = {}                                  # tid -> index of the simulation call that raises
        self.current = None
        self.lines = 0

    # -- called from request threads
    def tid(self):
        return getattr(self.tls, "tid", None)

    def atomic(self):
        return getattr(self.tls, "atomic", 0)

    def _park(self, tid, label, blocked_on=None):
        with self.cv:
            self.state[tid] = "parked"
            self.pending[tid] = label
            self.blocked[tid] = blocked_on                  # a guard proxy the thread waits for (not enabled while it is held)
            self.cv.notify_all()
            while self.turn != tid:
                if not self.cv.wait(timeout=20):
                    raise Deadlock(f"thread {tid} never scheduled at {label}")
            self.turn = None
            self.state[tid] = "running"

    def visible(self, label, info=None, folded=False):
        """park (action mode) and record; returns the log entry [tid, label, info, folded] or None"""
        tid = self.tid()
        if tid is None or self.mode == "off":
            return None
        if self.atomic():
            if folded:
                self.log.append([tid, label, info, True])
            return None
        if self.mode == "action":
            self._park(tid, label)
        e = [tid, label, info, False]
        self.log.append(e)
        return e

    def line(self, where):
        tid = self.tid()
        if tid is None or self.mode != "line" or self.atomic():
            return
        self.lines += 1
        self._park(tid, where)

    def finish(self, tid):
        with self.cv:
            self.state[tid] = "done"
            self.cv.notify_all()

    # -- controller (main thread)
    def drive(self, n):
        with self.cv:
            while True:
                ok = self.cv.wait_for(lambda: self.turn is None and len(self.state) == n and
                                      all(v in ("parked", "done") for v in self.state.values()), timeout=30)
                if not ok:
                    raise Deadlock(f"threads did not quiesce: {self.state} pending={self.pending}")
                parked = tuple(sorted(t for t, v in self.state.items() if v == "parked"))
                enabled = tuple(t for t in parked if self.blocked.get(t) is None or not self.blocked[t].real.locked())
                if not parked:
                    return
                if not enabled:
                    raise Deadlock(f"every request waits for a guard: {self.pending}")
                ch = self.chooser(enabled, self.pending, self.current, len(self.choices))
                self.decisions.append((enabled, ch, self.current))
                self.choices.append(ch)
                self.current = ch
                self.state[ch] = "running"
                self.turn = ch
                self.cv.notify_all()


CTL = Ctl()
LOCK_TYPE = type(threading.Lock())


class GuardProxy:
    """stands in for a guard of the instance: the request parks before taking it (action mode) and does not park while it
    holds it (a parked holder would block every other request at the guard for real)."""
    def __init__(self, real, role="guard"):
        self.real = real
        self.role = role                 # "guard": protects the flag accesses; "flag": the lock object IS the flag

    def __enter__(self):
        tid = CTL.tid()
        if tid is not None and CTL.mode != "off" and not CTL.atomic():
            if CTL.mode == "action":
                CTL._park(tid, "G")
                CTL.tls.section = {"entry": None, "atomic": True}
                CTL.tls.atomic = CTL.atomic() + 1
                self.real.acquire()
            else:
                # line mode: the request may be parked while it holds the guard; a request that finds the guard taken
                # waits as "blocked" (the scheduler does not pick it) — two DIFFERENT guard objects do not exclude each other
                while not self.real.acquire(False):
                    CTL._park(tid, ("guard-wait", 0), blocked_on=self)
                CTL.tls.section = {"entry": None, "atomic": False}
            return self
        self.real.acquire()
        return self

    def __exit__(self, *exc):
        self.real.release()
        sec = getattr(CTL.tls, "section", None)
        if sec is not None:
            CTL.tls.section = None
            if sec.get("atomic"):
                CTL.tls.atomic = CTL.atomic() - 1
        return False

    def acquire(self, *a, **kw):
        if self.role == "flag":                               # acquire(blocking=False) on the flag object: one test-and-set
            e = CTL.visible("TAS")
            r = self.real.acquire(*a, **kw)
            if e is not None:
                e[2] = bool(r)
            elif r and CTL.tid() is not None and CTL.atomic():
                CTL.log.append([CTL.tid(), "SL", None, True])
            return r
        return self.real.acquire(*a, **kw)

    def release(self):
        if self.role == "flag":
            CTL.visible("CL", folded=True)
        return self.real.release()

    def locked(self):
        if self.role == "flag":
            CTL.visible("RL")
        return self.real.locked()


def lock_flag_access(write, v, cur=None):
    """one access to the lock flag by a request thread, recorded at the access itself (`cur`: the value a read will see).
    Inside a guard the test and the set are one `TAS`; it takes effect where it is decided: a test that finds the flag set is
    a refusal at the read, a test that finds it free counts when the set happens (another request's unguarded look at the
    flag in between still sees it free)."""
    tid = CTL.tid()
    if tid is None or CTL.mode == "off":
        return
    sec = getattr(CTL.tls, "section", None)
    if sec is None:                                           # outside every guard: an action of its own
        if not write:
            CTL.visible("RL")
        else:
            CTL.visible("SL" if v else "CL", folded=True)
    elif not write:
        if sec["entry"] is None and not sec.get("tested"):
            if cur:
                sec["entry"] = [tid, "TAS", False, False]
                CTL.log.append(sec["entry"])
            else:
                sec["tested"] = True                          # free: the TAS is logged when it sets
    elif v and sec.get("tested") and sec["entry"] is None:
        sec["entry"] = [tid, "TAS", True, False]
        CTL.log.append(sec["entry"])
        CTL.log.append([tid, "SL", None, True])
    elif v and sec["entry"] is not None and sec["entry"][1] == "TAS":
        sec["entry"][2] = True
        CTL.log.append([tid, "SL", None, True])
    else:
        sec["entry"] = [tid, "SL" if v else "CL", None, False]   # a write without a test under the same guard
        CTL.log.append(sec["entry"])


class RecDict(dict):
    """session_state with recorded accesses to the session clock and to the lock flag."""
    def __getitem__(self, k):
        if k == "step":
            CTL.visible("RS")
        elif k == "lock":
            lock_flag_access(False, None, cur=dict.get(self, "lock", False))
        return dict.__getitem__(self, k)

    def get(self, k, d=None):
        if k == "lock":
            lock_flag_access(False, None, cur=dict.get(self, "lock", False))
        return dict.get(self, k, d)

    def __setitem__(self, k, v):
        if k == "step":
            CTL.visible("WS", v)
        elif k == "lock":
            lock_flag_access(True, v)
        dict.__setitem__(self, k, v)

    def __deepcopy__(self, memo):                         # _get_instance_state copies the state for the external adapter
        import copy
        return {k: copy.deepcopy(dict.__getitem__(self, k), memo) for k in dict.keys(self)}


class InjectedError(Exception):
    pass


class World:
    """One BptkServer with one instance; sessions are re-begun for every run."""
    def __init__(self):
        from BPTK_Py.server import BptkServer
        import BPTK_Py.bptk                                   # noqa: F401  (the attribute BPTK_Py.bptk is the class)
        bmod = sys.modules["BPTK_Py.bptk"]
        self.bmod = bmod
        self.app = BptkServer("c18", factory)
        self.app.logger.disabled = True                      # injected failures would be logged with a traceback
        c = self.app.test_client()
        r = c.post("/start-instance", json={"timeout": {"weeks": 0, "days": 0, "hours": 1, "minutes": 0, "seconds": 0,
                                                        "milliseconds": 0, "microseconds": 0}})
        self.id = json.loads(r.data)["instance_uuid"]
        self.inst = self.app._instance_manager._instances[self.id]["instance"]
        self.client = c
        self.has_try_lock = hasattr(self.inst, "try_lock")
        self.followups = True
        self.flag_attr = self._find_flag()               # None: the flag is session_state["lock"]; else the attribute's name
        self._instrument()

    def fresh(self, restore=False):
        """a NEW instance of the same server whose lock has never been used (optionally with its session put in place the way
        a restore does it: _set_state); becomes the instance under test"""
        r = self.client.post("/start-instance", json={"timeout": {"weeks": 0, "days": 0, "hours": 1, "minutes": 0, "seconds": 0,
                                                                  "milliseconds": 0, "microseconds": 0}})
        self.id = json.loads(r.data)["instance_uuid"]
        self.inst = self.app._instance_manager._instances[self.id]["instance"]
        self.fresh_ids = getattr(self, "fresh_ids", []) + [self.id]
        self._instrument_instance()
        self.restore_mode = restore

    def prepare_fresh(self, stop):
        import copy
        if getattr(self, "restore_mode", False):
            st = copy.deepcopy(self.template_state)
            st["lock"] = False
            type(self.inst)._set_state(self.inst, st)
        else:
            assert self._begin().status_code == 200
        st = RecDict(self.inst.session_state)
        dict.__setitem__(st, "stoptime", GRID["start"] + float(stop) * GRID["dt"])
        self.inst.session_state = st

    def _begin(self):
        return self.client.post(f"/{self.id}/begin-session",
                                json={"scenario_managers": [SM], "scenarios": [SC], "equations": ["stock", "flow"]})

    def _find_flag(self):
        """where does lock() write?  (probed, not assumed: the recorder must sit on the real flag).  Sets flag_kind:
        "state" (session_state["lock"]), "attr" (a bool attribute of the instance), "lockobj" (a threading.Lock of the
        instance that lock() acquires: the lock object is the flag)."""
        r = self._begin()
        assert r.status_code == 200, r.data
        inst, cls = self.inst, type(self.inst)
        before = {k: v for k, v in vars(inst).items() if isinstance(v, bool)}
        locks = {k: v for k, v in vars(inst).items() if isinstance(v, LOCK_TYPE)}
        cls.lock(inst)
        changed = [k for k, v in vars(inst).items() if isinstance(v, bool) and before.get(k) != v]
        taken = [k for k, v in locks.items() if v.locked()]
        on_state = bool(inst.session_state.get("lock"))
        self.recorder_blind = bool(cls.is_locked(inst)) and not changed and not on_state and not taken
        cls.unlock(inst)
        for k in taken:                                     # an unlock() that does not release would poison the probes
            if locks[k].locked():
                locks[k].release()
        self.flag_kind = "state"
        if taken and not on_state:
            self.flag_kind = "lockobj"
            return taken[0]
        if changed and not on_state:
            self.flag_kind = "attr"
            return changed[0]
        return None

    def _flag_lock(self):
        g = self.inst.__dict__[self.flag_attr]
        return g.real if isinstance(g, GuardProxy) else g

    def flag_raw(self):
        """the stored flag, read without recording (None: there is no place for it right now)"""
        if self.flag_kind == "lockobj":
            return self._flag_lock().locked()
        if self.flag_attr is not None:
            return bool(self.inst.__dict__.get("_rec_" + self.flag_attr, False))
        st = self.inst.session_state
        return None if st is None else bool(dict.get(st, "lock", False))

    def flag_force(self, v):
        if self.flag_kind == "lockobj":
            lk = self._flag_lock()
            if v and not lk.locked():
                lk.acquire(False)
            elif not v and lk.locked():
                lk.release()
        elif self.flag_attr is not None:
            self.inst.__dict__["_rec_" + self.flag_attr] = bool(v)
        elif self.inst.session_state is not None:
            dict.__setitem__(self.inst.session_state, "lock", bool(v))

    def is_locked_now(self):
        """what is_locked() answers (class code, unrecorded: called from the controller thread)"""
        return bool(type(self.inst).is_locked(self.inst))

    def _instrument(self):
        """Guards of the instance.  The accesses to the lock flag are recorded where they happen (`RecDict`).  Whether a test and a set of the lock flag form ONE action is not read off a method name: an
        access is part of an atomic section exactly while a guard (a `threading.Lock` attribute of the instance) is held.
        The scheduler parks a request before it takes a guard (pending label `G`); what the section does to the flag gives
        the label: read [+ write True] = `TAS`, a bare write = `SL` / `CL`.  Accesses outside a guard are `RL` / `SL` / `CL`
        actions of their own, so an `is_locked()` in front of the guard and a `lock()` inside it are two actions the
        scheduler can separate."""
        self._instrument_instance()
        self._instrument_runner()

    def _instrument_instance(self):
        inst = self.inst
        cls = type(inst)
        world = self
        self.guards = []
        for k, v in list(vars(inst).items()):
            if isinstance(v, LOCK_TYPE):
                g = GuardProxy(v, "flag" if (self.flag_kind == "lockobj" and k == self.flag_attr) else "guard")
                inst.__dict__[k] = g
                self.guards.append(k)

        def hooked_setattr(obj, k, v):                    # a guard created later (lazily) is a guard as well
            if isinstance(v, LOCK_TYPE):
                v = GuardProxy(v, "guard")
                world.guards.append(k)
                world.late_guards.append(k)
            object.__setattr__(obj, k, v)
        self.late_guards = []
        members = {"__setattr__": hooked_setattr}
        if self.flag_kind == "attr":                     # the flag is an attribute: record it through a property
            name = self.flag_attr

            def fget(obj):
                cur = obj.__dict__.get("_rec_" + name, False)
                lock_flag_access(False, None, cur=cur)
                return obj.__dict__.get("_rec_" + name, False)

            def fset(obj, v):
                lock_flag_access(True, v)
                obj.__dict__["_rec_" + name] = v
            val = inst.__dict__.pop(name)
            inst.__dict__["_rec_" + name] = val
            members[name] = property(fget, fset)
        base = cls if not getattr(cls, "_c18_recording", False) else cls.__mro__[1]
        members["_c18_recording"] = True
        inst.__class__ = type(base.__name__, (base,), members)

    def _instrument_runner(self):
        runner = self.bmod.SdRunner
        self._orig_sim = runner.run_scenario_step          # restored on close (may be the wrapper of another World)
        orig = getattr(self._orig_sim, "_c18_orig", self._orig_sim)

        def run_scenario_step(rself, *a, **kw):
            tid = CTL.tid()
            CTL.visible("SIM")
            if tid is not None and CTL.mode != "off":
                k = CTL.sim_count.get(tid, 0)
                CTL.sim_count[tid] = k + 1
                if CTL.fail.get(tid) == k:
                    raise InjectedError("injected simulation failure")
            return orig(rself, *a, **kw)
        run_scenario_step._c18_orig = orig
        runner.run_scenario_step = run_scenario_step

    def close(self):
        self.bmod.SdRunner.run_scenario_step = self._orig_sim
        try:
            self.client.post(f"/{self.id}/stop-instance")
        finally:
            self.inst.destroy()
            if self.app._bptk is not None:
                self.app._bptk.destroy()

    def reset(self, stop):
        r = self._begin()
        if r.status_code != 200 or self.is_locked_now():  # a flag left set by an earlier run must not poison this one
            self.flag_force(False)
            r = self._begin()
        assert r.status_code == 200, r.data
        st = RecDict(self.inst.session_state)
        dict.__setitem__(st, "stoptime", GRID["start"] + float(stop) * GRID["dt"])
        self.inst.session_state = st

    def clock(self):
        st = self.inst.session_state
        return -1 if st is None else idx(dict.__getitem__(st, "step"))

    def locked(self):
        return bool(self.flag_raw())

    def afterwards(self):
        """what a client sees after the requests of a run have ended (observe_at of the property): what is_locked() answers,
        the times in the session's results log, and a follow-up run-step"""
        st = self.inst.session_state
        o = {"is_locked_after": self.is_locked_now(), "logged": None, "followup": None}
        if st is not None:
            o["logged"] = sorted(idx(k) for k in dict.__getitem__(st, "results_log").keys())
            self.nruns = getattr(self, "nruns", 0) + 1
            if self.followups and (self.nruns % 5 == 0 or self.nruns < 40):      # every fifth run (and the probes at the start)
                self.nfollow = getattr(self, "nfollow", 0) + 1
                r = self.client.post(f"/{self.id}/run-step", json={"settings": {}})
                o["followup"] = (r.status_code, r.data.decode()[:60])
                if self.is_locked_now():
                    self.flag_force(False)
        return o

    def rewrap(self):
        """after a session request replaced session_state: record the new one as well"""
        st = self.inst.session_state
        if st is not None and not isinstance(st, RecDict):
            self.inst.session_state = RecDict(st)

    # -- one request as a WSGI call (what a server thread does)
    def request(self, tid, kind, n, gone_after, out):
        from werkzeug.test import EnvironBuilder
        CTL.tls.tid = tid
        CTL.tls.atomic = 0
        CTL.tls.section = None
        res = {"status": None, "times": [], "msgs": 0, "body": "", "chunks": 0, "closed_early": False, "exc": None,
               "close_error": None}
        out[tid] = res
        try:
            if CTL.mode == "line":
                sys.settrace(TRACER.trace)
                CTL.line(("thread-start", 0))
            body = {"settings": {}}
            path = {"p": "run-step", "r": "run-steps", "s": "stream-steps"}[kind]
            if kind == "r":
                body["numberSteps"] = n
            env = EnvironBuilder(path=f"/{self.id}/{path}", method="POST", json=body).get_environ()
            got = {}

            def start_response(status, headers, exc_info=None):
                got["status"] = int(status.split()[0])
                return lambda b: None
            app_iter = self.app(env, start_response)
            res["status"] = got.get("status")
            it = iter(app_iter)
            chunks = []
            try:
                if kind == "s" and res["status"] == 200:
                    while True:
                        if gone_after is not None and len(chunks) == gone_after:
                            CTL.visible("GONE")
                            res["closed_early"] = True
                            break
                        try:
                            ch = next(it)
                        except StopIteration:
                            break
                        chunks.append(ch.decode())
                        CTL.visible("Y")
                else:
                    chunks = [b"".join(it).decode()]
            finally:
                CTL.tls.atomic = CTL.atomic() + (1 if res["closed_early"] else 0)
                try:
                    app_iter.close()
                except RuntimeError as e:                     # "generator ignored GeneratorExit": what the WSGI server gets
                    res["close_error"] = f"{type(e).__name__}: {e}"
                finally:
                    CTL.tls.atomic = 0
            res["chunks"] = len(chunks)
            res["body"] = "".join(chunks)[:300]
            if res["status"] == 200:
                if kind == "s":
                    objs = [json.loads(c) for c in chunks if c not in ("[", ",", "]")]
                elif kind == "r":
                    objs = json.loads(chunks[0])
                else:
                    objs = [json.loads(chunks[0])]
                for o in objs:
                    t = time_of(o)
                    if t is None:
                        res["msgs"] += 1
                    else:
                        res["times"].append(t)
        except Deadlock:
            raise
        except Exception as e:                                         # noqa: BLE001 — recorded, judged later
            res["exc"] = f"{type(e).__name__}: {e}"
        finally:
            sys.settrace(None)
            CTL.finish(tid)


def time_of(obj):
    """time (in steps) of one run_step result; None for the stop-time message / empty results."""
    if not isinstance(obj, dict) or "msg" in obj or "error" in obj:
        return None
    try:
        eqs = obj[SM][SC]
        k = next(iter(next(iter(eqs.values())).keys()))
        return idx(float(k))
    except Exception:
        return None


# ------------------------------------------------------------------------------------------- line tracer
class Tracer:
    def __init__(self):
        self.codes = {}
        self.src = {}

    def setup(self):
        from BPTK_Py.server.bptkServer import BptkServer
        import types, linecache
        bmod = sys.modules["BPTK_Py.bptk"]
        self.codes = {}
        self.src = {}                                   # (code name, line number) -> source text
        for name in ("_run_step_resource", "_run_steps_resource", "_stream_steps_resource"):
            f = getattr(BptkServer, name)
            f = getattr(f, "__wrapped__", f)
            self.codes[f.__code__] = name
            for c in f.__code__.co_consts:
                if isinstance(c, types.CodeType):
                    self.codes[c] = name + "." + c.co_name
        self.codes[bmod.bptk.run_step.__code__] = "bptk.run_step"
        self.codes[bmod.bptk.progress.__code__] = "bptk.progress"
        for fn in ("try_lock", "is_locked", "lock", "unlock"):          # every line of the lock functions as well
            if hasattr(bmod.bptk, fn):
                self.codes[getattr(bmod.bptk, fn).__code__] = "bptk." + fn
        for code, name in self.codes.items():
            for _, _, ln in code.co_lines():
                if ln is not None:
                    self.src[(name, ln)] = linecache.getline(code.co_filename, ln).strip()

    def trace(self, frame, event, arg):
        if event == "call":
            return self.local if frame.f_code in self.codes else None
        return None

    def local(self, frame, event, arg):
        if event == "line":
            CTL.line((self.codes[frame.f_code], frame.f_lineno))
        return self.local


TRACER = Tracer()


# ------------------------------------------------------------------------------------------- one run
class Scn:
    """kinds: list of (kind, n); stop; fail: {tid: k}; gone: {tid: chunks}"""
    def __init__(self, stop, kinds, fail=None, gone=None):
        self.stop, self.kinds = stop, [tuple(k) for k in kinds]
        self.fail = {int(k): v for k, v in (fail or {}).items()}
        self.gone = {int(k): v for k, v in (gone or {}).items()}

    def key(self):
        return (self.stop, tuple(self.kinds), tuple(sorted(self.fail.items())), tuple(sorted(self.gone.items())))

    def kinds_str(self):
        return ",".join(k if k != "r" else f"r{n}" for k, n in self.kinds)

    def to_json(self):
        return {"stop": self.stop, "kinds": self.kinds, "fail": self.fail, "gone": self.gone}


def execute(world, scn, mode, prefix=(), switches=None, chooser=None, prepare=None):
    """Run the scenario under the scheduler.  action mode: follow `prefix` (thread ids), then the default
    policy (stay on the current thread, else the lowest enabled id).  line mode: `switches` = list of
    (line-step index, thread id): at that global line step switch to that thread; otherwise stay."""
    (prepare or world.reset)(scn.stop)
    n = len(scn.kinds)
    if chooser is not None:
        pass
    elif mode == "action":
        def chooser(enabled, pending, current, k):
            if k < len(prefix) and prefix[k] in enabled:
                return prefix[k]
            return current if current in enabled else enabled[0]
    else:
        sw = dict(switches or [])

        def chooser(enabled, pending, current, k):
            want = sw.get(k)
            if want is not None and want in enabled:
                return want
            return current if current in enabled else enabled[0]
    CTL.reset(chooser, mode)
    CTL.fail = dict(scn.fail)
    out = {}
    ths = [threading.Thread(target=world.request, args=(i, k, nn, scn.gone.get(i), out), daemon=True)
           for i, (k, nn) in enumerate(scn.kinds)]
    try:
        for i, t in enumerate(ths):           # start-up (routing, instance lookup) runs serially
            t.start()
            with CTL.cv:
                if not CTL.cv.wait_for(lambda: CTL.state.get(i) in ("parked", "done"), timeout=30):
                    raise Deadlock(f"thread {i} did not reach its first action")
        CTL.drive(n)
    finally:
        for t in ths:
            t.join(timeout=20)
    rec = {"log": list(CTL.log), "decisions": list(CTL.decisions), "choices": list(CTL.choices),
           "out": [out[i] for i in range(n)], "clock": world.clock(), "lock": world.locked(), "lines": CTL.lines}
    CTL.reset(None, "off")
    rec.update(world.afterwards())
    return rec


# ------------------------------------------------------------------------------------------- model side
def model_schedule(scn, rec):
    """The run's log as a schedule of the Lean model (+ the labels the model must reproduce)."""
    sched, labels = [], []
    simk = {}
    for tid, lab, info, folded in rec["log"]:
        if folded:
            continue
        ev = "g"
        if lab == "SIM":
            k = simk.get(tid, 0)
            simk[tid] = k + 1
            if scn.fail.get(tid) == k:
                ev = "f"
        if lab == "GONE":
            ev = "x"
        sched.append(f"{tid}{ev}")
        labels.append(lab)
    # completion of a stream that does not unlock is not a recorded action: let every thread finish
    tail = [f"{i}g" for i in range(len(scn.kinds))]
    return sched, labels, tail


def model_line(scn, rec):
    sched, labels, tail = model_schedule(scn, rec)
    return f"run {scn.stop} {scn.kinds_str()} {','.join(sched + tail) or '-'}", labels


def canon_real(scn, rec, labels):
    """Real outcome in the driver's reply format (only what the statement fixes)."""
    ths = []
    for i, (k, n) in enumerate(scn.kinds):
        o = rec["out"][i]
        if o["status"] == 500 and "locked" in o["body"]:
            st = "refused"
        elif o["closed_early"]:
            st = "gone"
        elif i in scn.fail and any(l[0] == i and l[1] == "SIM" for l in rec["log"]) and \
                sum(1 for l in rec["log"] if l[0] == i and l[1] == "SIM") > scn.fail[i]:
            st = "error"
        elif o["status"] == 200:
            st = "ok"
        else:
            st = f"http{o['status']}"
        ths.append((st, o["times"], o["msgs"]))
    produced = [idx(info) - 1 for tid, lab, info, folded in rec["log"] if lab == "WS"]
    return labels, ths, rec["clock"], rec["lock"], produced


def parse_model(reply, nlabels):
    labs, ths, fin = reply.split("|")
    labs = labs.split(",") if labs else []
    tail = labs[nlabels:]
    labs = labs[:nlabels]
    tl = []
    for t in ths.split(";"):
        st, res, msgs, holds, pc = t.split(":")
        tl.append((st, [] if res == "-" else [int(x) for x in res.split(".")], int(msgs), holds == "1", pc))
    f = dict(x.split("=") for x in fin.split(";"))
    return labs, tail, tl, int(f["clock"]), f["lock"] == "1", [] if f["produced"] == "-" else [int(x) for x in f["produced"].split(".")]


def compare(scn, rec, reply):
    """None if the model's prediction equals the real outcome, else a description of the first difference."""
    line, labels = model_line(scn, rec)
    rl, rths, rclock, rlock, rprod = canon_real(scn, rec, labels)
    ml, tail, mths, mclock, mlock, mprod = parse_model(reply, len(labels))
    if ml != rl:
        k = next((i for i, (a, b) in enumerate(zip(ml, rl)) if a != b), min(len(ml), len(rl)))
        return f"action {k}: model {ml[k] if k < len(ml) else None} impl {rl[k] if k < len(rl) else None}"
    for i, ((mst, mres, mmsgs, mholds, mpc), (rst, rres, rmsgs)) in enumerate(zip(mths, rths)):
        if mpc != "done":
            return f"thread {i}: model not finished ({mst}) impl {rst}"
        if (mst, mres, mmsgs) != (rst, rres, rmsgs):
            return f"thread {i}: model {(mst, mres, mmsgs)} impl {(rst, rres, rmsgs)}"
        k, n = scn.kinds[i]
        http = rec["out"][i]["status"]
        want = {"ok": 200, "refused": 500, "gone": 200, "error": 500 if k == "p" else 200}.get(mst)
        if http != want:
            return f"thread {i}: status {http}, model says {mst} -> {want}"
    if (mclock, mlock, mprod) != (rclock, rlock, rprod):
        return f"final: model clock={mclock} lock={mlock} produced={mprod} impl clock={rclock} lock={rlock} produced={rprod}"
    return None


# ------------------------------------------------------------------------------------------- reference check
def reference(scn, rec):
    """The statement of C18 checked directly on the recorded run; returns [(key, text)]."""
    out = []
    kinds = [k for k, _ in scn.kinds]
    holders = set()
    how_ended = {}
    stepping = {}            # tid -> inside run_step (between RS of run_step and WS)
    nsim = {}
    overlap_multi = overlap_p = False
    stolen = None            # a request that never acquired cleared the flag while another one holds the lock
    acquirers = {t for t, l, i, f in rec["log"] if l == "SL" or (l == "TAS" and i)}
    stepped = {t for t, l, i, f in rec["log"] if l in ("SIM", "WS")}
    unlocked_p = any(k == "p" and t in stepped and t not in acquirers for t, k in enumerate(kinds))
    for tid, lab, info, folded in rec["log"]:
        if folded and lab != "CL":
            continue
        if lab != "SIM":
            stepping[tid] = False
        if lab in ("SL",):
            if holders - {tid}:
                overlap_multi = True
                out.append(("lock-check-then-act", f"request {tid} ({kinds[tid]}) sets the lock while request(s) "
                            f"{sorted(holders - {tid})} hold it"))
            holders.add(tid)
        elif lab == "TAS" and info:
            if holders - {tid}:
                out.append(("lock-check-then-act", f"request {tid} acquired through try_lock while {sorted(holders - {tid})} hold the lock"))
            holders.add(tid)
        elif lab == "CL":
            if tid not in holders and holders and stolen is None:
                stolen = (tid, sorted(holders), len(out))
            holders.discard(tid)
        elif lab in ("RS", "SIM", "WS"):
            others = holders - {tid}
            if others and lab in ("SIM", "WS"):
                key = "run-step-without-lock" if kinds[tid] == "p" and tid not in holders else "lock-check-then-act"
                out.append((key, f"request {tid} ({kinds[tid]}) performs {lab} while request {sorted(others)} holds the lock"))
            if lab == "SIM":
                busy = [t for t, v in stepping.items() if v and t != tid]
                if busy:
                    key = "run-step-without-lock" if any(kinds[b] == "p" and b not in acquirers for b in busy + [tid]) else "lock-check-then-act"
                    out.append((key, f"requests {busy + [tid]} are inside run_step at the same time"))
                nsim[tid] = nsim.get(tid, 0) + 1
                stepping[tid] = scn.fail.get(tid) != nsim[tid] - 1      # an injected failure ends run_step at once
    produced = [idx(info) - 1 for tid, lab, info, folded in rec["log"] if lab == "WS"]
    if len(set(produced)) != len(produced):
        dup = sorted({p for p in produced if produced.count(p) > 1})
        key = "run-step-without-lock" if unlocked_p and not any(k == "lock-check-then-act" for k, _ in out) else "lock-check-then-act"
        out.append((key, f"simulation time(s) {dup} produced twice (write order {produced})"))
    total = 0
    for i, o in enumerate(rec["out"]):
        if o["exc"]:
            out.append(("harness-exception", f"request {i}: {o['exc']}"))
        if o["status"] == 200:
            t = o["times"]
            total += len(t)
            if t != list(range(t[0], t[0] + len(t))) if t else False:
                out.append(("non-consecutive", f"response {i} ({kinds[i]}) contains steps {t}"))
        if o["status"] == 500 and "locked" in o["body"]:
            if any(l[0] == i and l[1] in ("RS", "SIM", "WS") for l in rec["log"]):
                out.append(("refused-but-stepped", f"request {i} was refused but touched the clock"))
    if rec["clock"] != total and not any(k in ("lock-check-then-act", "run-step-without-lock") for k, _ in out):
        out.append(("clock-mismatch", f"clock advanced by {rec['clock']} but {total} steps were returned"))
    elif rec["clock"] != total:
        out.append((next(k for k, _ in out if k in ("lock-check-then-act", "run-step-without-lock")),
                    f"clock advanced by {rec['clock']} but {total} steps were returned"))
    if rec["lock"]:
        # who left it set?
        last = None
        for tid, lab, info, folded in rec["log"]:
            if lab == "SL" or (lab == "TAS" and info):
                last = tid
        o = rec["out"][last] if last is not None else None
        if last is None:
            key = "lock-leak"
        elif o["closed_early"]:
            key = "client-gone-leaves-lock"
        elif last in scn.fail:
            key = "error-leaves-lock"
        elif kinds[last] == "s":
            key = "stream-completion-leaves-lock"
        else:
            key = "lock-leak"
        ce = o.get("close_error") if o is not None else None
        out.append((key, f"all requests have ended but the instance is still locked (last acquired by request {last}, {kinds[last] if last is not None else '?'})"
                    + (f"; closing its response was answered by {ce}: the generator yielded again while being closed and stays suspended in front of unlock()" if ce else "")))
    if stolen is not None:
        tid, held, at = stolen
        why = (f"request {tid} ({kinds[tid]}) was refused but ran unlock() on its way out and cleared the lock held by "
               f"request(s) {held}; then: ")
        out = out[:at] + [("refusal-releases-lock", why + t) if k in ("lock-check-then-act", "run-step-without-lock") else (k, t)
                          for k, t in out[at:]]
    if rec.get("is_locked_after") and not rec["lock"]:
        out.append(("lock-leak", "after all requests have ended the stored flag is free but is_locked() still answers True"))
    if rec.get("followup") is not None and not rec["lock"] and rec["followup"][0] != 200:
        out.append(("lock-leak", f"all requests have ended and the flag is free, yet a follow-up run-step is answered {rec['followup']}"))
    if rec.get("logged") is not None and sorted(set(produced)) != rec["logged"] and \
            not any(k in ("lock-check-then-act", "run-step-without-lock", "refusal-releases-lock") for k, _ in out):
        out.append(("results-log-mismatch", f"times written by the requests {sorted(produced)} but the session's results log holds {rec['logged']}"))
    prim = [k for k, _ in out if k in ("refusal-releases-lock", "lock-check-then-act", "run-step-without-lock")]
    if prim:                       # consequences of an interleaving are reported under its cause
        out = [(prim[0] if k in ("non-consecutive", "clock-mismatch", "refused-but-stepped") else k, t) for k, t in out]
    return out


# ------------------------------------------------------------------------------------------- exploration
def explore(world, scn, bound, budget):
    """All schedules of the scenario with at most `bound` pre-emptions (iterative context bounding)."""
    stack = [((), 0)]
    runs = 0
    while stack and runs < budget:
        prefix, used = stack.pop()
        rec = execute(world, scn, "action", prefix)
        runs += 1
        yield rec
        for k in range(len(prefix), len(rec["decisions"])):
            enabled, chosen, cur = rec["decisions"][k]
            cost = 1 if cur in enabled else 0
            if used + cost > bound:
                continue
            for alt in enabled:
                if alt != chosen:
                    stack.append((tuple(rec["choices"][:k]) + (alt,), used + cost))


def scenarios(chk):
    """request-kind combinations (all ordered pairs are covered by the scheduler's choice of who starts)."""
    two = []
    for a, b in itertools.combinations_with_replacement(KINDS, 2):
        two.append(Scn(1, [(a, 2), (b, 2)]))
    extra = [
        Scn(2, [("r", 3), ("p", 0)]),
        Scn(1, [("s", 0), ("s", 0)], gone={0: 2}),
        Scn(1, [("s", 0), ("r", 2)], gone={0: 0}),
        Scn(1, [("s", 0), ("p", 0)], gone={0: 4}),
        Scn(2, [("r", 2), ("r", 2)], fail={0: 1}),
        Scn(2, [("s", 0), ("p", 0)], fail={0: 1}),
        Scn(2, [("p", 0), ("r", 2)], fail={0: 0}),
        Scn(1, [("r", 3), ("s", 0)]),                      # stop time reached inside run-steps
        Scn(1, [("r", 0), ("p", 0)]),                      # numberSteps = 0
    ]
    three = [Scn(1, [("r", 2), ("s", 0), ("p", 0)]), Scn(1, [("r", 1), ("r", 1), ("p", 0)]),
             Scn(1, [("s", 0), ("s", 0), ("p", 0)]), Scn(1, [("p", 0), ("p", 0), ("p", 0)])]
    return two, extra, three


# ------------------------------------------------------------------------------------------- refusal sandwiches
def _acquired(tid):
    return any(t == tid and (l == "SL" or (l == "TAS" and i)) for t, l, i, f in CTL.log)


def _released(tid):
    return any(t == tid and l == "CL" for t, l, i, f in CTL.log)


def _about_to_acquire(p, line):
    if line:
        txt = TRACER.src.get(p, "") if isinstance(p, tuple) else ""
        return "try_lock(" in txt or ".lock()" in txt or (isinstance(p, tuple) and p[0] == "bptk.try_lock")
    return p in ("TAS", "SL", "G")


def sandwich_chooser(j, line=False):
    """A = request 0, B = request 1, C = request 2.  B runs up to (not including) its attempt to acquire, A acquires
    and performs j more actions (line mode: line steps), B runs to its end (it is refused while A holds the lock),
    C runs to its end (it must be refused as well), then A and whoever is left run to their ends."""
    st = {"phase": 0, "after": 0}

    def chooser(enabled, pending, current, k):
        while True:
            ph = st["phase"]
            if ph == 0:
                if 1 in enabled and not _about_to_acquire(pending.get(1), line):
                    return 1
                st["phase"] = 1
            elif ph == 1:
                if 0 in enabled and (not _acquired(0) or st["after"] < j):
                    if _acquired(0):
                        st["after"] += 1
                    return 0
                st["phase"] = 2
            elif ph == 2:
                if 1 in enabled:
                    return 1
                st["phase"] = 3
            elif ph == 3:
                if 2 in enabled:
                    return 2
                st["phase"] = 4
            else:
                return current if current in enabled else enabled[0]
    return chooser


def critical_section_length(world, kind, stop, line):
    """number of scheduling points of a request of this kind (alone) between its acquisition and its release."""
    marks = []

    def chooser(enabled, pending, current, k):
        marks.append(_acquired(0) and not _released(0))
        return enabled[0]
    execute(world, Scn(stop, [kind]), "line" if line else "action", chooser=chooser)
    return sum(1 for m in marks if m)


SANDWICH_KINDS = (("r", 2), ("s", 0), ("p", 0))


def sandwiches(world, rng, line, per_triple):
    """(scn, rec) for every ordered triple of request kinds (A holder, B refused between A's acquire and release, C arriving
    in the middle of A) and positions j inside A's critical section (all when per_triple is None, else a sample)."""
    stop = 1
    span = {k: critical_section_length(world, k, stop, line) for k in SANDWICH_KINDS}
    for a in SANDWICH_KINDS:
        for b in SANDWICH_KINDS:
            for c in SANDWICH_KINDS:
                js = list(range(0, span[a] + 1))
                if per_triple is not None and len(js) > per_triple:
                    js = sorted(rng.shuffle(js)[:per_triple])
                for j in js:
                    scn = Scn(stop, [a, b, c])
                    yield scn, execute(world, scn, "line" if line else "action", chooser=sandwich_chooser(j, line)), span[a]


# ------------------------------------------------------------------------------------------- direct search (fallback)
def direct_search(world):
    """Used when a traced program differs from the model's: for every ordered pair of request kinds, request 0 runs k source
    lines (every k up to its first write of the session clock), request 1 runs until it is inside its first simulation call
    (or has ended, e.g. refused), request 0 runs to its end, request 1 ends — on the real handlers at line granularity
    (handlers, stream generator, run_step, progress, try_lock/is_locked/lock/unlock)."""
    def wrote(tid, lab):
        return any(t == tid and l == lab for t, l, i, f in CTL.log)

    for a in SANDWICH_KINDS:
        for b in SANDWICH_KINDS:
            scn = Scn(1, [a, b])
            marks = []

            def serial(enabled, pending, current, k):
                marks.append(wrote(0, "WS"))
                return 0 if 0 in enabled else enabled[0]
            execute(world, scn, "line", chooser=serial)
            limit = next((k for k, m in enumerate(marks) if m), len(marks))
            for k0 in range(1, limit + 1):
                st = {"phase": 0}

                def chooser(enabled, pending, current, k, k0=k0, st=st):
                    if st["phase"] == 0:
                        if k < k0 and 0 in enabled:
                            return 0
                        st["phase"] = 1
                    if st["phase"] == 1:
                        if 1 in enabled and not wrote(1, "SIM"):
                            return 1
                        st["phase"] = 2
                    if st["phase"] == 2:
                        if 0 in enabled:
                            return 0
                        st["phase"] = 3
                    return current if current in enabled else enabled[0]
                yield scn, execute(world, scn, "line", chooser=chooser)


# ------------------------------------------------------------------------------------------- first use of the lock (wave 10)
def first_use_chooser(k, j):
    """request 0 executes k lines of bptk.try_lock, request 1 executes j lines of it (it may stay parked INSIDE the guard),
    request 0 runs on until it is inside its first simulation call (or has ended), request 1 runs to its end, the rest."""
    st = {"phase": 0, 0: 0, 1: 0}

    def in_try_lock(p):
        return isinstance(p, tuple) and p[0] == "bptk.try_lock"

    def chooser(enabled, pending, current, kk):
        while True:
            ph = st["phase"]
            if ph in (0, 1):
                t, lim = ph, (k if ph == 0 else j)
                if t in enabled and st[t] < lim:
                    if in_try_lock(pending.get(t)):
                        st[t] += 1
                    return t
                st["phase"] += 1
            elif ph == 2:
                if 0 in enabled and not any(t == 0 and l == "SIM" for t, l, i, f in CTL.log):
                    return 0
                st["phase"] = 3
            elif ph == 3:
                if 1 in enabled:
                    return 1
                st["phase"] = 4
            else:
                return current if current in enabled else enabled[0]
    return chooser


def first_use_runs(world, quick):
    """two contenders on a FRESH instance (no try_lock has run on it) and on a just-restored one, pairs of stop points at every
    line of bptk.try_lock (before the guard is taken and inside it); (scn, rec, tag)"""
    TRACER.setup()
    nl = len([1 for (name, ln) in TRACER.src if name == "bptk.try_lock"])
    old = (world.id, world.inst, world.guards)
    combos = [((("p", 0), ("p", 0)), False), ((("s", 0), ("r", 2)), False), ((("p", 0), ("p", 0)), True)]
    if not quick:
        combos += [((("s", 0), ("r", 2)), True), ((("r", 2), ("s", 0)), False)]
    try:
        for (a, b), restore in combos:
            for k in range(0, nl + 1):
                for j in range(1, nl + 1):
                    world.fresh(restore)
                    scn = Scn(1, [a, b])
                    rec = execute(world, scn, "line", chooser=first_use_chooser(k, j), prepare=world.prepare_fresh)
                    if world.is_locked_now():
                        world.flag_force(False)
                    yield scn, rec, {"fresh": True, "restore": restore, "k": k, "j": j}
    finally:
        world.id, world.inst, world.guards = old


# ------------------------------------------------------------------------------------------- thread programs by tracing
class TraceDict(dict):
    """session_state of the stub: every access to the lock flag and to the session clock is recorded."""
    def __init__(self, src, stub):
        dict.__init__(self, src)
        self._stub = stub

    def __getitem__(self, k):
        if k == "lock":
            self._stub.lock_access("R", None)
        elif k == "step":
            self._stub.rec("RS")
        return dict.__getitem__(self, k)

    def get(self, k, d=None):
        if k == "lock":
            self._stub.lock_access("R", None)
        elif k == "step":
            self._stub.rec("RS")
        return dict.get(self, k, d)

    def __setitem__(self, k, v):
        if k == "lock":
            self._stub.lock_access("W", v)
        elif k == "step":
            self._stub.rec("WS")
        dict.__setitem__(self, k, v)


class StubLock:
    """the stub's stand-in for a threading.Lock that is used as the flag itself"""
    def __init__(self, stub, real):
        self.stub, self.real = stub, real

    def acquire(self, *a, **kw):
        self.stub.rec("TAS")
        return self.real.acquire(*a, **kw)

    def release(self):
        self.stub.rec("CL")
        return self.real.release()

    def locked(self):
        self.stub.lock_access("R", None)
        return self.real.locked()

    def __enter__(self):
        self.acquire()
        return self

    def __exit__(self, *exc):
        self.release()
        return False


class StubInstance:
    """Recording stand-in for the bptk instance of one request.  The code that runs is the real code of class bptk
    (`is_locked/lock/unlock/try_lock/run_step/progress` are taken from the class and bound to the stub), the state is
    a recording dict, the guards (`threading.Lock` attributes of the real instance) are fresh ones.  An access to the
    lock flag while a guard is held is part of one atomic test-and-set (label TAS); outside it is RL / SL / CL."""
    def __init__(self, world, stop, locked=False, take_after_reads=None):
        import threading as _th
        self._b = world.bmod.bptk
        self._guards = []
        self._flag_kind = getattr(world, "flag_kind", "state")
        self._lockobj = None
        for k, v in vars(world.inst).items():
            if isinstance(v, (LOCK_TYPE, GuardProxy)):
                if self._flag_kind == "lockobj" and k == world.flag_attr:
                    self._lockobj = _th.Lock()
                    setattr(self, k, StubLock(self, self._lockobj))     # the lock object is the flag
                else:
                    g = _th.Lock()
                    setattr(self, k, g)
                    self._guards.append(g)
        for k, v in vars(world.inst).items():           # plain attributes the class code expects (e.g. a guard not yet created)
            if k not in self.__dict__ and not k.startswith("_rec_") and (v is None or isinstance(v, (bool, int, float, str))) \
                    and k != getattr(world, "flag_attr", None):
                self.__dict__[k] = v
        self.scenario_manager_factory = world.inst.scenario_manager_factory
        self.trace = []                       # [label, (code name, line)]
        self.folding, self.folded = False, []
        self.cur = None
        self.free_reads = 0
        self.take_after_reads = take_after_reads
        self._tas = None
        st = {k: dict.__getitem__(world.inst.session_state, k) for k in dict.keys(world.inst.session_state)}
        st["stoptime"] = GRID["start"] + float(stop) * GRID["dt"]
        st["settings_log"], st["results_log"] = {}, {}
        self.session_state = TraceDict(st, self)
        self._flag_attr = world.flag_attr
        self._flagval = False
        self.flag_set_raw(bool(locked))

    def flag_get_raw(self):
        if self._lockobj is not None:
            return self._lockobj.locked()
        if self._flag_attr is not None:
            return self._flagval
        return bool(dict.get(self.session_state, "lock", False))

    def flag_set_raw(self, v):
        if self._lockobj is not None:
            if v and not self._lockobj.locked():
                self._lockobj.acquire(False)
            elif not v and self._lockobj.locked():
                self._lockobj.release()
        elif self._flag_attr is not None:
            self._flagval = v
        else:
            dict.__setitem__(self.session_state, "lock", v)

    def __getattr__(self, name):                     # everything else: the real class's code, bound to the stub
        import types
        if name == "_b":
            raise AttributeError(name)
        a = getattr(self._b, name)
        return types.MethodType(a, self) if isinstance(a, types.FunctionType) else a

    def rec(self, label):
        if self.folding:                      # what closing the stream does is part of the GONE action
            self.folded.append(label)
        else:
            self.trace.append([label, self.cur])

    def lock_access(self, rw, v):
        guarded = any(v.locked() for v in self.__dict__.values() if isinstance(v, LOCK_TYPE) and v is not self._lockobj)
        if guarded:
            if rw == "R":
                self._tas = [len(self.trace)]
                self.rec("TAS")
            elif v and self._tas is not None:
                self._tas = None                                 # the set half of the test-and-set
            else:
                self.rec("SL" if v else "CL")
            return
        if rw == "R":
            self.rec("RL")
            if not self.flag_get_raw():
                self.free_reads += 1
                if self.take_after_reads is not None and self.free_reads == self.take_after_reads:
                    self._take = True                            # another request acquires right after this read
        else:
            self.rec("SL" if v else "CL")

    def after_read(self):
        if getattr(self, "_take", False):
            self._take = False
            self.flag_set_raw(True)


PROGRAM_PATHS = [
    # name, kind, numberSteps, stop, options
    ("runStep_complete", "p", 0, 5, {}),
    ("runStep_error", "p", 0, 5, {"fail": 0}),
    ("runStep_refused", "p", 0, 5, {"locked": True}),
    ("runStep_stopReached", "p", 0, 0, {"clock": 1}),
    ("runSteps2_complete", "r", 2, 5, {}),
    ("runSteps0_complete", "r", 0, 5, {}),
    ("runSteps3_stopReached", "r", 3, 1, {}),
    ("runSteps2_error", "r", 2, 5, {"fail": 1}),
    ("runSteps_refusedAtTest", "r", 2, 5, {"locked": True}),
    ("runSteps_refusedAtAcquire", "r", 2, 5, {"take": 1}),
    ("stream_complete", "s", 0, 1, {}),
    ("stream_error", "s", 0, 2, {"fail": 1}),
    ("stream_gone0", "s", 0, 1, {"gone": 0}),
    ("stream_gone1", "s", 0, 1, {"gone": 1}),
    ("stream_gone2", "s", 0, 1, {"gone": 2}),
    ("stream_gone3", "s", 0, 1, {"gone": 3}),
    ("stream_gone4", "s", 0, 1, {"gone": 4}),
    ("stream_gone5", "s", 0, 1, {"gone": 5}),
    ("stream_refused", "s", 0, 5, {"locked": True}),
    # other body shapes the handlers distinguish (wave 7): the same programs …
    ("runStep_noBody", "p", 0, 5, {"body": None}),
    ("runStep_flat", "p", 0, 5, {"body": {"settings": {}, "flatResults": True}}),
    ("runSteps2_flat", "r", 2, 5, {"body": {"numberSteps": 2, "settings": {}, "flatResults": True}}),
    ("stream_noBody", "s", 0, 1, {"body": None}),
    ("stream_flat", "s", 0, 1, {"body": {"settings": {}, "flatResults": True}}),
    # … and bodies that fail validation: no step, nothing held afterwards (fact invalidRequestHoldsNothing)
    ("runStep_noSettings", "p", 0, 5, {"body": {}, "invalid": True}),
    ("runSteps_noBody", "r", 0, 5, {"body": None, "invalid": True}),
    ("runSteps_noNumber", "r", 0, 5, {"body": {"settings": {}}, "invalid": True}),
    ("runSteps_noSettings", "r", 0, 5, {"body": {"numberSteps": 2}, "invalid": True}),
    ("runSteps_textNumber", "r", 0, 5, {"body": {"numberSteps": "2", "settings": {}}, "invalid": True}),
    ("stream_noSettings", "s", 0, 1, {"body": {}, "invalid": True}),
]


def trace_program(world, kind, n, stop, opt):
    """Run one handler alone, under sys.settrace, against a recording stub; returns the recorded shared accesses."""
    world.reset(5)
    stub_cls = StubInstance
    if getattr(world, "flag_kind", "state") == "attr":     # the flag is an attribute of the instance: a recording property
        def fget(obj):
            obj.lock_access("R", None)
            return obj._flagval

        def fset(obj, v):
            obj.lock_access("W", v)
            obj.__dict__["_flagval"] = v
        stub_cls = type("StubInstanceAttr", (StubInstance,), {world.flag_attr: property(fget, fset)})
    stub = stub_cls(world, stop, locked=opt.get("locked", False), take_after_reads=opt.get("take"))
    if "clock" in opt:
        dict.__setitem__(stub.session_state, "step", GRID["start"] + float(opt["clock"]) * GRID["dt"])
    entry = world.app._instance_manager._instances[world.id]
    runner = world.bmod.SdRunner
    prev_sim = runner.run_scenario_step
    sims = [0]

    def run_scenario_step(rself, *a, **kw):
        stub.rec("SIM")
        k = sims[0]
        sims[0] += 1
        if opt.get("fail") == k:
            raise InjectedError("injected simulation failure")
        return prev_sim(rself, *a, **kw)

    lines = set()
    gen_line = [None]

    def local(frame, event, arg):
        if event == "line":
            stub.cur = (TRACER.codes[frame.f_code], frame.f_lineno)
            if stub.cur[0].endswith(".streamer"):
                gen_line[0] = frame.f_lineno                 # where the generator is (about to be) suspended
            lines.add(stub.cur)
            stub.after_read()
        elif event == "return":
            stub.after_read()
        return local

    def tracer(frame, event, arg):
        if event == "call" and frame.f_code in TRACER.codes:
            return local
        return None
    path = {"p": "run-step", "r": "run-steps", "s": "stream-steps"}[kind]
    name = {"p": "_run_step_resource", "r": "_run_steps_resource", "s": "_stream_steps_resource"}[kind]
    body = {"settings": {}}
    if kind == "r":
        body["numberSteps"] = n
    if "body" in opt:
        body = opt["body"]
    out = {"status": None, "chunks": 0, "exc": None, "close_error": None, "gone_line": None}
    real = entry["instance"]
    entry["instance"] = stub
    runner.run_scenario_step = run_scenario_step
    try:
        with world.app.test_request_context(f"/{world.id}/{path}", method="POST", **({"json": body} if body is not None else {})):
            sys.settrace(tracer)
            try:
                rv = getattr(world.app, name)(instance_uuid=world.id)
                out["status"] = rv.status_code
                if kind == "s" and rv.status_code == 200:
                    it = iter(rv.response)
                    try:
                        while True:
                            if opt.get("gone") is not None and out["chunks"] == opt["gone"]:
                                stub.rec("GONE")
                                stub.folding = True
                                out["gone_line"] = gen_line[0]
                                break
                            try:
                                next(it)
                            except StopIteration:
                                break
                            out["chunks"] += 1
                            stub.rec("Y")
                    finally:
                        try:
                            rv.close()
                        except RuntimeError as e:            # generator ignored GeneratorExit
                            out["close_error"] = f"{type(e).__name__}: {e}"
            except InjectedError:
                out["status"] = 500                              # run-step lets the error through: Flask answers 500
            except Exception as e:                               # noqa: BLE001 — recorded, judged by the comparison
                out["exc"] = f"{type(e).__name__}: {e}"
            finally:
                sys.settrace(None)
    finally:
        runner.run_scenario_step = prev_sim
        entry["instance"] = real
    out["labels"] = [l for l, w in stub.trace]
    out["where"] = [f"{l}@{w[0]}:{w[1]}" if w else f"{l}@client" for l, w in stub.trace]
    out["lines"] = len(lines)
    out["locked_at_end"] = bool(stub.flag_get_raw())
    return out


def program_schedule(opt, labels):
    """the model schedule (request = thread 0; thread 1 = the other request that holds the lock in the refusal paths)"""
    ev = []
    simk = 0
    for l in labels:
        if l == "SIM":
            ev.append("0f" if opt.get("fail") == simk else "0g")
            simk += 1
        elif l == "GONE":
            ev.append("0x")
        else:
            ev.append("0g")
    if opt.get("locked"):
        return ["1g", "1g"] + ev, True
    if opt.get("take") is not None:
        k = opt["take"]
        return ev[:k] + ["1g", "1g"] + ev[k:], True
    return ev, False


def trace_programs(world):
    TRACER.setup()
    res = []
    for name, kind, n, stop, opt in PROGRAM_PATHS:
        o = trace_program(world, kind, n, stop, opt)
        o.update(name=name, kind=kind, n=n, stop=stop, opt=opt)
        res.append(o)
    return res


def facts_from_programs(P):
    """the six mechanism facts read off the traced programs (cross-check of the probes)."""
    def after(labels, mark, what):
        return mark in labels and what in labels[labels.index(mark):]
    f = {}
    f["lockIsTestAndSet"] = all("TAS" in P[n]["labels"] and "SL" not in P[n]["labels"] for n in ("runSteps2_complete", "stream_complete"))
    lp = P["runStep_complete"]["labels"]
    f["runStepTakesLock"] = ("TAS" in lp or "SL" in lp) and "CL" in lp
    f["streamUnlocksOnDone"] = not P["stream_complete"]["locked_at_end"]
    f["unlockOnError"] = not P["runSteps2_error"]["locked_at_end"] and not P["stream_error"]["locked_at_end"]
    f["unlockOnClientGone"] = not P["stream_gone2"]["locked_at_end"]
    inv = [o for o in P.values() if o["opt"].get("invalid")]
    f["_invalidRequestHoldsNothing"] = all(not o["locked_at_end"] and not any(l in ("RS", "SIM", "WS") for l in o["labels"]) for o in inv)
    f["refusalKeepsLock"] = all("CL" not in P[n]["labels"] for n in
                                ("runStep_refused", "runSteps_refusedAtTest", "runSteps_refusedAtAcquire", "stream_refused")
                                if P[n]["status"] == 500 and "SL" not in P[n]["labels"])
    return f


LEAN_KIND = {"p": ".runStep", "s": ".stream"}


def program_obligations(progs, facts):
    """per-run obligations: the model's program for the request kind performs exactly the recorded accesses."""
    cfgline = "cfg " + " ".join("1" if facts[k] else "0" for k in FACTS)
    req = [cfgline]
    meta = []
    for o in progs:
        if o["opt"].get("invalid"):
            continue
        sched, other = program_schedule(o["opt"], o["labels"])
        kinds = [("r", o["n"]) if o["kind"] == "r" else (o["kind"], 0)] + ([("r", 1)] if other else [])
        ks = ",".join(k if k != "r" else f"r{n}" for k, n in kinds)
        if "clock" in o["opt"]:                      # the session is already past its stop time: an earlier request stepped
            pre = ["1g"] * (2 + 3 * int(o["opt"]["clock"]) + 1)
            kinds = kinds + [("r", int(o["opt"]["clock"]))]
            ks = ",".join(k if k != "r" else f"r{n}" for k, n in kinds)
            sched = pre + sched
        full = sched + ["0g", "0g"]
        req.append(f"run {o['stop']} {ks} {','.join(full)}")
        meta.append((o, kinds, full))
    replies = drive("C18", req)
    out = []
    for (o, kinds, full), rep in zip(meta, replies[1:]):
        labs, ths, fin = rep.split("|")
        labs = labs.split(",")
        mine = [l for a, l in zip(full, labs) if a[:-1] == "0" and l not in ("NOOP", "END")]
        done = ths.split(";")[0].split(":")[4] == "done"
        ok = mine == o["labels"] and done                     # exactly what the Lean obligation states
        lk = "[" + ", ".join(LEAN_KIND.get(k, f".runSteps {n}") for k, n in kinds) + "]"
        ev = {"g": ".go", "f": ".fail", "x": ".gone"}
        ls = "[" + ", ".join(f"({a[:-1]}, {ev[a[-1]]})" for a in full) + "]"
        want = "[" + ", ".join("." + l for l in o["labels"]) + "]"
        out.append({"name": o["name"], "ok": ok, "exc": o["exc"], "model": mine, "impl": o["labels"], "model_done": done,
                    "lean": f"theorem prog_{o['name']} : progOk cfg {o['stop']} {lk} {ls} 0 {want} = {'true' if ok else 'false'} := by decide"})
    return out


# ------------------------------------------------------------------------------------------- session requests (informational)
def session_race(world, which, at):
    """`begin-session` / `end-session` arriving while a run-steps 3 (request 0) is between acquire and release; afterwards a
    run-step (request 1) arrives, then the run-steps ends.  These two are not step-advancing requests, so the run is outside
    the statement's quantifier; what they do to the stepping requests is recorded, never judged."""
    st = {"done": False, "status": None}

    def chooser(enabled, pending, current, k):
        if not st["done"] and _acquired(0) and sum(1 for l in CTL.log if l[0] == 0 and not l[3]) >= at:
            st["done"] = True
            if which == "begin":
                r = world.client.post(f"/{world.id}/begin-session",
                                      json={"scenario_managers": [SM], "scenarios": [SC], "equations": ["stock", "flow"]})
            else:
                r = world.client.post(f"/{world.id}/end-session")
            st["status"] = r.status_code
            if world.inst.session_state is not None:
                world.inst.session_state = RecDict(world.inst.session_state)
        if not st["done"]:
            return 0 if 0 in enabled else enabled[0]
        return 1 if 1 in enabled else enabled[0]
    scn = Scn(5, [("r", 3), ("p", 0)])
    world.reset(scn.stop)
    try:
        rec = execute_no_reset(world, scn, chooser)
    except Exception as e:                                   # noqa: BLE001 — informational
        return {"error": f"{type(e).__name__}: {e}"}
    o0, o1 = rec["out"]
    return {"session_request_status": st["status"], "actions": " ".join(f"{t}:{l}" for t, l, i, f in rec["log"] if not f),
            "run-steps 3": {"status": o0["status"], "times": o0["times"], "body": o0["body"][:120]},
            "run-step": {"status": o1["status"], "times": o1["times"], "body": o1["body"][:80]},
            "run-step accepted while run-steps in progress": o1["status"] == 200 and not ("locked" in o1["body"])}


def execute_no_reset(world, scn, chooser, fail=None, mode="action"):
    n = len(scn.kinds)
    CTL.reset(chooser, mode)
    CTL.fail = dict(fail or {})
    out = {}
    ths = [threading.Thread(target=world.request, args=(i, k, nn, scn.gone.get(i), out), daemon=True) for i, (k, nn) in enumerate(scn.kinds)]
    try:
        for i, t in enumerate(ths):
            t.start()
            with CTL.cv:
                if not CTL.cv.wait_for(lambda: CTL.state.get(i) in ("parked", "done"), timeout=30):
                    raise Deadlock(f"thread {i} did not reach its first action")
        CTL.drive(n)
    finally:
        for t in ths:
            t.join(timeout=20)
    rec = {"log": list(CTL.log), "out": [out[i] for i in range(n)]}
    CTL.reset(None, "off")
    return rec


# ------------------------------------------------------------------------------------------- session lifecycle (wave 5)
SFACTS = ["flagOnInstance", "lockNeedsSession", "unlockNeedsSession", "sessionReqExcluded"]
SREQ = {"end": "E", "begin": "B", "restore": "R"}


def session_request(world, which):
    """a session request performed on the controller thread while every request thread is parked; returns 'done' | 'refused'"""
    if which == "begin":
        ok = world._begin().status_code == 200
    elif which == "end":
        ok = world.client.post(f"/{world.id}/end-session").status_code == 200
    else:                                        # restore: the instance manager puts a stored session state back (_set_state)
        import copy
        st = copy.deepcopy(world.template_state)
        st["lock"] = False
        try:
            type(world.inst)._set_state(world.inst, st)
            ok = True
        except Exception:                         # noqa: BLE001
            ok = False
    world.rewrap()
    return "done" if ok else "refused"


def probe_sessions(world):
    """where the flag lives and what lock()/unlock()/the session handlers do without / with a session (raw calls, no threads)"""
    inst, cls = world.inst, type(world.inst)
    f = {"flagOnInstance": world.flag_attr is not None}
    world.reset(5)
    world.template_state = {k: dict.__getitem__(inst.session_state, k) for k in dict.keys(inst.session_state)}
    st = inst.session_state
    inst.session_state = None
    cls.lock(inst)
    f["lockNeedsSession"] = not bool(cls.is_locked(inst))
    world.flag_force(False)
    inst.session_state = st
    world.flag_force(False)
    cls.lock(inst)
    inst.session_state = None
    cls.unlock(inst)
    inst.session_state = st
    f["unlockNeedsSession"] = bool(cls.is_locked(inst))
    world.flag_force(False)
    cls.lock(inst)
    r1 = world._begin().status_code
    still = bool(cls.is_locked(inst)) if f["flagOnInstance"] else None
    world.flag_force(False)
    world.reset(5)
    cls.lock(inst)
    r2 = world.client.post(f"/{world.id}/end-session").status_code
    world.flag_force(False)
    f["sessionReqExcluded"] = r1 != 200 and r2 != 200
    f["_detail"] = {"flag": (("threading.Lock attribute " if world.flag_kind == "lockobj" else "attribute ") + world.flag_attr) if world.flag_attr else 'session_state["lock"]',
                    "begin-session while locked": r1, "end-session while locked": r2}
    world.reset(5)
    return f


def session_runs(world, quick, rng):
    """A = a stream (stop time 1) or a run-steps 3 (request 0); at EVERY action boundary k of A a session request
    (end-session, begin-session, restore) arrives on a thread of its own; then a run-step C (request 1) arrives and ends;
    then A ends — by completion, by an injected simulation failure in its next step, or (stream) by its client going away;
    afterwards the liveness probe: begin-session + run-step must be answered 200.  Variant `nosession` (source-line level):
    A starts without a session (end-session before it), a begin-session arrives after k of A's source lines."""
    for kind, stop in ((("s", 0), 1), (("r", 3), 5)):
        base = execute(world, Scn(stop, [kind]), "action")
        acts = [l for l in base["log"] if not l[3]]
        for k in range(0, len(acts) + 1):
            sims = sum(1 for l in acts[:k] if l[1] == "SIM")
            ys = sum(1 for l in acts[:k] if l[1] == "Y")
            endings = [("complete", {}, {}), ("error", {0: sims}, {})]
            if kind[0] == "s":
                endings.append(("gone", {}, {0: ys}))
            for which in ("end", "begin", "restore"):
                for ename, fail, gone in endings:
                    yield session_run(world, kind, stop, k, which, ename, fail, gone, False)
    TRACER.setup()
    for kind, stop in ((("r", 3), 5), (("s", 0), 1)):
        probe_run = session_run(world, kind, stop, 10 ** 6, "begin", "complete", {}, {}, True)
        total = probe_run.get("a_steps", 0)
        ks = list(range(0, total + 1))
        if quick and len(ks) > 14:
            ks = sorted(rng.shuffle(ks)[:14])
        for k in ks:
            yield session_run(world, kind, stop, k, "begin", "complete", {}, {}, True)


def session_run(world, kind, stop, k, which, ename, fail, gone, nosession):
    """action mode: k = number of A's actions before the session request; nosession (line mode): k = number of A's line steps"""
    scn = Scn(stop, [kind, ("p", 0)], fail=fail, gone=gone)
    world.reset(stop)
    if nosession:
        session_request(world, "end")
    st = {"phase": 0, "sreq": None, "at": None, "a_steps": 0, "a_tried": False, "a_tried_before": False, "a_done_before": False}

    def chooser(enabled, pending, current, kk):
        if st["phase"] == 0:
            progressed = st["a_steps"] if nosession else sum(1 for l in CTL.log if l[0] == 0 and not l[3])
            if 0 in enabled and progressed < k:
                if nosession:
                    st["a_steps"] += 1
                    p = pending.get(0)
                    txt = TRACER.src.get(p, "") if isinstance(p, tuple) else ""
                    if (isinstance(p, tuple) and p[0] == "bptk.try_lock" and txt.startswith("return")) or \
                            (not world.has_try_lock and isinstance(p, tuple) and ".lock()" in txt):
                        st["a_tried"] = True                 # after this step the guarded section has run
                    if isinstance(p, tuple) and p[0] == "bptk.unlock":
                        st["in_unlock"] = True               # the request is inside unlock()
                return 0
            st["a_tried_before"] = st["a_tried"]
            p0 = pending.get(0) if 0 in enabled else None
            left_unlock = st.get("in_unlock", False) and not (isinstance(p0, tuple) and p0[0] == "bptk.unlock")
            st["a_done_before"] = 0 not in enabled or left_unlock or any(l[0] == 0 and l[1] == "CL" for l in CTL.log)
            st["a_pending"] = pending.get(0) if 0 in enabled else None
            st["sreq"] = session_request(world, which)
            st["at"] = len(CTL.log)
            st["phase"] = 1
        if st["phase"] == 1:
            if 1 in enabled:
                return 1
            st["phase"] = 2
        return 0 if 0 in enabled else enabled[0]
    try:
        rec = execute_no_reset(world, scn, chooser, fail=fail, mode="line" if nosession else "action")
    except Exception as e:                                   # noqa: BLE001
        world.flag_force(False)
        return {"error": f"{type(e).__name__}: {e}", "scn": scn, "k": k, "which": which, "ending": ename, "nosession": nosession}
    if st["sreq"] is None:                                   # A ended before boundary k was reached: the request arrives now
        st["a_tried_before"], st["a_done_before"] = st["a_tried"], True
        st["sreq"] = session_request(world, which)
        st["at"] = len(rec["log"])
    flag_after = world.is_locked_now()
    clock_after = world.clock()
    b = world._begin()
    world.rewrap()
    alive = world.client.post(f"/{world.id}/run-step", json={"settings": {}})
    live = {"begin-session": b.status_code, "run-step": alive.status_code, "body": alive.data.decode()[:60]}
    if world.is_locked_now():
        world.flag_force(False)
    r = {"scn": scn, "k": k, "which": which, "ending": ename, "nosession": nosession, "log": rec["log"], "out": rec["out"],
         "sreq": st["sreq"], "at": st["at"], "flag_after": flag_after, "clock_after": clock_after, "live": live, "a_steps": st["a_steps"],
         "a_done_before": st["a_done_before"], "a_pending": st.get("a_pending")}
    if nosession:
        r["a_tried_before"] = st["a_tried_before"]
    else:
        first = next((i for i, l in enumerate(rec["log"]) if l[0] == 0 and not l[3] and
                      (l[1] in ("TAS", "SL") or (l[1] == "RL" and _refused_as_locked(rec["out"][0])))), None)
        r["a_tried_before"] = first is not None and first < st["at"]
    return r


def _refused_as_locked(o):
    return o["status"] == 500 and "locked" in o["body"]


def session_events(r):
    """the run as a schedule of the session machine (three requests: A, C, the liveness run-step) and what the real side
    observed for each event; returns (events of the run itself, events of the liveness probe, observations).
    The order of the acquisitions and ends FOLLOWS THE REAL LOG (the acquisition/refusal entry and the CL entry of each
    request; the session request sits in front of log index `at`); only a request that left no entry of its own (no flag
    access at all, e.g. no session on older trees) is placed by what the scheduler knew (tried / done before the request)."""
    a, c = r["out"]
    acc = lambda o: "refused" if _refused_as_locked(o) else "accepted"
    log = r["log"]
    at = r["at"] if r["at"] is not None else len(log)

    def first_attempt(t):
        return next((i for i, l in enumerate(log) if l[0] == t and not l[3] and
                     (l[1] in ("TAS", "SL") or (l[1] == "RL" and _refused_as_locked(r["out"][t])))), None)

    def release(t, after):
        return next((i for i, l in enumerate(log) if l[0] == t and l[1] == "CL" and i > after), None)
    items = [(at - 0.5, SREQ[r["which"]], r["sreq"])]
    # request A (0)
    ia = first_attempt(0)
    ka = ia if ia is not None else ((at - 0.9) if r["a_tried_before"] else len(log) + 1)
    items.append((ka, "a0", acc(a)))
    if acc(a) == "accepted":
        ra = release(0, ka) if ia is not None else None
        if ra is None:
            last = max((i for i, l in enumerate(log) if l[0] == 0), default=None)
            if r["a_tried_before"] and r["a_done_before"]:
                ra = at - 0.8
            else:
                ra = (last + 0.1) if (last is not None and last > ka) else max(ka, len(log)) + 2
        items.append((ra, "f0", "ended"))
    # request C (1)
    ic = first_attempt(1)
    kc = ic if ic is not None else at - 0.4
    items.append((kc, "a1", acc(c)))
    if acc(c) == "accepted":
        rc = release(1, kc) if ic is not None else None
        if rc is None:
            last = max((i for i, l in enumerate(log) if l[0] == 1), default=None)
            rc = (last + 0.1) if (last is not None and last > kc) else kc + 0.05
        items.append((rc, "f1", "ended"))
    items.sort(key=lambda x: x[0])
    ev = [x[1] for x in items]
    obs = [x[2] for x in items]
    live = ["B", "a2"]
    lobs = ["done" if r["live"]["begin-session"] == 200 else "refused",
            "refused" if (r["live"]["run-step"] == 500 and "locked" in r["live"]["body"]) else "accepted"]
    return ev, live, obs + lobs


def clock_events(r):
    """the run as a schedule of the session clock machine and the real results log as (session state number, time)"""
    log = r["log"]
    ev, real = [], []
    epoch = 0
    injected = False
    tried, ended = set(), set()

    def inject():
        nonlocal epoch
        ev.append(SREQ[r["which"]])
        if r["which"] in ("begin", "restore") and r["sreq"] == "done":
            epoch += 1
    nxt = {}
    for i, l in enumerate(log):                        # for every entry: the next unfolded entry of the same request
        pass
    unf = [(i, l) for i, l in enumerate(log) if not l[3]]
    for pos, (i, l) in enumerate(unf):
        nxt[i] = next((m[1] for j, m in unf[pos + 1:] if m[0] == l[0]), None)
    # a request parked INSIDE an access to session_state (the dict object is already looked up) performs that access on the
    # old state object: with respect to the session request the access comes first
    early = None
    if r.get("a_pending") in ("RS", "WS"):
        early = next((i for i, l in unf if i >= r["at"] and l[0] == 0), None)

    def emit(i, l):
        t, lab, info, folded = l
        if lab == "RS" and nxt.get(i) == "SIM":
            ev.append(f"r{t}")
        elif lab == "WS":
            ev.append(f"w{t}")
            real.append((epoch, idx(info) - 1))
    for i, l in enumerate(log):
        if not injected and i >= r["at"]:
            if early is not None:
                emit(early, log[early])
            inject()
            injected = True
        t, lab, info, folded = l
        if lab == "CL":
            if t in tried and t not in ended and not _refused_as_locked(r["out"][t]):
                ev.append(f"f{t}"); ended.add(t)
            continue
        if folded or i == early:
            continue
        if t not in tried and (lab in ("TAS", "SL") or (lab == "RL" and _refused_as_locked(r["out"][t]))):
            tried.add(t)
            ev.append(f"a{t}")
        else:
            emit(i, l)
    if not injected:
        inject()
    return ev, real, epoch


def judge_session_run(r):
    """the statement on a run with a session request: [(key, text)]"""
    out = []
    if "error" in r:
        return [("harness-exception", r["error"])]
    log = [l for l in r["log"] if not l[3]]
    a, c = r["out"]
    a_acq = next((i for i, l in enumerate(r["log"]) if l[0] == 0 and (l[1] == "SL" or (l[1] == "TAS" and l[2]))), None)
    a_steps_after = any(l[0] == 0 and l[1] in ("SIM", "WS") and i >= r["at"] for i, l in enumerate(r["log"]))
    a_in_progress = r["a_tried_before"] and not _refused_as_locked(a)
    a_unfinished = not r["a_done_before"]
    c_stepped = any(l[0] == 1 and l[1] in ("SIM", "WS") for l in r["log"])
    c_acq = next((i for i, l in enumerate(r["log"]) if l[0] == 1 and (l[1] == "SL" or (l[1] == "TAS" and l[2]))), None)
    a_idx = [i for i, l in enumerate(r["log"]) if l[0] == 0]
    a_rel = next((i for i, l in enumerate(r["log"]) if l[0] == 0 and l[1] == "CL" and i >= (r["at"] or 0)), a_idx[-1] if a_idx else -1)
    overlapped = c_acq is None or c_acq < a_rel              # the run-step really got in before request 0 let go
    if a_in_progress and a_unfinished and not _refused_as_locked(c) and c_stepped and overlapped:
        out.append(("session-request-resets-lock",
                    f"{r['which']}-session arrived while request 0 ({r['scn'].kinds_str().split(',')[0]}) was in progress "
                    f"(after {r['k']} of its actions{', started without a session' if r['nosession'] else ''}); the run-step that arrived next was "
                    f"answered {c['status']} with step(s) {c['times']} although request 0 had not ended"
                    f"{' and went on stepping afterwards' if a_steps_after else ''}"))
    if r["live"]["run-step"] != 200:
        out.append(("lock-outlives-session",
                    f"{r['which']}-session arrived after {r['k']} actions of request 0 ({r['scn'].kinds_str().split(',')[0]}), which then ended by "
                    f"{r['ending']}; all requests have ended, yet after a new begin-session ({r['live']['begin-session']}) a run-step is answered "
                    f"{r['live']['run-step']} {r['live']['body']}"))
    return out


def session_replay_of(r, text):
    return {"session_run": {"kind": list(r["scn"].kinds[0]), "stop": r["scn"].stop, "k": r["k"], "which": r["which"], "ending": r["ending"],
                            "fail": r["scn"].fail, "gone": r["scn"].gone, "nosession": r["nosession"]},
            "actions": [f"{t}:{l}" for t, l, i, f in r.get("log", []) if not f], "session_request_at": r.get("at"),
            "responses": [{"status": o["status"], "times": o["times"], "body": o["body"][:80]} for o in r.get("out", [])],
            "liveness": r.get("live"), "observed": text}


# ------------------------------------------------------------------------------------------- generator shape (wave 6)
TOK_LEAN = {"y": ".yld", "u": ".unlock", "o": ".other", "r": ".ret", "T": ".tryB", "X1": ".exceptB true", "X0": ".exceptB false",
            "F": ".finallyB", "E": ".endTry", "C1": ".condB true", "C0": ".condB false", "D1": ".endCond true", "D0": ".endCond false"}


def streamer_shape():
    """the body of the generator handed to the streaming Response, read off the real source with `ast`:
    [(token, line)] — positions of the yields relative to try / except / finally and to the unlock() call."""
    import ast, inspect, textwrap
    from BPTK_Py.server.bptkServer import BptkServer
    f = BptkServer._stream_steps_resource
    f = getattr(f, "__wrapped__", f)
    src = textwrap.dedent(inspect.getsource(f))
    base = f.__code__.co_firstlineno - 1
    tree = ast.parse(src)
    gens = [n for n in ast.walk(tree) if isinstance(n, ast.FunctionDef) and n is not tree.body[0] and
            any(isinstance(x, (ast.Yield, ast.YieldFrom)) for x in ast.walk(n))]
    if not gens:
        return None
    gen = gens[0]

    def has_yield(node):
        return any(isinstance(x, (ast.Yield, ast.YieldFrom)) for x in ast.walk(node))

    def is_unlock(node):
        return isinstance(node, ast.Expr) and isinstance(node.value, ast.Call) and \
            isinstance(node.value.func, ast.Attribute) and node.value.func.attr == "unlock"

    def catches_exit(h):
        if h.type is None:
            return True
        names = [h.type] if not isinstance(h.type, ast.Tuple) else list(h.type.elts)
        return any(isinstance(n, ast.Name) and n.id in ("BaseException", "GeneratorExit") for n in names)
    out = []

    def block(stmts):
        for st in stmts:
            ln = st.lineno + base
            if isinstance(st, ast.Try):
                out.append(("T", ln))
                block(st.body)
                block(st.orelse)
                for h in st.handlers:
                    out.append(("X1" if catches_exit(h) else "X0", h.lineno + base))
                    block(h.body)
                if st.finalbody:
                    out.append(("F", st.finalbody[0].lineno + base))
                    block(st.finalbody)
                out.append(("E", ln))
            elif isinstance(st, ast.If):
                if has_yield(st.test):
                    out.append(("y", ln))
                out.append(("C0", ln)); block(st.body); out.append(("D0", ln))
                if st.orelse:
                    out.append(("C0", ln)); block(st.orelse); out.append(("D0", ln))
            elif isinstance(st, (ast.While, ast.For)):
                out.append(("C1", ln))
                if has_yield(st.test if isinstance(st, ast.While) else st.iter):
                    out.append(("y", ln))
                block(st.body)
                out.append(("D1", ln))
                if st.orelse:
                    out.append(("C0", ln)); block(st.orelse); out.append(("D0", ln))
            elif isinstance(st, ast.With):
                block(st.body)
            elif isinstance(st, (ast.Return, ast.Raise)):
                out.append(("r", ln))
            elif isinstance(st, (ast.FunctionDef, ast.ClassDef)):
                out.append(("o", ln))
            elif has_yield(st):
                yl = next(x.lineno for x in ast.walk(st) if isinstance(x, (ast.Yield, ast.YieldFrom)))
                out.append(("y", yl + base))
            elif is_unlock(st):
                out.append(("u", ln))
            else:
                out.append(("o", ln))
    block(gen.body)
    return out


def shape_obligations(shape, facts, progs):
    """kernel-decided shape fact + comparison of the predicted outcome of close() with what the traced gone-paths did"""
    toks = [t for t, _ in shape]
    rep = drive("C18", ["gclose " + ",".join(toks)])[0]
    per, safe = rep.split("|")
    safe = safe == "safe=1"
    pred = {}
    for x in per.split(";"):
        if x:
            k, u, st = x.split(":")
            pred[int(k)] = (u == "1", st == "1")
    line_of = {ln: i for i, (t, ln) in enumerate(shape) if t == "y"}
    dyn = []
    for o in progs:
        if "gone" in o["opt"] and o.get("gone_line") is not None and o["status"] == 200:
            k = line_of.get(o["gone_line"])
            real = (not o["locked_at_end"], o["close_error"] is not None)
            dyn.append({"path": o["name"], "yield_line": o["gone_line"], "token": k, "model": pred.get(k), "impl": real,
                        "agree": k is not None and pred.get(k) == real})
    b = lambda x: "true" if x else "false"
    lean = ("/-! the generator handed to the streaming Response, read off the source with ast (token, source line): "
            + " ".join(f"{t}@{ln}" for t, ln in shape) + " -/\n"
            "def streamerShape : List Gen.Tok := [" + ", ".join(TOK_LEAN[t] for t in toks) + "]\n"
            f"theorem streamer_close_safe : Gen.closeSafe streamerShape = {b(safe)} := by decide\n")
    agree = facts["unlockOnClientGone"] == safe
    if agree:
        lean += "theorem shape_is_the_fact : cfg.unlockOnClientGone = Gen.closeSafe streamerShape := by decide\n"
        if safe and facts["streamUnlocksOnDone"] and facts["unlockOnError"]:
            lean += ("theorem holds_release_of_shape (stop : Nat) (ks : List Kind) (sched : Schedule) : ClRelease (run cfg (State.init stop ks) sched) :=\n"
                     "  C18_release_of_shape cfg streamerShape (by decide) (by decide) (by decide) (by decide) stop ks sched\n"
                     "#print axioms holds_release_of_shape\n")
        if not safe:
            lean += ("theorem violated_by_shape : ¬ C18_full cfg := C18_witness_client_gone cfg (by decide)\n"
                     "#print axioms violated_by_shape\n")
    return {"lean": lean, "safe": safe, "agree": agree, "pred": pred, "dynamic": dyn}


# ------------------------------------------------------------------------------------------- request bodies, adapter (wave 7)
BODY_SHAPES = [
    # name, endpoint, body (None = no JSON body), what the statement expects: "steps" | "nothing"
    ("run-step no body", "run-step", None, "steps"),
    ("run-step {} (no settings)", "run-step", {}, "nothing"),
    ("run-step flatResults", "run-step", {"settings": {}, "flatResults": True}, "steps"),
    ("run-step settings with values", "run-step", {"settings": {SM: {SC: {"constants": {"constant": 2.0}}}}}, "steps"),
    ("run-steps no body", "run-steps", None, "nothing"),
    ("run-steps {} (no numberSteps)", "run-steps", {}, "nothing"),
    ("run-steps no settings", "run-steps", {"numberSteps": 2}, "nothing"),
    ("run-steps numberSteps '2' (text)", "run-steps", {"numberSteps": "2", "settings": {}}, "nothing"),
    ("run-steps numberSteps 2.5", "run-steps", {"numberSteps": 2.5, "settings": {}}, "nothing"),
    ("run-steps numberSteps -1", "run-steps", {"numberSteps": -1, "settings": {}}, "nothing"),
    ("run-steps numberSteps 0", "run-steps", {"numberSteps": 0, "settings": {}}, "nothing"),
    ("run-steps numberSteps null", "run-steps", {"numberSteps": None, "settings": {}}, "nothing"),
    ("run-steps numberSteps 7 > steps left", "run-steps", {"numberSteps": 7, "settings": {}}, "steps"),
    ("run-steps flatResults", "run-steps", {"numberSteps": 2, "settings": {}, "flatResults": True}, "steps"),
    ("stream-steps no body", "stream-steps", None, "steps"),
    ("stream-steps {} (no settings)", "stream-steps", {}, "nothing"),
    ("stream-steps flatResults", "stream-steps", {"settings": {}, "flatResults": True}, "steps"),
]


def _times_in(text):
    import re
    try:
        obj = json.loads(text)
    except Exception:                                         # noqa: BLE001
        return None
    out = []

    def walk(o):
        if isinstance(o, dict):
            if SM in o and isinstance(o[SM], dict):
                t = time_of(o) if SC in o[SM] and isinstance(o[SM][SC], dict) and o[SM][SC] and \
                    isinstance(next(iter(o[SM][SC].values())), dict) else None
                if t is None:                                  # flat results carry no time: counted, not placed
                    out.append(None)
                else:
                    out.append(t)
        elif isinstance(o, list):
            for x in o:
                walk(x)
    walk(obj)
    return out


def body_shapes(world):
    """every handler with every body shape the code distinguishes, (a) on a free instance, (b) while the lock is held by
    somebody else; afterwards: flag, clock, follow-up.  Returns (findings, counts)."""
    out, counts = [], {}
    for held in (False, True):
        for name, ep, body, expect in BODY_SHAPES:
            world.reset(3)
            world.flag_force(held)
            c0 = world.clock()
            kw = {"json": body} if body is not None else {}
            try:
                r = world.client.post(f"/{world.id}/{ep}", **kw)
                status, text = r.status_code, r.data.decode()
            except Exception as e:                             # noqa: BLE001
                status, text = None, f"{type(e).__name__}: {e}"
            c1 = world.clock()
            flag = world.flag_raw()
            ans = world.is_locked_now()
            counts[("held: " if held else "free: ") + name] = 1
            what = f"{ep} with body {json.dumps(body) if body is not None else '(none)'}"
            if held:
                if not flag:
                    out.append(("refusal-releases-lock", f"{what} arrived while another request holds the lock, was answered {status} and cleared the lock"))
                if c1 != c0:
                    out.append(("run-step-without-lock" if ep == "run-step" else "lock-check-then-act",
                                f"{what} arrived while another request holds the lock, was answered {status} and advanced the clock from {c0} to {c1}"))
                world.flag_force(False)
                continue
            if flag or ans:
                key = "invalid-request-leaves-lock" if (expect == "nothing" or (status or 500) >= 400) else "lock-leak"
                out.append((key, f"{what} was answered {status} {text[:60]!r}; the request has ended but the instance is still locked"))
                world.flag_force(False)
                continue
            times = _times_in(text) if status == 200 else []
            n = len(times or [])
            if expect == "nothing" and (c1 != c0):
                out.append(("clock-mismatch", f"{what} was answered {status} and advanced the clock from {c0} to {c1}"))
            if expect == "steps":
                placed = [t for t in (times or []) if t is not None]
                if status != 200 or c1 - c0 != n or (placed and placed != list(range(c0, c0 + len(placed)))):
                    out.append(("clock-mismatch" if status == 200 else "lock-leak",
                                f"{what} on a free instance at clock {c0}: answered {status} with steps {times}, clock afterwards {c1}"))
            f = world.client.post(f"/{world.id}/run-step", json={"settings": {}})
            if f.status_code != 200:
                out.append(("invalid-request-leaves-lock" if expect == "nothing" else "lock-leak",
                            f"after {what} (answered {status}) a follow-up run-step is answered {f.status_code} {f.data.decode()[:50]}"))
    return out, counts


class RaisingAdapter:
    """external state adapter whose save fails (the callback every handler runs after its steps)"""
    def __init__(self):
        self.calls = []

    def save_instance(self, state):
        self.calls.append("save")
        raise RuntimeError("injected adapter failure")

    def load_instance(self, uuid):
        return None

    def delete_instance(self, uuid):
        pass

    def save_state(self, *a, **kw):
        pass

    def load_state(self, *a, **kw):
        return []


def adapter_runs(world):
    """each handler (and a stream whose client goes away / whose step fails) with an adapter whose save raises: whatever the
    answer is, the lock must be free afterwards and a follow-up step must be accepted"""
    out, counts = [], {}
    prev = world.app._external_state_adapter
    try:
        for kind, n, stop, fail, gone in (("p", 0, 3, {}, {}), ("r", 2, 3, {}, {}), ("s", 0, 1, {}, {}), ("s", 0, 2, {0: 1}, {}),
                                          ("s", 0, 1, {}, {0: 2}), ("r", 2, 3, {0: 1}, {})):
            scn = Scn(stop, [(kind, n)], fail=fail, gone=gone)
            world.app._external_state_adapter = RaisingAdapter()
            world.followups = False
            try:
                rec = execute(world, scn, "action")
                err = None
            except Exception as e:                               # noqa: BLE001
                rec, err = None, f"{type(e).__name__}: {e}"
            finally:
                world.followups = True
            saves = len(world.app._external_state_adapter.calls)
            world.app._external_state_adapter = prev
            locked = world.flag_raw() or world.is_locked_now()
            f = world.client.post(f"/{world.id}/run-step", json={"settings": {}})
            counts[f"adapter save raises: {scn.kinds_str()} fail={fail} gone={gone}"] = 1
            if locked or f.status_code != 200:
                out.append(("lock-leak", f"{scn.kinds_str()} (fail={fail}, gone={gone}) with an external state adapter whose save_instance raises "
                            f"({saves} call(s)): afterwards locked={bool(locked)}, follow-up run-step {f.status_code} {f.data.decode()[:50]}"
                            + (f"; harness: {err}" if err else "")))
                world.flag_force(False)
    finally:
        world.app._external_state_adapter = prev
        world.followups = True
    return out, counts


# ------------------------------------------------------------------------------------------- another time grid (wave 7)
def grid_runs(chk, facts):
    """the same handlers on a session whose grid is not the integers: start 2.0, dt 0.25 (time = 2.0 + 0.25 * step).  A second
    server + instance; the probes' solo/forced runs and a small exploration, judged by the same reference check and compared
    with the same model (which counts steps)."""
    old = dict(GRID)
    GRID.update(start=2.0, dt=0.25)
    found, diff, n = {}, None, 0
    w2 = World()
    try:
        f2 = probe(w2)
        cases = list(f2["_runs"])
        for scn in (Scn(1, [("r", 2), ("s", 0)]), Scn(1, [("p", 0), ("r", 2)]), Scn(1, [("s", 0), ("p", 0)], gone={0: 2}),
                    Scn(2, [("r", 2), ("r", 2)], fail={0: 1}), Scn(1, [("r", 3), ("s", 0)])):
            for rec in explore(w2, scn, 1 if chk.quick else 2, 150 if chk.quick else 2000):
                cases.append((scn, rec))
        req = ["cfg " + " ".join("1" if f2[k] else "0" for k in FACTS)] + [model_line(scn, rec)[0] for scn, rec in cases]
        replies = drive("C18", req)
        for i, (scn, rec) in enumerate(cases):
            n += 1
            chk.case(("grid", scn.key(), tuple(model_schedule(scn, rec)[0])), nontrivial=True)
            for key, text in reference(scn, rec):
                if key not in found:
                    found[key] = (scn, rec, text)
            d = compare(scn, rec, replies[i + 1])
            if d is not None and diff is None:
                diff = (scn, rec, d)
        same = {k: f2[k] for k in FACTS} == {k: facts[k] for k in FACTS}
    finally:
        w2.close()
        GRID.clear()
        GRID.update(old)
    return found, diff, n, same


# ------------------------------------------------------------------------------------------- probes
def probe(world):
    """mechanism facts of the handlers, by sequential/forced runs with the recorder."""
    f = {}
    # how the lock is acquired: labels of a solo run-steps and a solo stream
    r = execute(world, Scn(1, [("r", 1)]), "action")
    s = execute(world, Scn(1, [("s", 0)]), "action")
    p = execute(world, Scn(1, [("p", 0)]), "action")
    lr = [l[1] for l in r["log"] if not l[3]]
    ls = [l[1] for l in s["log"] if not l[3]]
    lp = [l[1] for l in p["log"] if not l[3]]
    f["lockIsTestAndSet"] = "TAS" in lr and "SL" not in lr and "TAS" in ls and "SL" not in ls
    f["runStepTakesLock"] = ("TAS" in lp or "SL" in lp) and "CL" in lp
    f["streamUnlocksOnDone"] = not s["lock"]
    e1 = execute(world, Scn(2, [("r", 2)], fail={0: 1}), "action")
    e2 = execute(world, Scn(2, [("s", 0)], fail={0: 1}), "action")
    f["unlockOnError"] = not e1["lock"] and not e2["lock"]
    g = execute(world, Scn(2, [("s", 0)], gone={0: 2}), "action")
    f["unlockOnClientGone"] = not g["lock"]
    # a request refused by the test-and-set while another one holds the lock must leave the lock alone
    keeps, refusal_runs, refusal_labels = True, [], {}
    for b in SANDWICH_KINDS:
        scn = Scn(2, [("r", 2), b])
        rr = execute(world, scn, "action", chooser=sandwich_chooser(1))
        refusal_runs.append((scn, rr))
        mine = [l[1] for l in rr["log"] if l[0] == 1]
        refusal_labels[b[0]] = mine
        got = any(l[0] == 1 and (l[1] == "SL" or (l[1] == "TAS" and l[2])) for l in rr["log"])
        if not got and "CL" in mine:
            keeps = False
    f["refusalKeepsLock"] = keeps
    f["_refusal_labels"] = refusal_labels
    f["_solo_labels"] = {"run-steps": lr, "stream": ls, "run-step": lp}
    f["_runs"] = refusal_runs + [(Scn(1, [("s", 0)]), s), (Scn(2, [("r", 2)], fail={0: 1}), e1), (Scn(2, [("s", 0)], fail={0: 1}), e2),
                  (Scn(2, [("s", 0)], gone={0: 2}), g), (Scn(1, [("r", 1)]), r), (Scn(1, [("p", 0)]), p)]
    return f


FACTS = ["lockIsTestAndSet", "runStepTakesLock", "streamUnlocksOnDone", "unlockOnError", "unlockOnClientGone",
         "refusalKeepsLock"]
WITNESS = {"lockIsTestAndSet": "C18_witness_toctou", "runStepTakesLock": "C18_witness_run_step_unlocked",
           "streamUnlocksOnDone": "C18_witness_stream_completion", "unlockOnError": "C18_witness_error",
           "unlockOnClientGone": "C18_witness_client_gone", "refusalKeepsLock": "C18_witness_refusal_unlocks"}
MUTEX_FACTS = ["lockIsTestAndSet", "runStepTakesLock", "refusalKeepsLock"]
RELEASE_FACTS = ["streamUnlocksOnDone", "unlockOnError", "unlockOnClientGone"]


def gen_sessions(sf):
    b = lambda x: "true" if x else "false"
    cfg = ", ".join(f"{k} := {b(sf[k])}" for k in SFACTS)
    mutex_ok = sf["flagOnInstance"] and not sf["lockNeedsSession"]
    leak_free = (not sf["flagOnInstance"]) or (not sf["unlockNeedsSession"]) or (sf["sessionReqExcluded"] and sf["lockNeedsSession"])
    t = f"/-! session lifecycle: where the lock flag lives (probed) -/\ndef scfg : Sess.SCfg := {{ {cfg} }}\n"
    if mutex_ok:
        t += "theorem sess_mutex_holds : Sess.SessMutex scfg := Sess.C18_mutex_sessions scfg (by decide)\n#print axioms sess_mutex_holds\n"
    else:
        t += ("theorem sess_mutex_violated : ¬ Sess.SessMutex scfg := fun h => absurd ((Sess.sess_mutex_iff scfg).mp h) (by decide)\n"
              "#print axioms sess_mutex_violated\n")
    if leak_free:
        t += "theorem sess_no_leak_holds : Sess.SessNoLeak scfg := Sess.C18_no_leak scfg (by decide)\n#print axioms sess_no_leak_holds\n"
    else:
        t += ("theorem sess_no_leak_violated : ¬ Sess.SessNoLeak scfg := fun h => absurd ((Sess.sess_no_leak_iff scfg).mp h) (by decide)\n"
              "#print axioms sess_no_leak_violated\n")
    return t, mutex_ok, leak_free


def gen_lean(f, progs=(), sf=None, shape=None, invalid_ok=True, lazy_guard=False):
    b = lambda x: "true" if x else "false"
    cfg = ", ".join(f"{k} := {b(f[k])}" for k in FACTS)
    body = ""
    if all(f[k] for k in FACTS):
        body += "theorem holds : C18_full cfg := C18_full_of_good cfg (by decide)\n#print axioms holds\n"
    else:
        for k in FACTS:
            if not f[k]:
                body += (f"theorem violated_{k} : ¬ C18_full cfg := {WITNESS[k]} cfg (by decide)\n"
                         f"#print axioms violated_{k}\n")
    # the clauses that hold on this tree whatever the other facts say (per-clause theorems)
    if all(f[k] for k in MUTEX_FACTS):
        body += ("theorem holds_mutex (stop : Nat) (ks : List Kind) (sched : Schedule) : ClMutex cfg (run cfg (State.init stop ks) sched) :=\n"
                 "  C18_mutex cfg (by decide) stop ks sched\n"
                 "theorem holds_consecutive (stop : Nat) (ks : List Kind) (sched : Schedule) : ClConsec (run cfg (State.init stop ks) sched) :=\n"
                 "  C18_consecutive cfg (by decide) stop ks sched\n"
                 "#print axioms holds_mutex\n#print axioms holds_consecutive\n")
    if all(f[k] for k in RELEASE_FACTS):
        body += ("theorem holds_release (stop : Nat) (ks : List Kind) (sched : Schedule) : ClRelease (run cfg (State.init stop ks) sched) :=\n"
                 "  C18_release cfg (by decide) stop ks sched\n#print axioms holds_release\n")
    body += ("theorem holds_solo (stop : Nat) (k : Kind) (sched : Schedule) :\n"
             "    ClMutex cfg (run cfg (State.init stop [k]) sched) ∧ ClConsec (run cfg (State.init stop [k]) sched) := C18_solo cfg stop k sched\n"
             "#print axioms holds_solo\n#print axioms C18_partial\n")
    if lazy_guard and not f["lockIsTestAndSet"]:
        body += ("theorem violated_lazy_guard : ¬ C18_full cfg := C18_witness_lazy_guard cfg (by decide)\n#print axioms violated_lazy_guard\n")
    if sf is not None:
        body += gen_sessions(sf)[0]
    if shape is not None:
        body += shape["lean"]
    if not invalid_ok:
        x = "true" if (sf or {}).get("sessionReqExcluded") else "false"
        body += ("/-! a request that fails validation keeps the lock: every later step request is refused -/\n"
                 f"theorem blocked_after_invalid_request : (Sess.strace ⟨true, false, false, {x}⟩ ([.acq 0] ++ [] ++ [.acq 1]) (Sess.SState.init true 2)).2.getLast? "
                 f"= some \"refused\" := Sess.C18_witness_acquire_without_end {x} true [] (Or.inl rfl)\n#print axioms blocked_after_invalid_request\n")
    if progs:
        body += "/-! thread programs: the accesses recorded from each handler run alone against the recording stub -/\n"
        for o in progs:
            body += o["lean"] + "\n"
    return ("import Bptk.Props.C18\n/-! GENERATED by harness/props/c18.py from /repo on every run — do not edit. -/\n"
            "namespace Bptk.C18.Gen\n" f"def cfg : Cfg := {{ {cfg} }}\n" + body + "end Bptk.C18.Gen\n")


# ------------------------------------------------------------------------------------------- the check
def run(chk):
    quiet_bptk_logging()
    import time as _t
    world = World()
    try:
        _run(chk, world)
    finally:
        world.close()


def _run(chk, world):
    import time as _t
    facts = probe(world)
    chk.notes["cfg"] = {k: facts[k] for k in FACTS}
    chk.notes["solo_action_labels"] = facts["_solo_labels"]
    chk.notes["refused_request_labels"] = facts["_refusal_labels"]
    sfacts = probe_sessions(world)
    # first use of the lock: two contenders on a fresh / just-restored instance, stop points at every line of try_lock
    _tf = _t.time()
    fcases = []
    first_use_bad = None
    for scn, rec, tag in first_use_runs(world, chk.quick):
        rec["fresh"] = tag
        fcases.append((scn, rec, "line"))
        if first_use_bad is None and any(k == "lock-check-then-act" for k, _ in reference(scn, rec)):
            first_use_bad = tag
    lazy = sorted(set(getattr(world, "late_guards", [])))
    chk.notes["first_use"] = {"runs": len(fcases), "guards_created_after_construction": lazy, "two_contenders_both_accepted_at": first_use_bad,
                              "wall_s": round(_t.time() - _tf, 1)}
    if first_use_bad is not None:
        facts["lockIsTestAndSet"] = False            # the fact covers the first use
        chk.notes["cfg"] = {k: facts[k] for k in FACTS}
    # thread programs derived by tracing: each handler alone, under sys.settrace, against the recording stub
    progs = trace_programs(world)
    obls = program_obligations(progs, facts)
    chk.notes["traced_programs"] = {o["name"]: " ".join(o["where"]) for o in progs}
    chk.cov["traced_program_paths"] = len(progs)
    chk.cov["traced_handler_lines"] = sum(o["lines"] for o in progs)
    stub_facts = facts_from_programs({o["name"]: o for o in progs})
    chk.notes["cfg_from_traced_programs"] = stub_facts
    chk.notes["session_cfg"] = {k: sfacts[k] for k in SFACTS}
    chk.notes["session_cfg_detail"] = sfacts["_detail"]
    shp = streamer_shape()
    shape = shape_obligations(shp, facts, progs) if shp else None
    chk.notes["streamer_shape"] = {"tokens": " ".join(f"{t}@{ln}" for t, ln in shp) if shp else None,
                                   "close_safe": shape and shape["safe"], "close_at_traced_yields": shape and shape["dynamic"]}
    _tb = _t.time()
    bfind, bcounts = body_shapes(world)
    afind, acounts = adapter_runs(world)
    chk.notes["body_adapter_wall_s"] = round(_t.time() - _tb, 1)
    invalid_ok = stub_facts["_invalidRequestHoldsNothing"] and not any(k == "invalid-request-leaves-lock" for k, _ in bfind)
    chk.notes["invalidRequestHoldsNothing"] = invalid_ok
    ok, why = chk.prove(gen_lean(facts, obls, sfacts, shape, invalid_ok, bool(lazy)))
    chk.cov["trusted_base"] = [
        "Lean 4.33 kernel; axioms propext, Classical.choice, Quot.sound (audited per run via #print axioms)",
        "thread programs of lean/Bptk/Core/C18.lean (run-step / run-steps / stream-steps handlers, bptk.run_step, lock/unlock/is_locked/try_lock) at the granularity of accesses to the lock flag, the session clock, the simulation call and the chunks handed to the client; tied to /repo by the six probed mechanism facts, by the per-run obligations prog_* (the accesses recorded from each handler run alone under sys.settrace against a recording stub — completion, error, client-gone, refusal and stop-time paths — equal the model's program, decided in the kernel) and by the label-by-label and outcome comparison of every forced schedule",
        "the recorder: instance-level wrappers of is_locked/lock/unlock/try_lock, a dict subclass recording session_state['step'], a wrapper of SdRunner.run_scenario_step; the cooperative scheduler (one thread runs at a time)",
        "thread switches inside one source line / inside C calls are not modelled; try_lock's guarded body is one action",
    ]
    chk.assumptions = [
        "requests reach the handlers as WSGI calls (Flask routing/werkzeug response iteration are not modelled); a client disconnect is the server closing the response iterable",
        "session dt = 1, start 0 (time = number of steps); simulation values are not compared, only times",
        "session requests (begin-session, end-session, restore) are modelled by the session machine (Bptk.C18.Sess) only as far as the lock is concerned: a request is pre / holding / ended there; what a session request does to the clock and to the steps of a running request (a response mixing two sessions) is not part of the statement",
    ]
    two, extra, three = scenarios(chk)
    cases = [(scn, rec, "action") for scn, rec in facts["_runs"]] + fcases              # (scn, rec, mode)
    dist = {}
    differing = [o["name"] for o in obls if not o["ok"]] + [k for k in FACTS if stub_facts.get(k) is not None and stub_facts[k] != facts[k]]
    if differing:
        # a traced program is not the model's: search the real handlers directly for a schedule violating the statement
        TRACER.setup()
        nds = nviol = 0
        for scn, rec in direct_search(world):
            cases.append((scn, rec, "line"))
            nds += 1
            nviol += 1 if reference(scn, rec) else 0
        dist["direct search (traced program differs): 9 ordered kind pairs x a switch at every line of request 0 before its first clock write, request 1 up to its first simulation call, back"] = nds
        chk.notes["direct_search"] = {"because": differing, "runs": nds, "violating": nviol}
    bound2 = 3 if chk.quick else 4
    bound3 = 2 if chk.quick else 3
    budget = 1500 if chk.quick else 40000
    t0 = _t.time()
    deadline = t0 + (55 if chk.quick else 600)
    for group, bound in ((two, bound2), (extra, bound2), (three, bound3)):
        for scn in group:
            n = 0
            for rec in explore(world, scn, bound, budget):
                cases.append((scn, rec, "action"))
                n += 1
                if _t.time() > deadline:
                    break
            dist[f"{scn.kinds_str()} stop={scn.stop} fail={scn.fail} gone={scn.gone} preemptions<={bound}"] = n
    # refusal sandwiches (action level): every ordered triple of kinds, B refused at every point of A's critical section
    rng = chk.rng.fork("c18-lines")
    nsand = 0
    realised = {"action": 0, "line": 0, "action_violating": 0, "line_violating": 0}

    def note_sandwich(scn, rec, mode):
        """B (request 1) was refused between A's (request 0) acquire and release"""
        log = rec["log"]
        acq = next((k for k, l in enumerate(log) if l[0] == 0 and (l[1] == "SL" or (l[1] == "TAS" and l[2]))), None)
        rel = next((k for k, l in enumerate(log) if l[0] == 0 and l[1] == "CL"), len(log))
        lastb = max((k for k, l in enumerate(log) if l[0] == 1), default=None)
        o = rec["out"][1]
        if acq is not None and lastb is not None and acq < lastb < rel and o["status"] == 500 and "locked" in o["body"]:
            realised[mode] += 1
            if reference(scn, rec):
                realised[mode + "_violating"] += 1
    for scn, rec, span in sandwiches(world, rng, False, None):
        cases.append((scn, rec, "action"))
        note_sandwich(scn, rec, "action")
        nsand += 1
    dist["refusal sandwiches (action level): 27 ordered kind triples x every position in the holder's critical section"] = nsand
    # line granularity: every single switch point (thorough) / sampled (quick), plus sampled double switches
    TRACER.setup()
    nsl = 0
    for scn, rec, span in sandwiches(world, rng, True, 2 if chk.quick else None):
        cases.append((scn, rec, "line"))
        note_sandwich(scn, rec, "line")
        nsl += 1
    dist["refusal sandwiches (line level): 27 ordered kind triples x " + ("2 sampled line positions" if chk.quick else "every line position") + " in the holder's critical section"] = nsl
    nline = 0
    line_scns = two if not chk.quick else [two[i] for i in (1, 2, 4)]
    for scn in line_scns:
        base = execute(world, scn, "line", switches=[])
        cases.append((scn, base, "line"))
        total = len(base["choices"])
        pts = list(range(1, total))
        if chk.quick:
            pts = sorted(rng.shuffle(pts)[:8])
        for a in pts:
            for first in (0, 1):
                sw = [(0, first), (a, 1 - first)]
                if not chk.quick or rng.chance(1, 2):
                    cases.append((scn, execute(world, scn, "line", switches=sw), "line"))
                    nline += 1
        for _ in range(3 if chk.quick else 150):
            a = rng.range(1, max(1, total - 2)); b = rng.range(a + 1, total + 5); c = rng.range(b + 1, total + 20)
            first = rng.below(2)
            sw = [(0, first), (a, 1 - first), (b, first), (c, 1 - first)]
            cases.append((scn, execute(world, scn, "line", switches=sw), "line"))
            nline += 1
        dist[f"line-level {scn.kinds_str()}: line steps of the serial run"] = total
    # session lifecycle: a session request at every action boundary of a stream / a run-steps, all endings, liveness probe
    _ts = _t.time()
    chk.notes["explore_before_sessions_wall_s"] = round(_ts - t0, 1)
    sruns = list(session_runs(world, chk.quick, rng))
    chk.notes["session_runs_wall_s"] = round(_t.time() - _ts, 1)
    sfound, sdiff = {}, None
    cfg4 = " ".join("1" if sfacts[k] else "0" for k in SFACTS)
    sreq_lines, smeta = [], []
    for r in sruns:
        if "error" in r:
            continue
        ev, live, obs = session_events(r)
        s0 = "0" if r["nosession"] else "1"
        sreq_lines.append(f"srun {cfg4} {s0} 3 {','.join(ev)}")
        sreq_lines.append(f"srun {cfg4} {s0} 3 {','.join(ev + live)}")
        smeta.append((r, ev, live, obs))
    sreplies = drive("C18", sreq_lines) if sreq_lines else []
    nviol = {"session-request-resets-lock": 0, "lock-outlives-session": 0}
    for idx, r in enumerate(sruns):
        chk.case(("session", r["scn"].key(), r["k"], r["which"], r["ending"], r["nosession"]), nontrivial=True)
        for key, text in judge_session_run(r):
            nviol[key] = nviol.get(key, 0) + 1
            if key not in sfound:
                sfound[key] = (r, text)
    for j, (r, ev, live, obs) in enumerate(smeta):
        m1, m2 = sreplies[2 * j], sreplies[2 * j + 1]
        mflag = m1.split("|")[1].split(";")[0] == "flag=1"
        mout = m2.split("|")[0].split(",")
        if sdiff is None and (mout != obs or mflag != r["flag_after"]):
            sdiff = (r, f"events {','.join(ev + live)}: model {mout} flag_after={mflag} impl {obs} flag_after={r['flag_after']}", sreq_lines[2 * j + 1], m2)
    # the session clock machine: results log per session state, clock
    clines, cmeta = [], []
    for r in sruns:
        if "error" in r or r["nosession"]:
            continue
        ev, real, epoch = clock_events(r)
        clines.append(f"crun {cfg4} 1 2 {','.join(ev)}")
        cmeta.append((r, ev, real, epoch))
    creplies = drive("C18", clines) if clines else []
    cdiff = None
    for (r, ev, real, epoch), rep in zip(cmeta, creplies):
        mlog, fin = rep.split("|")
        mlog = [tuple(int(x) for x in e.split(".")) for e in mlog.split(";") if e]
        f = dict(x.split("=") for x in fin.split(";"))
        same = mlog == real and int(f["epoch"]) == epoch and (f["session"] == "0" or int(f["clock"]) == r["clock_after"])
        if not same and cdiff is None:
            cdiff = (r, f"events {','.join(ev)}: model log {mlog} clock={f['clock']} epoch={f['epoch']} impl log {real} clock={r['clock_after']} epoch={epoch}", rep)
    chk.cov["traces_validated_against_impl_session_clock"] = len(cmeta)
    mixed = next(((r, real) for r, ev, real, epoch in cmeta if r["which"] == "begin" and r["sreq"] == "done" and
                  len({e for e, _ in real}) > 1 and r["scn"].kinds[0][0] == "r"), None)
    if mixed:
        r, real = mixed
        chk.notes["session_clock_under_begin_session"] = {
            "what": "begin-session while a run-steps 3 holds the lock (informational: session requests are outside the statement's quantifier)",
            "after_actions": r["k"], "results_log (session state, time)": real, "response_times_of_the_run-steps": r["out"][0]["times"],
            "run-step that arrived next": r["out"][1]["status"]}
    dist["session lifecycle: stream (stop 1) and run-steps 3 x every action boundary x {end-session, begin-session, restore} x {completion, "
         "error in the next step, client gone (stream)} + begin-session at source-line positions of a request started without a session; "
         "then a run-step, then the liveness probe"] = len(sruns)
    chk.cov["session_runs"] = {"runs": len(sruns), "judged_violating": nviol, "errors": sum(1 for r in sruns if "error" in r)}
    chk.cov["traces_validated_against_impl_sessions"] = len(smeta)
    gfound, gdiff, gn, gsame = grid_runs(chk, facts)
    dist["second time grid (start 2.0, dt 0.25): probes' runs + 5 scenarios with <= 1 (quick) / 2 pre-emptions"] = gn
    chk.cov["followup_requests_after_runs"] = getattr(world, "nfollow", 0)
    rc = {"mode action": 0, "mode line": 0, "requests 1": 0, "requests 2": 0, "requests 3": 0, "ending: injected failure": 0,
          "ending: client gone": 0, "a request refused": 0, "stop time reached inside a request": 0}
    for scn, rec, mode in cases:
        rc["mode " + mode] += 1
        rc[f"requests {len(scn.kinds)}"] = rc.get(f"requests {len(scn.kinds)}", 0) + 1
        rc["ending: injected failure"] += 1 if scn.fail else 0
        rc["ending: client gone"] += 1 if scn.gone else 0
        rc["a request refused"] += 1 if any(o["status"] == 500 and "locked" in o["body"] for o in rec["out"]) else 0
        rc["stop time reached inside a request"] += 1 if any(o["msgs"] for o in rec["out"]) else 0
        for k, nn in scn.kinds:
            key = {"p": "kind run-step", "s": "kind stream-steps"}.get(k, f"kind run-steps numberSteps={nn}")
            rc[key] = rc.get(key, 0) + 1
        rc[f"stop step {scn.stop}"] = rc.get(f"stop step {scn.stop}", 0) + 1
    rc["afterwards: is_locked() and results log read"] = len(cases)
    rc["afterwards: follow-up run-step"] = getattr(world, "nfollow", 0)
    rc["traced handler paths (stub)"] = len(progs)
    rc["body shapes x {free, held}"] = len(bcounts)
    rc["adapter whose save raises"] = len(acounts)
    rc["second time grid"] = gn
    rc["session runs"] = len(sruns)
    chk.cov["row_counts"] = rc
    rows = dict(bcounts)
    rows.update(acounts)
    chk.cov["body_and_adapter_rows"] = rows
    chk.cov["input_distribution"] = dist
    chk.cov["line_level_runs"] = nline
    chk.cov["refusal_sandwiches_realised"] = realised
    chk.cov["rule"] = (f"action mode: for every unordered pair of request kinds (run-step, run-steps 2, stream to stop time 1), "
                       f"scenarios with an injected simulation failure, with a client closing the stream after 0/2/4 chunks, with the stop time "
                       f"reached and with numberSteps 0, all schedules with <= {bound2} pre-emptions; four 3-request scenarios with <= {bound3}; "
                       "line mode (sys.settrace, park before every line of the three handlers, the stream generator and bptk.run_step): "
                       "serial run, single switch points, random double/triple switches; a case = scenario + the global order of visible actions; "
                       "non-trivial = at least one pre-emption or injected event; refusal sandwiches: for every ordered triple (A, B, C) of request kinds, B runs up to its acquisition attempt, "
                       "A acquires and performs j further actions (line steps), B is refused and ends, C arrives and ends, A ends — for every j in A's critical section "
                       "at action level and for sampled j at source-line level")
    # model side
    cfgline = "cfg " + " ".join("1" if facts[k] else "0" for k in FACTS)
    req = [cfgline]
    labs = []
    for scn, rec, mode in cases:
        line, labels = model_line(scn, rec)
        req.append(line)
        labs.append(labels)
    replies = drive("C18", req)
    first_diff = None
    found = {}
    for idx, (scn, rec, mode) in enumerate(cases):
        sched, labels, tail = model_schedule(scn, rec)
        pre = sum(1 for k, (en, ch, cur) in enumerate(rec["decisions"]) if cur in en and ch != cur)
        chk.case((scn.key(), tuple(sched)), nontrivial=pre > 0 or bool(scn.fail) or bool(scn.gone),
                 sample={"kinds": scn.kinds_str(), "stop": scn.stop, "mode": mode, "schedule": ",".join(sched)} if pre > 1 else None)
        for key, text in reference(scn, rec):
            if key not in found:
                found[key] = (scn, rec, mode, text)
        d = compare(scn, rec, replies[idx + 1])
        if d is not None and first_diff is None:
            first_diff = (scn, rec, mode, d, req[idx + 1], replies[idx + 1])
    chk.cov["traces_validated_against_impl"] = len(cases)
    chk.notes["explore_wall_s"] = round(_t.time() - t0, 1)
    for key, (scn, rec, mode, text) in found.items():
        sched, _, _ = model_schedule(scn, rec)
        chk.add_finding(key, f"{scn.kinds_str()} (stop time {scn.stop}), schedule {','.join(sched)}: {text}",
                        replay_of(scn, rec, mode, text))
    bad = [k for k in FACTS if not facts[k]]
    probe_keys = {"lockIsTestAndSet": "lock-check-then-act", "runStepTakesLock": "run-step-without-lock",
                  "streamUnlocksOnDone": "stream-completion-leaves-lock", "unlockOnError": "error-leaves-lock",
                  "unlockOnClientGone": "client-gone-leaves-lock", "refusalKeepsLock": "refusal-releases-lock"}
    for k in bad:
        if probe_keys[k] not in found:
            chk.add_finding(probe_keys[k], f"probe {k} = false but no schedule explored exhibits the violation",
                            {"probe": k, "solo_labels": facts["_solo_labels"]}, found_input=False)
    concrete = bool(found or sfound or gfound or bfind or afind)      # a failing input exists: broken ties are folded into the notes
    for key, (scn, rec, text) in gfound.items():
        if key not in found:
            found[key] = None
            chk.add_finding(key, f"on the time grid start 2.0 dt 0.25: {scn.kinds_str()} (stop step {scn.stop}): {text}",
                            dict(replay_of(scn, rec, "action", text), grid={"start": 2.0, "dt": 0.25}))
    if (gdiff is not None or not gsame) and not concrete:
        chk.add_finding("correspondence", f"time grid start 2.0 dt 0.25: " + (f"model and implementation disagree on {gdiff[0].kinds_str()}: {gdiff[2]}" if gdiff
                        else "the probed mechanism facts differ from those on the integer grid"),
                        dict(replay_of(gdiff[0], gdiff[1], "action", gdiff[2]), grid={"start": 2.0, "dt": 0.25}) if gdiff else {}, found_input=False)
    seen = set(found) | set(sfound)
    if afind and any(not facts[k] for k in RELEASE_FACTS):
        chk.notes["adapter_runs_under_violation"] = [t for _, t in afind]    # the request leaks without the adapter as well
        afind = []
    for src, lst in (("body_shapes", bfind), ("adapter", afind)):
        for key, text in lst:
            if key not in seen:
                seen.add(key)
                chk.add_finding(key, text, {"rerun": src, "observed": text})
    if not invalid_ok and "invalid-request-leaves-lock" not in seen:
        bad = [o["name"] for o in progs if o["opt"].get("invalid") and (o["locked_at_end"] or any(l in ("RS", "SIM", "WS") for l in o["labels"]))]
        chk.add_finding("invalid-request-leaves-lock", f"traced handler paths with a body that fails validation hold the lock afterwards or step: {bad}",
                        {"paths": bad}, found_input=False)
    if getattr(world, "recorder_blind", False) and not concrete:
        chk.add_finding("correspondence", "lock() changes what is_locked() answers, but neither a bool attribute of the instance nor "
                        "session_state[\"lock\"] changes: the recorder cannot sit on the flag (class-level or otherwise hidden state)",
                        {"flag": "not found"}, found_input=False)
    smutex_ok, sleak_free = gen_sessions(sfacts)[1:]
    base_of = {"gone": ("unlockOnClientGone", "client-gone-leaves-lock"), "error": ("unlockOnError", "error-leaves-lock"),
               "complete": ("streamUnlocksOnDone", "stream-completion-leaves-lock")}
    for key, (r, text) in list(sfound.items()):
        fact, bkey = base_of.get(r.get("ending"), (None, None))
        if key == "lock-outlives-session" and fact and not facts[fact]:
            # the request leaks with this ending whatever the session does: reported under its cause (once)
            if bkey not in found:
                chk.add_finding(bkey, text, session_replay_of(r, text))
            continue
        chk.add_finding(key, text, session_replay_of(r, text))
    if not smutex_ok and "session-request-resets-lock" not in sfound:
        chk.add_finding("session-request-resets-lock", f"session facts {chk.notes['session_cfg']}: mutual exclusion under session requests is refuted "
                        "in the model (sess_mutex_violated) but no explored schedule exhibits it", {"session_cfg": chk.notes["session_cfg"]}, found_input=False)
    if not sleak_free and "lock-outlives-session" not in sfound:
        chk.add_finding("lock-outlives-session", f"session facts {chk.notes['session_cfg']}: a lock leak is possible in the model (sess_no_leak_violated) "
                        "but no explored schedule exhibits it", {"session_cfg": chk.notes["session_cfg"]}, found_input=False)
    if sdiff is not None and not concrete:
        r, d, rq, rp = sdiff
        chk.add_finding("correspondence", f"session machine and implementation disagree: {d}", dict(session_replay_of(r, d), request=rq, model_reply=rp),
                        found_input=False)
    elif sdiff is not None:
        chk.notes["session_model_diff_under_violation"] = sdiff[1]
    if cdiff is not None and not concrete:
        r, d, rp = cdiff
        chk.add_finding("correspondence", f"session clock machine and implementation disagree: {d}", dict(session_replay_of(r, d), model_reply=rp),
                        found_input=False)
    elif cdiff is not None:
        chk.notes["session_clock_diff_under_violation"] = cdiff[1]
    if shape is not None:
        bad_dyn = [d for d in shape["dynamic"] if not d["agree"]]
        if (not shape["agree"] or bad_dyn) and not concrete:
            chk.add_finding("correspondence", "generator shape: close() as interpreted on the token list read off the streamer differs from the real "
                            f"generator: shape fact closeSafe={shape['safe']} probe unlockOnClientGone={facts['unlockOnClientGone']}; traced gone paths: {bad_dyn}",
                            {"shape": chk.notes["streamer_shape"]}, found_input=False)
        elif not shape["agree"] or bad_dyn:
            chk.notes["shape_diff_under_violation"] = {"agree": shape["agree"], "paths": bad_dyn}
    elif not concrete:
        chk.add_finding("correspondence", "no generator found in _stream_steps_resource: the streamer shape cannot be read off the source",
                        {}, found_input=False)
    badp = [o for o in obls if not o["ok"] or o.get("exc")]
    if badp and not concrete:
        o = badp[0]
        chk.add_finding("correspondence", f"thread program {o['name']}: the accesses recorded from the handler run alone against the stub differ "
                        f"from the model's program: model {' '.join(o['model'])}{'' if o['model_done'] else ' (not finished)'} impl {' '.join(o['impl'])}",
                        {"program": o["name"], "model": o["model"], "impl": o["impl"], "all_differing": [x["name"] for x in badp]}, found_input=False)
    elif badp:
        chk.notes["program_diff_under_violation"] = [x["name"] for x in badp]
    dis = [k for k in FACTS if stub_facts.get(k) is not None and stub_facts[k] != facts[k]]
    if dis and not concrete:
        chk.add_finding("correspondence", f"mechanism facts read off the traced programs disagree with the probes on the instrumented instance: {dis}",
                        {"facts": {k: facts[k] for k in FACTS}, "from_traced_programs": stub_facts}, found_input=False)
    if not ok and not concrete:
        chk.add_finding("obligation", f"proof obligations of C18 no longer check: {why}",
                        {"theorem": "Bptk.C18.Gen.* / Bptk.Props.C18", "detail": why}, found_input=False)
    elif not ok:
        chk.notes["obligation_under_violation"] = why
    if first_diff is not None and not concrete:
        scn, rec, mode, d, rq, rp = first_diff
        chk.add_finding("correspondence", f"model and implementation disagree on {scn.kinds_str()}: {d}",
                        dict(replay_of(scn, rec, mode, d), request=rq, model_reply=rp), found_input=False)
    elif first_diff is not None:
        chk.notes["model_diff_under_violation"] = first_diff[3]


def replay_of(scn, rec, mode, text):
    return {"scenario": scn.to_json(), "mode": mode, "fresh": rec.get("fresh"),
            "choices": rec["choices"] if mode == "action" else None,
            "switches": [(k, ch) for k, (en, ch, cur) in enumerate(rec["decisions"]) if ch != cur] if mode == "line" else None,
            "actions": [f"{t}:{l}" for t, l, i, f in rec["log"] if not f],
            "responses": [{"status": o["status"], "times": o["times"], "msgs": o["msgs"], "body": o["body"][:80]} for o in rec["out"]],
            "clock": rec["clock"], "locked_at_end": rec["lock"], "observed": text}


def replay(path):
    quiet_bptk_logging()
    r = json.load(open(path))["replay"]
    if r.get("rerun") in ("body_shapes", "adapter"):
        world = World()
        try:
            probe_sessions(world)
            v = (body_shapes if r["rerun"] == "body_shapes" else adapter_runs)(world)[0]
        finally:
            world.close()
        print("violations on the current tree:", v)
        return 1 if v else 0
    if "session_run" in r:
        q = r["session_run"]
        world = World()
        try:
            sf = probe_sessions(world)
            if q["nosession"]:
                TRACER.setup()
            res = session_run(world, tuple(q["kind"]), q["stop"], q["k"], q["which"], q["ending"], q["fail"], q["gone"], q["nosession"])
        finally:
            world.close()
        v = judge_session_run(res)
        if "error" not in res:                                # the session machine on the same events
            ev, live, obs = session_events(res)
            cfg4 = " ".join("1" if sf[k] else "0" for k in SFACTS)
            s0 = "0" if res["nosession"] else "1"
            m1, m2 = drive("C18", [f"srun {cfg4} {s0} 3 {','.join(ev)}", f"srun {cfg4} {s0} 3 {','.join(ev + live)}"])
            mflag = m1.split("|")[1].split(";")[0] == "flag=1"
            mout = m2.split("|")[0].split(",")
            print("session machine:", ",".join(ev + live), "model", mout, "flag_after", mflag, "| impl", obs, "flag_after", res["flag_after"])
            if mout != obs or mflag != res["flag_after"]:
                v = v + [("correspondence", "session machine and implementation disagree")]
        print("session run:", q)
        print("actions:", " ".join(f"{t}:{l}" for t, l, i, f in res.get("log", []) if not f), "| session request after log index", res.get("at"))
        print("responses:", [(o["status"], o["times"], o["body"][:40]) for o in res.get("out", [])], "liveness:", res.get("live"))
        print("violations on the current tree:", v)
        return 1 if v else 0
    if "scenario" not in r:
        print("nothing to replay (no concrete schedule stored):", r)
        return 1
    scn = Scn(r["scenario"]["stop"], r["scenario"]["kinds"], r["scenario"]["fail"], r["scenario"]["gone"])
    if r.get("grid"):
        GRID.update(r["grid"])
    world = World()
    prep = None
    if r.get("fresh"):
        probe_sessions(world)
        world.fresh(r["fresh"]["restore"])
        prep = world.prepare_fresh
    try:
        if r["mode"] == "action":
            rec = execute(world, scn, "action", tuple(r["choices"]))
        else:
            TRACER.setup()
            rec = execute(world, scn, "line", switches=[tuple(x) for x in r["switches"]], prepare=prep)
    finally:
        world.close()
    v = reference(scn, rec)
    print("scenario:", scn.to_json())
    print("actions:", " ".join(f"{t}:{l}" for t, l, i, f in rec["log"] if not f))
    print("responses:", [(o["status"], o["times"], o["msgs"]) for o in rec["out"]], "clock", rec["clock"], "locked", rec["lock"])
    print("violations on the current tree:", v)
    return 1 if v else 0
