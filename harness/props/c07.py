"""C07 — a scenario's settings determine its results exactly.

Probes (change_runspecs reaches model.starttime; run specs of a scenario file survive instantiate_model; a
scenario without an own constants/points block gets its OWN dictionary, not the manager's base dictionary)
-> Gen obligations; correspondence of the Lean resolution/application model and of the Lean manager machine
(Drive/C07) with the real code over kind (constants / points / run specs) x channel (dict registration with
base values, scenario files — JSON and YAML, base values spread over 1..4 files read in any order —, session
settings, REST /run settings) x model type (SD DSL, XMILE-sourced: compiled from a .stmx by the repo's
compiler) x value form (float, int, string = the `eval` path); reference check: the real results must equal
those of the model BUILT DIRECTLY with the effective values and simulated from start to stop with dt — for
the scenario that was addressed AND for its siblings (registered before / after the settings, with or
without own overrides), which must still carry `own ⊕ base` with the manager's registered base values.
"""
import json, os, sys, shutil, contextlib, io, textwrap, copy
from common import *

# the harness model (self-contained: props/c06.py started from the same model but evolves on its own)
CONSTS = ["c0", "c1", "c2"]
POINTS = ["p0", "p1"]
EQS = ["s", "f", "h"]
DEF_CONST = {0: 11, 1: 12, 2: 13}
DEF_PTS = {0: 21, 1: 22}
DEF_RS = (0, 4, 2)          # start, stop, dt-code (dt = code / 2)


# value codes (what the Lean model and the views carry) -> the numbers the real code sees.  Codes 0..29 are themselves; wave 7:
# a negative, a large and a many-decimals value
SPECIAL = {30: -3.0, 31: 1234567.0, 32: 0.30000000000000004}


def VAL(code):
    return SPECIAL.get(code, float(code))


def CODE(x):
    x = float(x)
    for k, v in SPECIAL.items():
        if abs(x - v) <= 1e-9 * max(1.0, abs(v)):
            return k
    return int(round(x))


class K:
    """model builder, direct-model oracle and line-protocol helpers"""
    @staticmethod
    def pts_val(v):
        return [[0.0, VAL(v)], [10.0, VAL(v) + 5.0]]

    @staticmethod
    def pts_code(lst):
        return CODE(lst[0][1])

    @staticmethod
    def build(consts, pts, rs):
        """The model built directly with the given values (ids -> value codes)."""
        from BPTK_Py import Model
        from BPTK_Py import sd_functions as sd
        m = Model(starttime=float(rs[0]), stoptime=float(rs[1]), dt=rs[2] / 2.0, name="c07")
        s = m.stock("s"); f = m.flow("f"); h = m.converter("h")
        g0 = m.converter("g0"); g1 = m.converter("g1")
        cs = [m.constant(n) for n in CONSTS]
        for k, n in enumerate(POINTS):
            m.points[n] = K.pts_val(pts[k])
        for k in range(3):
            cs[k].equation = VAL(consts[k])
        g0.equation = sd.lookup(sd.time(), "p0")
        g1.equation = sd.lookup(sd.time(), "p1")
        f.equation = cs[0] + g0 * cs[1]
        h.equation = cs[2] * g1
        s.equation = f
        s.initial_value = 0.0
        return m

    _cache = {}

    @staticmethod
    def oracle_run(consts, pts, rs):
        """results of a freshly built model with these settings, start..stop with dt"""
        key = (tuple(sorted(consts.items())), tuple(sorted(pts.items())), tuple(rs))
        if key not in K._cache:
            m = K.build(consts, pts, rs)
            n = int(round((rs[1] - rs[0]) / (rs[2] / 2.0)))
            grid = [rs[0] + k * (rs[2] / 2.0) for k in range(n + 1)]
            K._cache[key] = {eq: {t: float(m.equation(eq, t)) for t in grid} for eq in EQS}
        return K._cache[key]

    @staticmethod
    def st(d):
        return ",".join(f"{k}:{v}" for k, v in d.items()) or "-"

    @staticmethod
    def opt(x):
        return "-" if x is None else str(x)

    @staticmethod
    def dict_args(d):
        return f"{K.st(d.get('consts') or {})} {K.st(d.get('pts') or {})} {K.opt(d.get('start'))} {K.opt(d.get('stop'))} {K.opt(d.get('dt'))}"

    @staticmethod
    def first_diff(got, want):
        for eq in want:
            if eq not in got:
                return f"equation {eq} missing from the results (fresh model: {dict(list(want[eq].items())[:3])}…)"
            for t in want[eq]:
                if t not in got[eq]:
                    return f"{eq}: no value at t={t} (index {sorted(got[eq])[:6]}…, fresh model index {sorted(want[eq])[:6]}…)"
                if got[eq][t] != want[eq][t]:
                    return f"{eq}({t}) = {got[eq][t]} but the fresh model gives {want[eq][t]}"
            extra = [t for t in got[eq] if t not in want[eq]]
            if extra:
                return f"{eq}: extra index {extra[:4]} (fresh model index {sorted(want[eq])[:6]}…)"
        return "?"


XPOINTS = ["g0", "g1"]          # graphical functions of the XMILE model
XRS = (0, 4, 1)                 # its sim_specs (dt code = dt * 2)

MODEL_SRC = textwrap.dedent('''
    from BPTK_Py import Model
    from BPTK_Py import sd_functions as sd

    class simulation_model(Model):
        def __init__(self):
            super().__init__(starttime=%(start)r, stoptime=%(stop)r, dt=%(dt)r, name="c07file")
            s = self.stock("s"); f = self.flow("f"); h = self.converter("h")
            g0 = self.converter("g0"); g1 = self.converter("g1")
            cs = [self.constant(n) for n in %(consts)r]
            pts = %(pts)r
            for n in pts:
                self.points[n] = pts[n]
            vals = %(vals)r
            for k in range(3):
                cs[k].equation = vals[k]
            g0.equation = sd.lookup(sd.time(), "p0")
            g1.equation = sd.lookup(sd.time(), "p1")
            f.equation = cs[0] + g0 * cs[1]
            h.equation = cs[2] * g1
            s.equation = f
            s.initial_value = 0.0
''')

XMILE_SRC = '''<?xml version="1.0" encoding="utf-8"?>
<xmile version="1.0" xmlns="http://docs.oasis-open.org/xmile/ns/XMILE/v1.0" xmlns:isee="http://iseesystems.com/XMILE">
	<header><name>c07</name><vendor>isee systems, inc.</vendor><product version="1.9.3" isee:build_number="1954" lang="en">Stella Architect</product></header>
	<sim_specs isee:sim_duration="1.5" method="Euler" time_units="Months">
		<start>0</start>
		<stop>4</stop>
		<dt>0.5</dt>
	</sim_specs>
	<model_units/>
	<model>
		<variables>
			<stock name="s"><eqn>0</eqn><inflow>f</inflow></stock>
			<flow name="f"><eqn>c0+g0*c1</eqn></flow>
			<aux name="c0"><eqn>11</eqn></aux>
			<aux name="c1"><eqn>12</eqn></aux>
			<aux name="c2"><eqn>13</eqn></aux>
			<aux name="g0"><eqn>TIME</eqn><gf><xscale min="0" max="10"/><yscale min="0" max="100"/><ypts>21,26</ypts></gf></aux>
			<aux name="g1"><eqn>TIME</eqn><gf><xscale min="0" max="10"/><yscale min="0" max="100"/><ypts>22,27</ypts></gf></aux>
			<aux name="h"><eqn>c2*g1</eqn></aux>
		</variables>
	</model>
</xmile>
'''


def pnames(model):
    return XPOINTS if model == "xmile" else POINTS


def def_rs(model):
    return XRS if model == "xmile" else DEF_RS


MRS_CHOICES = [(0, 4, 2), (1, 5, 2), (2, 6, 2), (1, 4, 1)]      # the DSL model's own run specs; wave 4: non-zero start times


def mrs_of(case):
    """the model's own run specs of this case"""
    return XRS if case["model"] == "xmile" else tuple(case.get("mrs") or DEF_RS)


# ---------------------------------------------------------------- value forms (float / int / string = eval path)
def ccode(v):
    return CODE(eval(v)) if isinstance(v, str) else CODE(v)


def pcode(v):
    return K.pts_code(eval(v) if isinstance(v, str) else v)


def const_val(v, style):
    if v in SPECIAL:
        x = SPECIAL[v]
        return repr(x) if style == "str" else int(x) if (style == "int" and x == int(x)) else x
    if style == "str":
        return [f"{v}.0", f"{v - 1}.0 + 1", f"2*{v}/2"][v % 3]
    if style == "int":
        return int(v)
    return float(v)


def pts_render(v, style):
    return str(K.pts_val(v)) if style == "str" else K.pts_val(v)


def styles(case, where):
    return {(kind, key): sty for w, kind, key, sty in case.get("str", []) if w == where}


def mk_dict(case, where, d=None):
    """harness dict {consts:{id:v}, pts:{id:v}, start, stop, dt} -> BPTK scenario / settings dictionary (fresh objects)"""
    d = case.get(where) or {} if d is None else d
    sty = styles(case, where)
    pn = pnames(case["model"])
    out = {}
    if d.get("consts"):
        out["constants"] = {CONSTS[k]: const_val(v, sty.get(("c", k))) for k, v in d["consts"].items()}
    if d.get("pts"):
        out["points"] = {pn[k]: pts_render(v, sty.get(("p", k))) for k, v in d["pts"].items()}
    rs = {}
    num = lambda key, v: int(v) if sty.get(("r", key)) == "int" else float(v)      # `starttime: 0` as well as `starttime: 0.0`
    if d.get("start") is not None: rs["starttime"] = num("start", d["start"])
    if d.get("stop") is not None: rs["stoptime"] = num("stop", d["stop"])
    if d.get("dt") is not None: rs["dt"] = d["dt"] / 2.0
    if rs:
        out["runspecs"] = rs
    return out


def base_vals(case, where_c, where_p, bc, bp):
    sc, sp = styles(case, where_c), styles(case, where_p)
    pn = pnames(case["model"])
    return ({CONSTS[a]: const_val(v, sc.get(("c", a))) for a, v in bc.items()},
            {pn[a]: pts_render(v, sp.get(("p", a))) for a, v in bp.items()})


VIEW_ERRORS = []
VIEW_ONLY = []


def view_of(sc, model="dsl"):
    """state of the scenario object and of its model object as the anchors name it; when it cannot be read (an attribute was renamed …) the
    view is None: results are still checked, the structural tie is reported without a concrete accusation"""
    try:
        return _view_of(sc, model)
    except Exception as e:
        VIEW_ERRORS.append(f"{type(e).__name__}: {e}")
        return None


def _view_of(sc, model="dsl"):
    mod = sc.model
    pn = pnames(model)
    return {"consts": {CONSTS.index(k): ccode(v) for k, v in sc.constants.items()},
            "pts": {pn.index(k): pcode(v) for k, v in sc.points.items()},
            "rs": (int(sc.starttime), int(sc.stoptime), int(sc.dt * 2)),
            "meqs": {k: CODE(mod.equations[CONSTS[k]](0.0)) for k in range(3)},
            "mpts": {pn.index(k): pcode(v) for k, v in mod.points.items() if k in pn},
            "mrs": (int(mod.starttime), int(mod.stoptime), int(mod.dt * 2))}


def fill(dst, src):
    out = dict(dst)
    for k, v in src.items():
        out.setdefault(k, v)
    return out


def all_base(case):
    bc, bp = dict(case["bc"]), dict(case["bp"])
    for f in case.get("files2", []):
        bc.update(f[0]); bp.update(f[1])
    return bc, bp


def expected(case, who="d0", upto=2):
    """reference semantics of the statement: scenario wins, base fills, later settings win; model's own otherwise.
    who = "d0": the addressed scenario (with the later settings `d`); "sib": the sibling; "none": a scenario without overrides"""
    bc, bp = all_base(case)
    d0 = case.get(who) or {} if who != "none" else {}
    later = [case.get("d") or {}, case.get("d2") or {}][:upto] if who == "d0" else []
    consts = fill(d0.get("consts") or {}, bc)
    pts = fill(d0.get("pts") or {}, bp)
    for d in later:
        consts.update(d.get("consts") or {}); pts.update(d.get("pts") or {})
    rs = list(mrs_of(case))
    for src in [d0] + later:
        for j, key in enumerate(("start", "stop", "dt")):
            if src.get(key) is not None:
                rs[j] = src[key]
    return {"consts": consts, "pts": pts, "rs": tuple(rs), "meqs": {**DEF_CONST, **consts}, "mpts": {**DEF_PTS, **pts}, "mrs": tuple(rs)}


def file_list(case):
    files = [(case["bc"], case["bp"])] + [tuple(f) for f in case.get("files2", [])]
    order = case.get("order") or list(range(len(files)))
    return [files[j] for j in order]            # the model reads the files in ANOTHER order than the code (multi_file_merge_n)


def merged_later(case):
    """two successive settings dictionaries as one (newest wins key by key) — for the one-shot `settings` line of the model; the
    sequential path is replayed through the manager machine (`mconf` twice)"""
    d, d2 = case.get("d") or {}, case.get("d2") or {}
    out = {}
    for kind in ("consts", "pts"):
        m = {**(d.get(kind) or {}), **(d2.get(kind) or {})}
        if m: out[kind] = m
    for key in ("start", "stop", "dt"):
        v = d2.get(key) if d2.get(key) is not None else d.get(key)
        if v is not None: out[key] = v
    return out


def model_line(case, who="d0"):
    mrs = "/".join(map(str, mrs_of(case))); mpts = K.st(DEF_PTS)
    d0 = case.get(who) or {}
    if case["channel"] == "dict" or (who != "d0" and case["channel"] != "file"):
        return f"dict {mrs} {mpts} {K.st(case['bc'])} {K.st(case['bp'])} {K.dict_args(d0)}"
    if case["channel"] == "file":
        files = "|".join(f"{K.st(a)};{K.st(b)}" for a, b in file_list(case))
        if who == "d0" and case.get("d"):
            return f"fsettings {mrs} {mpts} {files} {K.dict_args(d0)} {K.dict_args(case['d'])}"
        return f"file {mrs} {mpts} {files} {K.dict_args(d0)}"
    return f"settings {mrs} {mpts} {K.st(case['bc'])} {K.st(case['bp'])} {K.dict_args(d0)} {K.dict_args(merged_later(case))}"


def sd_(x):
    return {} if x == "-" else {int(a.split(":")[0]): int(a.split(":")[1]) for a in x.split(",")}


def rs_(x):
    return tuple(int(a) for a in x.split("/"))


def parse_model(line):
    kv = dict(x.split("=", 1) for x in line.split(" "))
    return {"consts": sd_(kv["consts"]), "pts": sd_(kv["pts"]), "rs": rs_(kv["rs"]), "meqs": {**DEF_CONST, **sd_(kv["meqs"])},
            "mpts": sd_(kv["mpts"]), "mrs": rs_(kv["mrs"])}


def parse_mview(line):
    if line == "none":
        return None
    kv = dict(x.split("=", 1) for x in line.split(" "))
    return {"consts": sd_(kv["consts"]), "pts": sd_(kv["pts"]), "rs": rs_(kv["rs"])}


def parse_mbase(line):
    kv = dict(x.split("=", 1) for x in line.split(" "))
    return {"bc": sd_(kv["bc"]), "bp": sd_(kv["bp"])}


def model_agrees(req, reply, real):
    if isinstance(real, str):
        return reply == real
    try:
        if req.startswith("mview"):
            return parse_mview(reply) == real
        if req.startswith("mbase"):
            return parse_mbase(reply) == real
        return parse_model(reply) == real
    except Exception:
        return False


def frame_to_dict(res, mgr, scn):
    r = ((res or {}).get(mgr, {}).get(scn, {}) or {}).get("equations", {})
    return {eq: {float(t): float(v) for t, v in r[eq].items()} for eq in r}


def write_scenario_file(path, fmt, content):
    if fmt == "yml":
        import yaml
        with open(path, "w") as f:
            yaml.safe_dump({"Model": {"type": "sd", **content}}, f)
    else:
        with open(path, "w") as f:
            json.dump(content, f)


def write_file_case(root, n, case):
    xmile = case["model"] == "xmile"
    sub = os.path.join(root, f"case{n}")
    shutil.rmtree(sub, ignore_errors=True)
    os.makedirs(os.path.join(sub, "scenarios")); os.makedirs(os.path.join(sub, f"c07pkg{n}"))
    open(os.path.join(sub, f"c07pkg{n}", "__init__.py"), "w").close()
    if xmile:
        with open(os.path.join(sub, f"c07pkg{n}", "xm.stmx"), "w") as f:
            f.write(XMILE_SRC)
    else:
        with open(os.path.join(sub, f"c07pkg{n}", "mod.py"), "w") as f:
            mrs = mrs_of(case)
            f.write(MODEL_SRC % {"start": float(mrs[0]), "stop": float(mrs[1]), "dt": mrs[2] / 2.0, "consts": CONSTS,
                                 "pts": {POINTS[k]: K.pts_val(v) for k, v in DEF_PTS.items()}, "vals": [float(DEF_CONST[k]) for k in range(3)]})
    def mgr(where, bc, bp, scns):
        m = {"model": f"c07pkg{n}/" + ("xm" if xmile else "mod"), "scenarios": scns}
        if xmile:
            m["source"] = f"c07pkg{n}/xm.stmx"
        c, p = base_vals(case, where, where, bc, bp)
        if c: m["base_constants"] = c
        if p: m["base_points"] = p
        return {"mf": m}
    fmt = case.get("fmt") or ["json"] * (1 + len(case["files2"]))
    write_scenario_file(os.path.join(sub, "scenarios", "a." + fmt[0]), fmt[0],
                        mgr("b", case["bc"], case["bp"], {"s0": mk_dict(case, "d0"), "sib": mk_dict(case, "sib")}))
    for j, (bc2, bp2) in enumerate(case["files2"]):
        write_scenario_file(os.path.join(sub, "scenarios", f"b{j}." + fmt[j + 1]), fmt[j + 1], mgr(f"f{j}", bc2, bp2, {f"t{j}": {}}))
    return sub


EXTRA = {}    # case number -> {"r1": results after the first of two settings, "post": batch run after the last settings}
SIB = {}      # case number -> {"views": {name: (view, results)}, "base": {...}} | {"error": ...}


def base_of(b, model):
    try:
        return _base_of(b, model)
    except Exception as e:
        VIEW_ERRORS.append(f"{type(e).__name__}: {e}")
        return None


def _base_of(b, model):
    mg = b.scenario_manager_factory.scenario_managers["mf"]
    pn = pnames(model)
    return {"bc": {CONSTS.index(k): ccode(v) for k, v in mg.base_constants.items()},
            "bp": {pn.index(k): pcode(v) for k, v in mg.base_points.items()}}


def sibling_views(b, n, model, names=("sib", "late")):
    """'Base values apply to every scenario of the manager unless the scenario overrides them': a sibling
    registered before, and one registered after, settings were supplied to s0 must still run with the base values"""
    try:
        if "late" in names:
            b.register_scenarios(scenarios={"late": {}}, scenario_manager="mf")
            b.reset_scenario_cache(scenario_manager="mf", scenario="sib")
        res = b.run_scenarios(scenarios=list(names), scenario_managers=["mf"], equations=list(EQS), series_names={}, return_format="dict")
        SIB[n] = {"views": {name: (view_of(b.get_scenario("mf", name), model), frame_to_dict(res, "mf", name)) for name in names},
                  "base": base_of(b, model)}
    except Exception as e:
        SIB[n] = {"error": f"{type(e).__name__}: {e}"}


def xm_project(root):
    """a project directory with the XMILE source; the repo's compiler produces c07xm/xm.py on first use"""
    sub = os.path.join(root, "xmproj")
    if not os.path.isdir(sub):
        os.makedirs(os.path.join(sub, "c07xm"))
        open(os.path.join(sub, "c07xm", "__init__.py"), "w").close()
        with open(os.path.join(sub, "c07xm", "xm.stmx"), "w") as f:
            f.write(XMILE_SRC)
    return sub


def isolate_process_state():
    """a case is a fresh process as far as BPTK's module-level state goes: ScenarioManagerSd.__init__ has mutable default arguments
    (`filenames=[]` is extended in place by the factory, so every file-based manager of the process shares ONE list that still names the
    files of earlier cases); empty them, so that a finding does not depend on the cases that ran before and its replay reproduces it"""
    from BPTK_Py.scenariomanager.scenario_manager_sd import ScenarioManagerSd
    for d in (ScenarioManagerSd.__init__.__defaults__ or ()):
        if isinstance(d, (list, dict)):
            d.clear()


def run_case(case, root, n):
    """real code; returns (view, results dict eq -> {t: v}, error)"""
    from BPTK_Py import bptk
    buf = io.StringIO()
    xm = case["model"] == "xmile"
    with contextlib.redirect_stdout(buf):
        if case["channel"] == "file":
            sub = write_file_case(root, n, case)
            isolate_process_state()
            cwd = os.getcwd(); os.chdir(sub); sys.path.insert(0, sub)
            b = None
            try:
                b = bptk(); quiet_bptk_logging()
                mg = b.scenario_manager_factory.scenario_managers.get("mf")
                sc = mg.scenarios.get("s0") if mg else None
                if sc is None or sc.model is None:
                    return None, None, "scenario not loaded: " + buf.getvalue()[-300:]
                if case.get("d"):
                    # settings supplied later to a scenario that came from a file (REST /run on the file-loaded manager)
                    from BPTK_Py.server import BptkServer
                    app = BptkServer(__name__, bptk_factory=lambda: b)
                    resp = app.test_client().post("/run", json={"settings": {"mf": {"s0": mk_dict(case, "d")}}, "scenario_managers": ["mf"],
                                                                "scenarios": ["s0"], "equations": list(EQS)})
                    if resp.status_code != 200:
                        return view_of(sc, case["model"]), {}, f"HTTP {resp.status_code}"
                    res = json.loads(resp.data)
                else:
                    res = b.run_scenarios(scenarios=["s0"], scenario_managers=["mf"], equations=list(EQS), series_names={}, return_format="dict")
                out = view_of(sc, case["model"]), frame_to_dict(res, "mf", "s0"), None
                sibling_views(b, n, case["model"], names=("sib",) + (("t0",) if case["files2"] else ()))
                return out
            finally:
                if b is not None:
                    b.destroy()
                os.chdir(cwd); sys.path.remove(sub)
        cwd = os.getcwd()
        if xm:
            sub = xm_project(root)
            os.chdir(sub); sys.path.insert(0, sub)
        b = bptk(); quiet_bptk_logging()
        try:
            cfg = {"model": "c07xm/xm", "source": "c07xm/xm.stmx"} if xm else {"model": K.build(DEF_CONST, DEF_PTS, mrs_of(case))}
            c, p = base_vals(case, "b", "b", case["bc"], case["bp"])
            if c: cfg["base_constants"] = c
            if p: cfg["base_points"] = p
            b.register_scenario_manager({"mf": cfg})
            b.register_scenarios(scenarios={"s0": mk_dict(case, "d0"), "sib": mk_dict(case, "sib")}, scenario_manager="mf")
            sc = b.get_scenario("mf", "s0")
            if sc is None or sc.model is None:
                return None, None, "scenario not instantiated: " + buf.getvalue()[-300:]
            if case["channel"] == "dict":
                res = b.run_scenarios(scenarios=["s0"], scenario_managers=["mf"], equations=list(EQS), series_names={}, return_format="dict")
                out = view_of(sc, case["model"]), frame_to_dict(res, "mf", "s0"), None
                sibling_views(b, n, case["model"])
                return out
            app = None
            def rest_run(settings):
                nonlocal app
                from BPTK_Py.server import BptkServer
                if app is None:
                    app = BptkServer(__name__, bptk_factory=lambda: b)
                body = {"scenario_managers": ["mf"], "scenarios": ["s0"], "equations": list(EQS)}
                if settings is not None:
                    body["settings"] = {"mf": {"s0": settings}}
                resp = app.test_client().post("/run", json=body)
                return frame_to_dict(json.loads(resp.data), "mf", "s0") if resp.status_code == 200 else f"HTTP {resp.status_code}"
            def session_run(settings, steps=40):
                kw = {"settings": {"mf": {"s0": settings}}} if settings is not None else {}
                b.begin_session(scenarios=["s0"], scenario_managers=["mf"], equations=list(EQS), starttime=0.0, **kw)
                out = {eq: {} for eq in EQS}
                for _ in range(steps):
                    r = b.run_step(settings={})
                    if not r or "msg" in r:
                        break
                    for eq, tv in (r.get("mf", {}).get("s0", {}) or {}).items():
                        for t, v in tv.items():
                            out.setdefault(eq, {})[float(t)] = float(v)
                v = view_of(sc, case["model"])
                b.end_session()
                return v, out
            if case["channel"] == "session" and case.get("via") == "rest-instance":
                # wave 7: the same settings through the REST session of a server instance (begin-session carries them)
                from BPTK_Py.server import BptkServer
                made = []
                def factory():
                    bb = bptk(); quiet_bptk_logging()
                    bb.register_scenario_manager({"mf": dict(cfg) if xm else {**cfg, "model": K.build(DEF_CONST, DEF_PTS, mrs_of(case))}})
                    bb.register_scenarios(scenarios={"s0": mk_dict(case, "d0"), "sib": mk_dict(case, "sib")}, scenario_manager="mf")
                    made.append(bb)
                    return bb
                try:
                    cl = BptkServer(__name__, factory).test_client()
                    iid = json.loads(cl.post("/start-instance", json={}).data)["instance_uuid"]
                    inst = made[-1]
                    cl.post(f"/{iid}/begin-session", json={"scenario_managers": ["mf"], "scenarios": ["s0"], "equations": list(EQS),
                                                           "settings": {"mf": {"s0": mk_dict(case, "d")}}})
                    res = {eq: {} for eq in EQS}
                    for _ in range(40):
                        r = json.loads(cl.post(f"/{iid}/run-step", json={"settings": {}}).data)
                        if not r or "msg" in r or "error" in r:
                            break
                        for eq, tv in (r.get("mf", {}).get("s0", {}) or {}).items():
                            for t, x in tv.items():
                                res.setdefault(eq, {})[float(t)] = float(x)
                    v = view_of(inst.get_scenario("mf", "s0"), case["model"])
                    cl.post(f"/{iid}/end-session")
                    post = inst.run_scenarios(scenarios=["s0"], scenario_managers=["mf"], equations=list(EQS) + ["g0", "g1"], series_names={}, return_format="dict")
                    EXTRA[n] = {"post": frame_to_dict(post, "mf", "s0")}
                    sibling_views(inst, n, case["model"])
                    return v, res, None
                finally:
                    for bb in made:
                        bb.destroy()
            # wave 6: an EVALUATION of the scenario before the settings arrive (the model has been used: memo, derived tables exist)
            pre = case.get("pre")
            if pre == "run":
                b.run_scenarios(scenarios=["s0"], scenario_managers=["mf"], equations=list(EQS), series_names={}, return_format="dict")
            elif pre == "step":
                session_run(None, steps=2)
            elif pre == "rest":
                rest_run(None)
            extra = {}
            later = ["d"] + (["d2"] if case.get("d2") is not None else [])
            for j, w in enumerate(later):
                if case["channel"] == "rest":
                    res = rest_run(mk_dict(case, w))
                    if isinstance(res, str):
                        return view_of(sc, case["model"]), {}, res
                    v = view_of(sc, case["model"])
                else:
                    v, res = session_run(mk_dict(case, w))
                if j + 1 < len(later):
                    extra["r1"] = res                     # after the first of two successive settings
            # … and a run after the last settings: a plain batch run of the scenario, graphical functions included
            post = b.run_scenarios(scenarios=["s0"], scenario_managers=["mf"], equations=list(EQS) + ["g0", "g1"], series_names={}, return_format="dict")
            extra["post"] = frame_to_dict(post, "mf", "s0")
            EXTRA[n] = extra
            sibling_views(b, n, case["model"])
            return v, res, None
        finally:
            b.destroy()
            if xm:
                os.chdir(cwd); sys.path.remove(sub)


def xm_oracle(consts, pts=None):
    """explicit Euler of the XMILE model of XMILE_SRC with the given constants / graphical functions (plain Python, no BPTK)"""
    c = {**DEF_CONST, **consts}
    p = {**DEF_PTS, **(pts or {})}
    dt, out = 0.5, {"s": {}, "f": {}, "h": {}}
    def g(j, t):
        lo, hi = K.pts_val(p[j])
        x = min(max(t, lo[0]), hi[0])
        return (hi[1] - lo[1]) / (hi[0] - lo[0]) * (x - lo[0]) + lo[1]
    s = 0.0
    for k in range(9):
        t = k * dt
        f = VAL(c[0]) + g(0, t) * VAL(c[1])
        out["s"][t] = s; out["f"][t] = float(f); out["h"][t] = float(VAL(c[2]) * g(1, t))
        s = s + dt * f
    return out


def oracle(model, exp):
    if model == "xmile":
        return xm_oracle(exp["consts"], exp["pts"])
    return K.oracle_run(exp["meqs"], exp["mpts"], exp["mrs"])


def rand_case(rng, channel, model):
    def value():                            # wave 4: 0 (falsy) is generated too; wave 7: negative, large, many decimals
        return rng.choice(sorted(SPECIAL)) if rng.chance(1, 6) else rng.range(0, 9)
    def store(n, lo=0, hi=9, p=2):
        return {k: value() for k in rng.shuffle(range(n))[:rng.range(1, n)]} if rng.chance(1, p) else {}
    def dct(runspecs=True):
        d = {}
        c, p = store(3), store(2)
        if c: d["consts"] = c
        if p: d["pts"] = p
        if runspecs and rng.chance(2, 3):
            if rng.chance(1, 2): d["start"] = 0 if rng.chance(1, 2) else rng.range(0, 2)     # falsy target: back to start time 0
            if rng.chance(1, 2): d["stop"] = rng.range(3, 6)
            if rng.chance(1, 2): d["dt"] = rng.choice([1, 2])
        return d
    rs_ok = model == "dsl"                                   # the run-spec clause is for DSL models
    case = {"channel": channel, "model": model, "bc": store(3), "bp": store(2), "d0": dct(rs_ok), "files2": []}
    if model == "dsl":
        case["mrs"] = list(rng.choice(MRS_CHOICES))
    if channel in ("session", "rest") or (channel == "file" and rng.chance(1, 3)):
        case["d"] = dct(rs_ok)
    if channel == "session" and rng.chance(1, 4):
        case["via"] = "rest-instance"                # the session of a server instance: begin-session carries the settings
    elif channel in ("session", "rest"):
        # wave 6: the scenario has been EVALUATED before the settings arrive (run / session steps / REST run), and half of the cases
        # supply a second settings dictionary afterwards, preferably for a key the first one already set
        case["pre"] = rng.choice([None, "run", "step", "rest", "run", "rest"])
        if rng.chance(1, 2):
            d2 = dct(rs_ok)
            for kind, nk in (("consts", 3), ("pts", 2)):
                if case["d"].get(kind) and rng.chance(2, 3):
                    k = rng.choice(sorted(case["d"][kind]))
                    d2.setdefault(kind, {})[k] = rng.range(0, 9)
            case["d2"] = d2
    case["sib"] = dct(False) if rng.chance(1, 2) else {}
    if channel == "file":
        # base values of the manager spread over 0..3 further files; a key is bound by one file only, or by several files
        # that agree on its value (merge_consistent); formats JSON / YAML; the model reads the files in a shuffled order
        used_c, used_p = dict(case["bc"]), dict(case["bp"])
        for _ in range(rng.range(0, 3)):
            fc, fp = {}, {}
            for used, out, nk in ((used_c, fc, 3), (used_p, fp, 2)):
                for k in range(nk):
                    if rng.chance(1, 3):
                        if k in used:
                            if rng.chance(1, 2): out[k] = used[k]
                        else:
                            out[k] = used[k] = rng.range(1, 9)
            case["files2"].append((fc, fp))
        case["fmt"] = [rng.choice(["json", "json", "yml"]) for _ in range(1 + len(case["files2"]))]
        case["order"] = rng.shuffle(range(1 + len(case["files2"])))
    # value forms: some values travel as Python ints, some as strings (the `eval` path of change_equation / change_points /
    # setup_constants / setup_points)
    strs = []
    where = [("b", case["bc"], case["bp"]), ("d0", case["d0"].get("consts") or {}, case["d0"].get("pts") or {}),
             ("sib", case["sib"].get("consts") or {}, case["sib"].get("pts") or {})]
    if "d" in case:
        where.append(("d", case["d"].get("consts") or {}, case["d"].get("pts") or {}))
    if "d2" in case:
        where.append(("d2", case["d2"].get("consts") or {}, case["d2"].get("pts") or {}))
    for j, (fc, fp) in enumerate(case["files2"]):
        where.append((f"f{j}", fc, fp))
    for w, cs, ps in where:
        for k in cs:
            r = rng.below(10)
            if r < 2: strs.append([w, "c", k, "str"])
            elif r < 3: strs.append([w, "c", k, "int"])
        for k in ps:
            if rng.chance(1, 5): strs.append([w, "p", k, "str"])
    for w in ("d0", "d", "d2"):
        for key in ("start", "stop"):
            if (case.get(w) or {}).get(key) is not None and rng.chance(1, 3):
                strs.append([w, "r", key, "int"])                    # run specs as Python ints (`starttime: 0`)
    case["str"] = strs
    return case


# ---------------------------------------------------------------- wave 7: process-level state — several file-based managers in one process
def two_managers(case, root, n):
    """two file-based managers A, B of one project (each in its own scenario file, BOTH with a scenario named s0) and a second bptk
    object of the same process loaded from another project with other file names.  Settings are supplied to B/s0; then scenario A/s0 is
    reset (bptk.reset_scenario, the documented way to re-read one scenario).  B/s0 must still run with its settings, A/s0 with its file
    values; resetting a scenario of the second object must work.  Returns violations [(key, text)]."""
    from BPTK_Py import bptk
    isolate_process_state()      # the finding must come from THIS case's managers, not from lists left by earlier cases
    viols = []
    subs = []
    for j, files in enumerate((("a", "b"), ("c",))):
        sub = os.path.join(root, f"two{n}_{j}")
        shutil.rmtree(sub, ignore_errors=True)
        os.makedirs(os.path.join(sub, "scenarios")); os.makedirs(os.path.join(sub, f"c07two{n}_{j}"))
        open(os.path.join(sub, f"c07two{n}_{j}", "__init__.py"), "w").close()
        with open(os.path.join(sub, f"c07two{n}_{j}", "mod.py"), "w") as f:
            f.write(MODEL_SRC % {"start": float(DEF_RS[0]), "stop": float(DEF_RS[1]), "dt": DEF_RS[2] / 2.0, "consts": CONSTS,
                                 "pts": {POINTS[k]: K.pts_val(v) for k, v in DEF_PTS.items()}, "vals": [float(DEF_CONST[k]) for k in range(3)]})
        for name in files:
            mgr = {name.upper(): {"model": f"c07two{n}_{j}/mod", "scenarios": {"s0": {"constants": {CONSTS[k]: VAL(v) for k, v in case[name].items()}}}}}
            with open(os.path.join(sub, "scenarios", name + ".json"), "w") as f:
                json.dump(mgr, f)
        subs.append(sub)
    cwd = os.getcwd()
    objs = []
    def run(b, mgr):
        return frame_to_dict(b.run_scenarios(scenarios=["s0"], scenario_managers=[mgr], equations=list(EQS), series_names={}, return_format="dict"), mgr, "s0")
    try:
        with contextlib.redirect_stdout(io.StringIO()):
            os.chdir(subs[0]); sys.path.insert(0, subs[0])
            b = bptk(); quiet_bptk_logging(); objs.append(b)
            os.chdir(subs[1]); sys.path.insert(0, subs[1])
            b2 = bptk(); quiet_bptk_logging(); objs.append(b2)
            os.chdir(subs[0])
            stg = {"constants": {CONSTS[k]: VAL(v) for k, v in case["set"].items()}}
            b.begin_session(scenarios=["s0"], scenario_managers=["B"], equations=list(EQS), settings={"B": {"s0": stg}})
            b.end_session()
            want_b = K.oracle_run({**DEF_CONST, **case["b"], **case["set"]}, DEF_PTS, DEF_RS)
            want_a = K.oracle_run({**DEF_CONST, **case["a"]}, DEF_PTS, DEF_RS)
            if run(b, "B") != want_b:
                viols.append(("two-managers-settings", "B/s0 after its settings: " + K.first_diff(run(b, "B"), want_b)))
            try:
                b.reset_scenario(scenario_manager="A", scenario="s0")
            except Exception as e:
                viols.append(("other-manager-reset", f"reset_scenario('A', 's0') raised {type(e).__name__}: {e}"))
            got = run(b, "B")
            if not viols and got != want_b:
                viols.append(("other-manager-reset", f"settings {case['set']} were supplied to B/s0 (file constants {case['b']}); after reset_scenario('A', 's0') "
                              f"B/s0 runs with constants {view_of(b.get_scenario('B', 's0'))['consts']}: " + K.first_diff(got, want_b)))
            if not viols and run(b, "A") != want_a:
                viols.append(("other-manager-reset", "A/s0 after its own reset: " + K.first_diff(run(b, "A"), want_a)))
            os.chdir(subs[1])
            try:
                b2.reset_scenario(scenario_manager="C", scenario="s0")
                if run(b2, "C") != K.oracle_run({**DEF_CONST, **case["c"]}, DEF_PTS, DEF_RS):
                    viols.append(("other-object-reset", "C/s0 of a second bptk object after its reset differs from the model built with its file values"))
            except Exception as e:
                if not viols:
                    viols.append(("other-object-reset", f"second bptk object of the process (project with scenarios/c.json): reset_scenario('C', 's0') raised {type(e).__name__}: {e}"))
    finally:
        for o in objs:
            o.destroy()
        os.chdir(cwd)
        for sub in subs:
            if sub in sys.path: sys.path.remove(sub)
    return viols


def rand_two_managers(rng):
    st = lambda: {k: rng.range(0, 9) for k in rng.shuffle(range(3))[:rng.range(1, 2)]}
    return {"a": st(), "b": st(), "c": st(), "set": {k: rng.range(0, 9) for k in rng.shuffle(range(3))[:rng.range(1, 3)]}}


FIXED = [
    {"channel": "dict", "model": "dsl", "bc": {}, "bp": {}, "d0": {}, "files2": []},                                   # no override
    {"channel": "dict", "model": "dsl", "bc": {}, "bp": {}, "d0": {"start": 1, "stop": 3, "dt": 1}, "files2": []},     # DESIGN §1 witness
    {"channel": "dict", "model": "dsl", "bc": {}, "bp": {}, "d0": {"pts": {0: 5}}, "files2": []},                      # one of two tables overridden
    {"channel": "dict", "model": "dsl", "bc": {0: 4}, "bp": {1: 6}, "d0": {"consts": {0: 7}}, "files2": []},
    {"channel": "file", "model": "dsl", "bc": {0: 4}, "bp": {}, "d0": {"consts": {1: 3}, "start": 1, "stop": 3, "dt": 1}, "files2": [({2: 8}, {0: 2})]},
    {"channel": "file", "model": "dsl", "bc": {}, "bp": {}, "d0": {}, "files2": [({}, {})]},
    {"channel": "session", "model": "dsl", "bc": {1: 2}, "bp": {}, "d0": {"consts": {0: 3}}, "d": {"consts": {0: 5}, "pts": {1: 4}, "start": 1, "stop": 3}, "files2": []},
    {"channel": "rest", "model": "dsl", "bc": {}, "bp": {0: 3}, "d0": {}, "d": {"consts": {2: 9}, "pts": {0: 8}, "start": 1, "dt": 1}, "files2": []},
    {"channel": "file", "model": "xmile", "bc": {0: 4}, "bp": {}, "d0": {"consts": {1: 3}}, "files2": [({2: 8}, {})]},
    {"channel": "file", "model": "xmile", "bc": {}, "bp": {}, "d0": {}, "files2": [({}, {})]},
    # wave 2: the sibling witness (Lean: C07_witness_shared_base) on the session and REST channels, both model types
    {"channel": "session", "model": "dsl", "bc": {0: 2}, "bp": {0: 3}, "d0": {}, "d": {"consts": {0: 5}, "pts": {0: 7}}, "files2": []},
    {"channel": "rest", "model": "dsl", "bc": {0: 2}, "bp": {0: 3}, "d0": {}, "d": {"consts": {0: 5}, "pts": {0: 7}}, "files2": []},
    {"channel": "session", "model": "xmile", "bc": {0: 2}, "bp": {1: 3}, "d0": {}, "d": {"consts": {0: 5}, "pts": {1: 7}}, "files2": []},
    {"channel": "rest", "model": "xmile", "bc": {1: 2}, "bp": {}, "d0": {"pts": {0: 4}}, "d": {"consts": {1: 5}}, "sib": {"consts": {2: 6}}, "files2": []},
    {"channel": "dict", "model": "xmile", "bc": {0: 4}, "bp": {1: 6}, "d0": {"consts": {0: 7}, "pts": {0: 2}}, "files2": []},
    {"channel": "file", "model": "dsl", "bc": {0: 2}, "bp": {0: 3}, "d0": {}, "d": {"consts": {0: 5}, "pts": {0: 7}, "stop": 3}, "files2": [({1: 6}, {})]},
    # wave 4: falsy override targets — the model starts at 1 (or an earlier setting moved the start), the override says 0 / 0.0
    {"channel": "dict", "model": "dsl", "mrs": [1, 5, 2], "bc": {}, "bp": {}, "d0": {"start": 0}, "files2": []},
    {"channel": "dict", "model": "dsl", "mrs": [1, 5, 2], "bc": {0: 0}, "bp": {}, "d0": {"start": 0, "consts": {1: 0}}, "files2": [], "str": [["d0", "r", "start", "int"], ["d0", "c", 1, "int"]]},
    {"channel": "file", "model": "dsl", "mrs": [2, 6, 2], "bc": {}, "bp": {}, "d0": {"start": 0, "stop": 3}, "files2": [], "str": [["d0", "r", "start", "int"]]},
    {"channel": "session", "model": "dsl", "mrs": [1, 5, 2], "bc": {}, "bp": {}, "d0": {}, "d": {"start": 0}, "files2": []},
    {"channel": "session", "model": "dsl", "bc": {}, "bp": {}, "d0": {"start": 2}, "d": {"start": 0, "consts": {0: 0}}, "files2": [], "str": [["d", "r", "start", "int"]]},
    {"channel": "rest", "model": "dsl", "mrs": [1, 5, 2], "bc": {}, "bp": {}, "d0": {}, "d": {"start": 0}, "files2": []},
    {"channel": "rest", "model": "dsl", "bc": {}, "bp": {}, "d0": {"start": 1}, "d": {"start": 0, "consts": {2: 0}}, "files2": [], "str": [["d", "r", "start", "int"]]},
    # wave 6: evaluate, THEN supply points / constants / run specs as settings, then run again (twice for the same key)
    {"channel": "session", "model": "dsl", "bc": {}, "bp": {}, "d0": {}, "pre": "run", "d": {"pts": {0: 7}}, "files2": []},
    {"channel": "rest", "model": "dsl", "bc": {}, "bp": {}, "d0": {}, "pre": "rest", "d": {"pts": {1: 2}}, "d2": {"pts": {1: 8}, "consts": {2: 4}}, "files2": []},
    {"channel": "rest", "model": "dsl", "bc": {}, "bp": {0: 3}, "d0": {}, "pre": "step", "d": {"pts": {0: 6}, "dt": 1}, "d2": {"pts": {0: 1}, "start": 1}, "files2": []},
    {"channel": "session", "model": "dsl", "mrs": [1, 5, 2], "bc": {1: 2}, "bp": {}, "d0": {"pts": {0: 4}}, "pre": "step", "d": {"consts": {1: 5}, "pts": {0: 9}}, "d2": {"consts": {1: 0}, "pts": {0: 0}, "start": 0}, "files2": []},
    {"channel": "session", "model": "xmile", "bc": {}, "bp": {}, "d0": {}, "pre": "run", "d": {"pts": {0: 7}}, "d2": {"pts": {0: 2}}, "files2": []},
    {"channel": "rest", "model": "xmile", "bc": {}, "bp": {1: 3}, "d0": {}, "pre": "rest", "d": {"pts": {1: 7}, "consts": {0: 3}}, "files2": []},
    {"channel": "session", "via": "rest-instance", "model": "dsl", "mrs": [1, 5, 2], "bc": {0: 2}, "bp": {0: 3}, "d0": {}, "d": {"consts": {0: 30, 1: 32}, "pts": {0: 7}, "start": 0}, "files2": []},
    {"channel": "session", "via": "rest-instance", "model": "xmile", "bc": {}, "bp": {}, "d0": {"consts": {2: 31}}, "d": {"pts": {1: 30}}, "files2": []},
    # n files, YAML + JSON, a consistent duplicate, string-valued and int-valued settings
    {"channel": "file", "model": "dsl", "bc": {0: 4}, "bp": {}, "d0": {"consts": {1: 3}, "pts": {1: 6}}, "sib": {"consts": {2: 5}},
     "files2": [({2: 8}, {0: 2}), ({0: 4}, {}), ({1: 7}, {0: 2})], "fmt": ["yml", "json", "yml", "json"], "order": [3, 1, 0, 2],
     "str": [["b", "c", 0, "str"], ["d0", "c", 1, "str"], ["d0", "p", 1, "str"], ["f0", "c", 2, "int"], ["f0", "p", 0, "str"]]},
    {"channel": "dict", "model": "dsl", "bc": {0: 4}, "bp": {1: 6}, "d0": {"consts": {1: 7}, "pts": {0: 3}}, "files2": [],
     "str": [["b", "c", 0, "str"], ["b", "p", 1, "str"], ["d0", "c", 1, "str"], ["d0", "p", 0, "str"]]},
    {"channel": "rest", "model": "dsl", "bc": {}, "bp": {}, "d0": {}, "d": {"consts": {0: 6, 1: 7, 2: 8}, "pts": {0: 3}}, "files2": [],
     "str": [["d", "c", 0, "str"], ["d", "c", 1, "str"], ["d", "c", 2, "int"], ["d", "p", 0, "str"]]},
]


def norm_case(case):
    case = copy.deepcopy(case)
    case.setdefault("sib", {}); case.setdefault("str", []); case.setdefault("files2", [])
    case["files2"] = [tuple(f) for f in case["files2"]]
    return case


def probe_owns_dicts(root):
    """behavioural: settings supplied to one scenario without an own block must not reach a sibling without an own
    block, the manager's base values, or a scenario registered afterwards — dict registration and scenario files"""
    from BPTK_Py import bptk
    detail = {}
    stg = {"constants": {"c0": 9.0}, "points": {"p0": K.pts_val(9)}}
    with contextlib.redirect_stdout(io.StringIO()):
        b = bptk(); quiet_bptk_logging()
        try:
            b.register_scenario_manager({"mf": {"model": K.build(DEF_CONST, DEF_PTS, DEF_RS), "base_constants": {"c0": 4.0},
                                                "base_points": {"p0": K.pts_val(4)}}})
            b.register_scenarios(scenarios={"a": {}, "b": {}}, scenario_manager="mf")
            b.begin_session(scenarios=["a"], scenario_managers=["mf"], equations=list(EQS), settings={"mf": {"a": copy.deepcopy(stg)}}); b.end_session()
            b.register_scenarios(scenarios={"late": {}}, scenario_manager="mf")
            mg = b.scenario_manager_factory.scenario_managers["mf"]
            detail["dict"] = all(ccode(x["c0"]) == 4 for x in (b.get_scenario("mf", "b").constants, b.get_scenario("mf", "late").constants, mg.base_constants)) \
                and all(pcode(x["p0"]) == 4 for x in (b.get_scenario("mf", "b").points, b.get_scenario("mf", "late").points, mg.base_points))
        except Exception as e:
            detail["dict"] = False; detail["dict_error"] = f"{type(e).__name__}: {e}"
        finally:
            b.destroy()
        case = norm_case({"channel": "file", "model": "dsl", "bc": {0: 4}, "bp": {0: 4}, "d0": {}, "files2": [({}, {})]})
        sub = write_file_case(root, 9998, case)
        cwd = os.getcwd(); os.chdir(sub); sys.path.insert(0, sub)
        b = None
        try:
            b = bptk(); quiet_bptk_logging()
            mg = b.scenario_manager_factory.scenario_managers["mf"]
            b.begin_session(scenarios=["s0"], scenario_managers=["mf"], equations=list(EQS), settings={"mf": {"s0": copy.deepcopy(stg)}}); b.end_session()
            detail["file"] = all(ccode(x["c0"]) == 4 for x in (mg.scenarios["sib"].constants, mg.scenarios["t0"].constants, mg.base_constants)) \
                and all(pcode(x["p0"]) == 4 for x in (mg.scenarios["sib"].points, mg.scenarios["t0"].points, mg.base_points))
        except Exception as e:
            detail["file"] = False; detail["file_error"] = f"{type(e).__name__}: {e}"
        finally:
            if b is not None:
                b.destroy()
            os.chdir(cwd); sys.path.remove(sub)
    return detail


def probe(root):
    """mechanism facts, probed BEHAVIOURALLY through the public API (bptk.register_*, run_scenarios, begin_session, get_scenario): a probe
    that cannot run (an internal signature changed) leaves its fact unestablished (False) with a note — the obligation is then routed to the
    failing-input search, never to a concrete accusation"""
    from BPTK_Py import bptk
    facts = {"probe_errors": {}}
    def guarded(name, fn, default=False):
        try:
            return fn()
        except Exception as e:
            facts["probe_errors"][name] = f"{type(e).__name__}: {e}"
            return default
    def start_applied():
        with contextlib.redirect_stdout(io.StringIO()):
            b = bptk(); quiet_bptk_logging()
            try:
                b.register_scenario_manager({"mf": {"model": K.build(DEF_CONST, DEF_PTS, DEF_RS)}})
                b.register_scenarios(scenarios={"s0": {"runspecs": {"starttime": 1.0, "stoptime": 3.0, "dt": 0.5}}}, scenario_manager="mf")
                r = frame_to_dict(b.run_scenarios(scenarios=["s0"], scenario_managers=["mf"], equations=["s"], series_names={}, return_format="dict"), "mf", "s0")
                return min(r["s"]) == 1.0 and r["s"][1.0] == 0.0
            finally:
                b.destroy()
    facts["runspecStartApplied"] = guarded("runspecStartApplied", start_applied)
    def file_kept():
        case = norm_case({"channel": "file", "model": "dsl", "bc": {}, "bp": {}, "d0": {"start": 1, "stop": 3, "dt": 1}, "files2": []})
        v, res, err = run_case(case, root, 9999)
        SIB.pop(9999, None); EXTRA.pop(9999, None)
        return bool(res) and sorted(res["s"]) == [1.0, 1.5, 2.0, 2.5, 3.0]
    facts["fileRunspecsKept"] = guarded("fileRunspecsKept", file_kept)
    facts["ownsDictsDetail"] = guarded("scenarioOwnsDicts", lambda: probe_owns_dicts(root), {})
    facts["scenarioOwnsDicts"] = bool(facts["ownsDictsDetail"].get("dict")) and bool(facts["ownsDictsDetail"].get("file"))
    facts["evalRows"] = guarded("evalReadsCurrent", probe_eval_reads_current, [(0, 1, 0)])
    facts["evalReadsCurrent"] = all(e == o for _, e, o in facts["evalRows"])
    facts["overrideByPresence"] = guarded("overrideByPresence", probe_presence)
    return facts


FACTS = ("runspecStartApplied", "fileRunspecsKept", "scenarioOwnsDicts", "overrideByPresence", "evalReadsCurrent")


def probe_eval_reads_current():
    """evaluate -> change -> evaluate on the real settings path, per setting kind: rows (kind, expected code, observed code).
    kind 0 = constant, 1 = points of a NAMED graphical function, 2 = run specs (start time).  The change goes the way session / REST
    settings go: SimulationScenario.configure_settings, reset_scenario_cache, then the runner applies the scenario to its model."""
    from BPTK_Py import bptk
    rows = []
    with contextlib.redirect_stdout(io.StringIO()):
        for kind, stg in ((0, {"constants": {"c2": 7.0}}), (1, {"points": {"p1": K.pts_val(7)}}), (2, {"runspecs": {"starttime": 1.0}})):
            b = bptk(); quiet_bptk_logging()
            try:
                b.register_scenario_manager({"mf": {"model": K.build(DEF_CONST, DEF_PTS, DEF_RS)}})
                b.register_scenarios(scenarios={"s0": {}}, scenario_manager="mf")
                run = lambda: frame_to_dict(b.run_scenarios(scenarios=["s0"], scenario_managers=["mf"], equations=["h", "g1", "c2", "s"], series_names={},
                                                            return_format="dict"), "mf", "s0")
                run()                                                            # evaluate
                b.begin_session(scenarios=["s0"], scenario_managers=["mf"], equations=["s"], settings={"mf": {"s0": stg}})    # change: session settings
                b.end_session()
                r = run()                                                        # evaluate
                if kind == 0:
                    rows.append((0, 7, int(r["c2"][0.0])))
                elif kind == 1:
                    rows.append((1, 7, int(r["g1"][0.0])))
                else:
                    rows.append((2, 1, int(min(r["s"]))))
            except Exception as e:
                rows.append((kind, 1, 0))
            finally:
                b.destroy()
    return rows
WITNESS = {"runspecStartApplied": "C07_witness_start", "fileRunspecsKept": "C07_witness_file", "scenarioOwnsDicts": "C07_witness_shared_base",
           "overrideByPresence": "C07_witness_falsy_override", "evalReadsCurrent": "C07_witness_derived_table"}


def probe_presence():
    """an override is applied iff its key is present: start time 0 / 0.0 given at registration and as later (session) settings on a
    scenario whose model starts at 1 — observed on the results' grid (public API only)"""
    from BPTK_Py import bptk
    ok = True
    with contextlib.redirect_stdout(io.StringIO()):
        for zero in (0, 0.0):
            b = bptk(); quiet_bptk_logging()
            try:
                b.register_scenario_manager({"mf": {"model": K.build(DEF_CONST, DEF_PTS, (1, 5, 2))}})
                b.register_scenarios(scenarios={"reg": {"runspecs": {"starttime": zero}}, "late": {}}, scenario_manager="mf")
                run = lambda name: frame_to_dict(b.run_scenarios(scenarios=[name], scenario_managers=["mf"], equations=["s"], series_names={}, return_format="dict"), "mf", name)
                ok = ok and min(run("reg")["s"]) == 0.0 and max(run("reg")["s"]) == 5.0
                b.begin_session(scenarios=["late"], scenario_managers=["mf"], equations=["s"], settings={"mf": {"late": {"runspecs": {"starttime": zero}}}})
                b.end_session()
                ok = ok and min(run("late")["s"]) == 0.0
            finally:
                b.destroy()
    return ok


def gen_lean(f):
    bad = [k for k in FACTS if not f[k]]
    if not bad:
        body = "theorem holds : C07_full cfg := C07_full_of_good cfg (by decide)\n#print axioms holds\n"
    else:
        body = f"theorem violated : ¬ C07_full cfg := {WITNESS[bad[0]]} cfg (by decide)\n#print axioms violated\n"
    fields = ", ".join(f"{k} := {'true' if f[k] else 'false'}" for k in FACTS)
    rows = ", ".join(f"({k}, {e}, {o})" for k, e, o in f.get("evalRows", []))
    body += (f"/-- evaluate → change → evaluate on the real code, per setting kind (0 constant, 1 named graphical function, 2 start time): "
             f"(kind, value the settings demand, value the second evaluation used) -/\ndef evalRows : List (Nat × Nat × Nat) := [{rows}]\n"
             f"theorem evalRows_verdict : evalRows.all (fun r => r.2.1 == r.2.2) = {'true' if f['evalReadsCurrent'] else 'false'} := by decide\n")
    return ("import Bptk.Props.C07\n/-! GENERATED by harness/props/c07.py from /repo on every run — do not edit. -/\n"
            "namespace Bptk.C07.Gen\n"
            f"def cfg : Cfg := {{ {fields} }}\n" + body + "end Bptk.C07.Gen\n")


def check_case(case, root, n):
    """returns (real view, violations [(key, text)], correspondence pairs [(request, real reply)])"""
    case = norm_case(case)
    exp = expected(case)
    ch, xm = case["channel"], case["model"] == "xmile"
    tag = f"{ch}-xmile" if xm else ch
    SIB.pop(n, None); EXTRA.pop(n, None)
    try:
        v, res, err = run_case(case, root, n)
    except Exception as e:
        if os.environ.get("VERIF_DEBUG"):
            import traceback; traceback.print_exc()
        return None, [(f"{ch}-raises", f"{type(e).__name__}: {e}")], []
    if err:
        return v, [(f"{ch}-error", err)], []
    viols = []
    want = oracle(case["model"], exp)
    if ch == "session":
        want = {eq: {t: x for t, x in tv.items() if t >= 0.0} for eq, tv in want.items()}
    results_ok = res == want
    # a view that differs from the reference semantics is an accusation only together with wrong RESULTS (the statement is about results);
    # alone it is a broken structural tie: it shows up as a correspondence difference (no-failing-input-found)
    for comp in ("consts", "pts", "rs", "meqs", "mpts", "mrs"):
        if v is not None and v[comp] != exp[comp]:
            if not results_ok:
                viols.append((f"{tag}-{comp}", f"{comp}: real {v[comp]} expected {exp[comp]}"))
            else:
                VIEW_ONLY.append(f"{tag}-{comp}: real {v[comp]} expected {exp[comp]} (results agree with the directly built model)")
            break
    if not results_ok and not (xm and viols):
        viols.append((f"{tag}-results", K.first_diff(res, want) + f"; model built directly with consts={exp['meqs']} points={exp['mpts']} runspecs={exp['mrs']}"))
    pairs = [(model_line(case), v)] if v is not None else []
    extra = EXTRA.pop(n, None)
    if extra is not None and not viols:
        if "r1" in extra:
            e1 = expected(case, upto=1)
            w1 = oracle(case["model"], e1)
            if extra["r1"] != w1:
                viols.append((f"{tag}-results-after-first-settings", K.first_diff(extra["r1"], w1) + f"; model built directly with consts={e1['meqs']} points={e1['mpts']} runspecs={e1['mrs']}"))
        post = {eq: tv for eq, tv in extra["post"].items() if eq in EQS}
        wpost = oracle(case["model"], exp)
        if not viols and post != wpost:
            viols.append((f"{tag}-results-run-after-settings", "batch run after the settings: " + K.first_diff(post, wpost) +
                          f"; model built directly with consts={exp['meqs']} points={exp['mpts']} runspecs={exp['mrs']}"))
        if not viols:
            # application reaches evaluation: the evaluation machine of the Lean model on the same history; what the last evaluation
            # read for each graphical function = the level of g_j at the start time in the real results
            t0 = float(exp["mrs"][0])
            reads = {j: CODE(extra["post"]["g%d" % j][t0] - 0.5 * t0) for j in range(2)}
            mrs = "/".join(map(str, mrs_of(case)))
            ap = lambda e: f"eapply {K.st(e['consts'])} {K.st(e['pts'])} {'/'.join(map(str, e['rs']))}"
            pairs.append((f"enew {mrs} {K.st(DEF_PTS)}", "ok"))
            if case.get("pre"):
                pairs += [(ap(expected(case, upto=0)), "ok"), ("eeval", "ok")]
            for u in range(1, 2 + (1 if case.get("d2") is not None else 0)):
                pairs += [(ap(expected(case, upto=u)), "ok"), ("eeval", "ok")]
            pairs += [(ap(exp), "ok"), ("eeval", "ok"), ("eread 0", str(reads[0])), ("eread 1", str(reads[1]))]
    sib = SIB.pop(n, None)
    if sib is not None and not viols:
        if "error" in sib:
            viols.append((f"{ch}-sibling-raises", sib["error"]))
        else:
            for name, (sv, sres) in sib["views"].items():
                bexp = expected(case, "sib" if name == "sib" else "none")
                bwant = oracle(case["model"], bexp)
                what = {"sib": "registered before", "late": "registered after", "t0": "defined in another file than"}[name]
                own = case["sib"] if name == "sib" else {}
                for comp in ("consts", "pts", "meqs", "mpts"):
                    if sv is not None and sv[comp] != bexp[comp]:
                        if sres != bwant:
                            viols.append((f"{ch}-sibling-{comp}", f"scenario '{name}' (own overrides {own}, {what} the settings for s0) {comp}: real {sv[comp]} "
                                          f"expected own ⊕ base = {bexp[comp]}; its results: " + K.first_diff(sres, bwant)))
                        else:
                            VIEW_ONLY.append(f"{ch}-sibling-{comp}: scenario '{name}' real {sv[comp]} expected {bexp[comp]} (its results agree)")
                        break
                else:
                    if sres != bwant:
                        viols.append((f"{ch}-sibling-results", f"scenario '{name}': " + K.first_diff(sres, bwant)))
                if viols:
                    break
            bc, bp = all_base(case)
            if not viols and sib["base"] is not None and sib["base"] != {"bc": bc, "bp": bp}:
                VIEW_ONLY.append(f"{ch}-manager-base: the manager's base dictionaries read {sib['base']}, registered {{'bc': {bc}, 'bp': {bp}}} (all results agree)")
            if not viols:
                # the manager machine of the Lean model (MState / mstep / mview) on the same history
                if ch == "file":
                    if sib["views"]["sib"][0] is not None:
                        pairs.append((model_line(case, "sib"), sib["views"]["sib"][0]))
                else:
                    mrs = "/".join(map(str, mrs_of(case)))
                    pairs += [(f"mgr {mrs} {K.st(case['bc'])} {K.st(case['bp'])}", "ok"), (f"madd 0 {K.dict_args(case['d0'])}", "ok"),
                              (f"madd 1 {K.dict_args(case['sib'])}", "ok")]
                    if ch in ("session", "rest"):
                        pairs.append((f"mconf 0 {K.dict_args(case.get('d') or {})}", "ok"))
                        if case.get("d2") is not None:
                            pairs.append((f"mconf 0 {K.dict_args(case['d2'])}", "ok"))
                    pairs.append((f"madd 2 {K.dict_args({})}", "ok"))
                    sel = lambda x: {k: x[k] for k in ("consts", "pts", "rs")}
                    if v is not None and sib["views"]["sib"][0] is not None and sib["views"]["late"][0] is not None and sib["base"] is not None:
                        pairs += [("mview 0", sel(v)), ("mview 1", sel(sib["views"]["sib"][0])), ("mview 2", sel(sib["views"]["late"][0])),
                                  ("mview 3", None), ("mbase", sib["base"])]
    return v, viols, pairs


def shrink(case, key, root):
    """greedy: drop entries / files / value forms / later settings while the same finding class still shows"""
    case = norm_case(case)
    def fails(c):
        try:
            return any(k == key for k, _ in check_case(c, root, 7777)[1])
        except Exception:
            return False
    def candidates(c):
        for w in ("bc", "bp"):
            for k in list(c[w]):
                d = copy.deepcopy(c); del d[w][k]; yield d
        for w in ("d0", "d", "sib"):
            if c.get(w):
                for kind in ("consts", "pts"):
                    for k in list(c[w].get(kind) or {}):
                        d = copy.deepcopy(c); del d[w][kind][k]
                        if not d[w][kind]: del d[w][kind]
                        yield d
                for key_ in ("start", "stop", "dt"):
                    if c[w].get(key_) is not None:
                        d = copy.deepcopy(c); del d[w][key_]; yield d
        if c.get("d2") is not None:
            d = copy.deepcopy(c); del d["d2"]; yield d
        for w in ("d2",):
            if c.get(w):
                for kind in ("consts", "pts"):
                    for k in list(c[w].get(kind) or {}):
                        d = copy.deepcopy(c); del d[w][kind][k]
                        if not d[w][kind]: del d[w][kind]
                        yield d
        for j in range(len(c["files2"])):
            d = copy.deepcopy(c); del d["files2"][j]
            d["str"] = [s for s in d["str"] if not s[0].startswith("f")]
            d.pop("order", None); d.pop("fmt", None); yield d
        for j in range(len(c["str"])):
            d = copy.deepcopy(c); del d["str"][j]; yield d
        if c.get("fmt") and any(f != "json" for f in c["fmt"]):
            d = copy.deepcopy(c); d["fmt"] = ["json"] * len(c["fmt"]); yield d
    changed = True
    while changed:
        changed = False
        for cand in candidates(case):
            if fails(cand):
                case = norm_case(cand); changed = True
                break
    return case


def run(chk):
    quiet_bptk_logging()
    root = scratch_dir("c07")
    cwd = os.getcwd()
    import threading
    hook = threading.excepthook
    # the repo's FileMonitor threads stat a relative path once a second; a case that has already left its project
    # directory makes a dying monitor print FileNotFoundError — noise, not a result
    threading.excepthook = lambda a: None if issubclass(a.exc_type, FileNotFoundError) else hook(a)
    try:
        os.chdir(root)
        _run(chk, root)
    finally:
        threading.excepthook = hook
        os.chdir(cwd)
        shutil.rmtree(root, ignore_errors=True)


def _run(chk, root):
    del VIEW_ERRORS[:]; del VIEW_ONLY[:]
    facts = probe(root)
    chk.notes["cfg"] = facts
    ok, why = chk.prove(gen_lean(facts))
    chk.cov["trusted_base"] = [
        "Lean 4.33 kernel; axioms propext, Quot.sound (audited per run via #print axioms)",
        "hand-written model lean/Bptk/Core/C07.lean of add_scenarios / load_scenarios + __get_all_base_constants/points / configure_settings / REST settings block / SdRunner application, and of the manager with its base dictionaries as the one shareable cell (MState/mstep); tied to the code by three probes and the correspondence run",
        "the simulated numbers are not modelled in Lean: the harness compares the real results with the model built directly with the effective values (DSL) / a plain-Python Euler loop (XMILE model)",
        "string-valued settings: the number / point list a string denotes is computed by the harness with Python's eval (value codes in the model are opaque)",
        "json / yaml round trip of scenario files, Flask test client for POST /run, the XMILE compiler (subject of C03/C04)",
    ]
    chk.assumptions = ["base values of one manager spread over several files: a key is bound by one file, or by several files that agree on its value (the code documents conflicting duplicates as lossy)",
                       "run-spec clauses only for SD DSL models; XMILE-sourced models: constants and graphical functions on all four channels",
                       "session channel: begin_session is given the scenario's dt (that the session takes its dt from an argument is C09's subject)",
                       "a scenario dictionary has a `constants` / `points` key only when it lists at least one entry"]
    rng = chk.rng.fork("c07")
    cases = [norm_case(c) for c in FIXED]
    per = 25 if chk.quick else 150
    for ch in ("dict", "file", "session", "rest"):
        for _ in range(per if ch != "file" else max(3, per // 2)):
            cases.append(rand_case(rng, ch, "dsl"))
    nx = 6 if chk.quick else 30
    for ch in ("file", "dict", "session", "rest"):
        for _ in range(nx):
            cases.append(rand_case(rng, ch, "xmile"))
    chk.cov["rule"] = ("fixed cases (no override, the run-spec witnesses, one-of-two point tables, multi-file base constants, XMILE, the sibling witness per channel, n files in YAML+JSON with "
                       "string/int-valued settings) + seeded random cases per channel (dict / scenario files: 1..4 files, JSON or YAML, consistent duplicate base keys, model reads them in a shuffled "
                       "order / session / REST) x model type (DSL, XMILE-sourced) with random constants, points, run specs at manager and scenario level, values as float / int / string; a case = "
                       "(channel, model type, base constants, base points, scenario dictionary, sibling dictionary, later settings, further files, formats, value forms); every case also registers a "
                       "sibling before and one after the settings and runs them; non-trivial = at least one override")
    two_first = {}
    req, real, first, dist = [f"cfg {' '.join('1' if facts[k] else '0' for k in FACTS)}"], ["ok"], {}, {}
    forms = {"str": 0, "int": 0, "yml_files": 0, "files": 0, "sibling_checks": 0}
    for n, case in enumerate(cases):
        v, viols, pairs = check_case(case, root, n)
        dist[f"{case['channel']}/{case['model']}"] = dist.get(f"{case['channel']}/{case['model']}", 0) + 1
        for s in case.get("str", []):
            forms[s[3]] += 1
        forms["yml_files"] += sum(1 for f in case.get("fmt", []) if f == "yml"); forms["files"] += len(case.get("fmt", []))
        forms["sibling_checks"] += 1 if len(pairs) > 1 else 0
        for key_, cond in (("session via REST instance", case.get("via") == "rest-instance"), ("evaluated before settings", bool(case.get("pre"))),
                           ("two successive settings", case.get("d2") is not None), ("model start != 0", mrs_of(case)[0] != 0),
                           ("override towards 0", any((case.get(w) or {}).get("start") == 0 for w in ("d0", "d", "d2"))),
                           ("value 0", any(0 in ((case.get(w) or {}).get(kk) or {}).values() for w in ("d0", "d", "d2", "sib") for kk in ("consts", "pts")) or 0 in case["bc"].values()),
                           ("negative/large/many-decimals value", any(x in SPECIAL for w in ("d0", "d", "d2", "sib") for kk in ("consts", "pts") for x in ((case.get(w) or {}).get(kk) or {}).values())
                            or any(x in SPECIAL for x in list(case["bc"].values()) + list(case["bp"].values())))):
            forms[key_] = forms.get(key_, 0) + (1 if cond else 0)
        chk.case(json.dumps(case, sort_keys=True), nontrivial=bool(case["bc"] or case["bp"] or case["d0"] or case.get("d")),
                 sample=case if n % 9 == 0 else None)
        for r, p in pairs:
            req.append(r); real.append(p)
        for key, text in viols:
            first.setdefault(key, (case, text))
    twos = [{"a": {0: 2}, "b": {0: 3}, "c": {1: 4}, "set": {0: 10 % 10 + 7}}] + [rand_two_managers(rng.fork("two%d" % i)) for i in range(3 if chk.quick else 20)]
    for i, tc in enumerate(twos):
        try:
            tv = two_managers(tc, root, i)
        except Exception as e:
            tv = [("two-managers-raises", f"{type(e).__name__}: {e}")]
        chk.case(json.dumps({"two_managers": {k: {str(a): b for a, b in v.items()} for k, v in tc.items()}}, sort_keys=True), nontrivial=True)
        for key, text in tv:
            if key not in first and key not in two_first:
                two_first[key] = (tc, text)
    dist["two file managers + second bptk object, reset_scenario"] = len(twos)
    chk.cov["case_distribution"] = dist
    chk.cov["value_forms_and_files"] = forms
    chk.cov["traces_validated_against_impl"] = len(req) - 1
    model = drive("C07", req)
    diff = next((i for i, (a, b) in enumerate(zip(model, real)) if not model_agrees(req[i], a, b)), None)
    if diff is None and len(model) != len(real):
        diff = min(len(model), len(real))
    for key, (case, text) in first.items():
        small = shrink(case, key, root)
        vv = [t for k, t in check_case(small, root, 7778)[1] if k == key]
        chk.add_finding(key, f"{small['channel']} channel, {small['model']} model (own run specs {mrs_of(small)}), base_constants={small['bc']} base_points={small['bp']} scenario={small['d0']} "
                        f"sibling={small['sib']} evaluated before the settings={small.get('pre')} settings={small.get('d')} then={small.get('d2')} files2={small['files2']} value forms={small['str']}: {vv[0] if vv else text}", {"case": small})
    if False and not facts["scenarioOwnsDicts"] and not any("sibling" in k or "manager-base" in k for k in first):
        chk.add_finding("shared-base-dict", "probe: a scenario without an own constants/points block carries the manager's base dictionary itself; configure_settings "
                        "({'constants': {'c0': 9.0}, 'points': {'p0': …}}) on one scenario of a manager with base_constants {'c0': 4.0}, base_points {'p0': …} changed a sibling, "
                        f"a later scenario or the manager's base values (dict registration ok: {facts['ownsDictsDetail'].get('dict')}, scenario files ok: {facts['ownsDictsDetail'].get('file')})",
                        {"probe": facts["ownsDictsDetail"], "theorem": "Bptk.C07.C07_witness_shared_base"})
    for key, (tc, text) in two_first.items():
        chk.add_finding(key, f"one project, scenarios/a.json = manager A {{s0: constants {tc['a']}}}, scenarios/b.json = manager B {{s0: constants {tc['b']}}}; a second bptk object "
                        f"from a project with scenarios/c.json: {text}", {"two_managers": tc})
    concrete = bool(first) or bool(two_first)
    for k in FACTS:
        if not facts[k] and not concrete:
            chk.add_finding("obligation", f"fact `{k}` could not be established by its behavioural probe ({facts['probe_errors'].get(k, 'probe outcome false')}), so the generated "
                            f"obligation is `¬ C07_full cfg` through {WITNESS[k]}; the reference search over all channels found no failing input",
                            {"theorem": f"Bptk.C07.Gen.violated / Bptk.C07.{WITNESS[k]}", "fact": k, "probe": facts["probe_errors"].get(k), "evalRows": facts.get("evalRows")}, found_input=False)
            concrete = None
            break
    if VIEW_ERRORS and not first and not two_first:
        chk.add_finding("correspondence", f"the state of scenario / model / manager objects could not be read the way the anchors name it ({VIEW_ERRORS[0]}; {len(VIEW_ERRORS)} reads); "
                        "all results agree with the directly built models", {"correspondence": "views (SimulationScenario / model / manager attributes) vs Drive/C07", "first_error": VIEW_ERRORS[0]}, found_input=False)
    chk.notes["view_only_differences"] = VIEW_ONLY[:5]
    if False and not facts["evalReadsCurrent"] and not any("results" in k for k in first):
        chk.add_finding("settings-after-evaluation", f"probe: evaluate, supply settings, evaluate — the second evaluation does not use the supplied value: rows (kind, demanded, used) = {facts['evalRows']}",
                        {"probe_rows": facts["evalRows"], "theorem": "Bptk.C07.C07_witness_derived_table"})
    if not ok:
        chk.add_finding("obligation", f"proof obligations of C07 no longer check: {why}", {"theorem": "Bptk.C07.Gen.holds", "detail": why}, found_input=False)
    if diff is not None and not first and not two_first:
        chk.add_finding("correspondence", f"model and implementation disagree on request {req[diff]!r}",
                        {"request": req[diff], "context": req[max(0, diff - 8):diff + 1], "model": model[diff] if diff < len(model) else None,
                         "impl": real[diff] if diff < len(real) else None}, found_input=False)
    elif diff is not None:
        chk.notes["correspondence_diff"] = {"request": req[diff], "model": model[diff] if diff < len(model) else None, "impl": str(real[diff]) if diff < len(real) else None}


def replay(path):
    quiet_bptk_logging()
    r = json.load(open(path))["replay"]
    def fix(o):
        if isinstance(o, list):
            return [fix(x) for x in o]
        if isinstance(o, dict):
            return {(int(k) if isinstance(k, str) and k.isdigit() else k): fix(v) for k, v in o.items()}
        return o
    if "two_managers" in r:
        tc = fix(r["two_managers"])
        root = scratch_dir("c07"); cwd = os.getcwd(); os.chdir(root)
        try:
            viols = two_managers(tc, root, 0)
        finally:
            os.chdir(cwd); shutil.rmtree(root, ignore_errors=True)
        print("two managers:", tc); print("violations on the current tree:", viols)
        return 1 if viols else 0
    if "case" not in r:
        print("no concrete input stored:", r); return 1
    case = fix(r["case"])
    case["files2"] = [tuple(x) for x in case.get("files2", [])]
    root = scratch_dir("c07"); cwd = os.getcwd(); os.chdir(root)
    try:
        v, viols, _ = check_case(case, root, 0)
    finally:
        os.chdir(cwd); shutil.rmtree(root, ignore_errors=True)
    print("case:", case); print("real view:", v); print("violations on the current tree:", viols)
    return 1 if viols else 0
