"""C07 — a scenario's settings determine its results exactly.

Probes (change_runspecs reaches model.starttime; run specs of a scenario file survive instantiate_model)
-> Gen obligations; correspondence of the Lean resolution/application model (Drive/C07) with the real code
over kind (constants / points / run specs) x channel (dict registration with base values, JSON files spread
over two files, session settings, REST /run settings) x model type (SD DSL, XMILE-sourced); reference
check: the real results must equal those of the model BUILT DIRECTLY with the effective values and
simulated from start to stop with dt.
"""
import json, os, sys, shutil, contextlib, io, textwrap
from common import *
from props import c06 as K

DEF_CONST, DEF_PTS, DEF_RS = K.DEF_CONST, K.DEF_PTS, K.DEF_RS
CONSTS, POINTS, EQS = K.CONSTS, K.POINTS, K.EQS

MODEL_SRC = textwrap.dedent('''
    from BPTK_Py import Model
    from BPTK_Py import sd_functions as sd

    class simulation_model(Model):
        def __init__(self):
            super().__init__(starttime=%(start)r, stoptime=%(stop)r, dt=%(dt)r, name="c07file")
            s = self.stock("s"); f = self.flow("f"); h = self.converter("h")
            g0 = self.converter("g0"); g1 = self.converter("g1")
            cs = [self.constant(n) for n in %(consts)r]
            pts = %(pts)r
            for n in pts:
                self.points[n] = pts[n]
            vals = %(vals)r
            for k in range(3):
                cs[k].equation = vals[k]
            g0.equation = sd.lookup(sd.time(), "p0")
            g1.equation = sd.lookup(sd.time(), "p1")
            f.equation = cs[0] + g0 * cs[1]
            h.equation = cs[2] * g1
            s.equation = f
            s.initial_value = 0.0
''')

XMILE_SRC = '''<?xml version="1.0" encoding="utf-8"?>
<xmile version="1.0" xmlns="http://docs.oasis-open.org/xmile/ns/XMILE/v1.0" xmlns:isee="http://iseesystems.com/XMILE">
	<header><name>c07</name><vendor>isee systems, inc.</vendor><product version="1.9.3" isee:build_number="1954" lang="en">Stella Architect</product></header>
	<sim_specs isee:sim_duration="1.5" method="Euler" time_units="Months">
		<start>0</start>
		<stop>4</stop>
		<dt>0.5</dt>
	</sim_specs>
	<model_units/>
	<model>
		<variables>
			<stock name="s"><eqn>0</eqn><inflow>f</inflow></stock>
			<flow name="f"><eqn>c0+g0*c1</eqn></flow>
			<aux name="c0"><eqn>11</eqn></aux>
			<aux name="c1"><eqn>12</eqn></aux>
			<aux name="c2"><eqn>13</eqn></aux>
			<aux name="g0"><eqn>TIME</eqn><gf><xscale min="0" max="10"/><yscale min="0" max="100"/><ypts>21,26</ypts></gf></aux>
			<aux name="h"><eqn>c2*g0</eqn></aux>
		</variables>
	</model>
</xmile>
'''


def view_of(sc):
    mod = sc.model
    return {"consts": {CONSTS.index(k): int(v) for k, v in sc.constants.items()},
            "pts": {POINTS.index(k): K.pts_code(v) for k, v in sc.points.items()},
            "rs": (int(sc.starttime), int(sc.stoptime), int(sc.dt * 2)),
            "meqs": {k: int(mod.equations[CONSTS[k]](0.0)) for k in range(3)},
            "mpts": {POINTS.index(k): K.pts_code(v) for k, v in mod.points.items() if k in POINTS},
            "mrs": (int(mod.starttime), int(mod.stoptime), int(mod.dt * 2))}


def fill(dst, src):
    out = dict(dst)
    for k, v in src.items():
        out.setdefault(k, v)
    return out


def expected(case):
    """reference semantics of the statement: scenario wins, base fills, later settings win; model's own otherwise"""
    bc, bp = dict(case["bc"]), dict(case["bp"])
    for f in case.get("files2", []):
        bc.update(f[0]); bp.update(f[1])
    d0, d = case["d0"], case.get("d") or {}
    consts = fill(d0.get("consts") or {}, bc); consts.update(d.get("consts") or {})
    pts = fill(d0.get("pts") or {}, bp); pts.update(d.get("pts") or {})
    rs = list(DEF_RS)
    for src in (d0, d):
        for j, key in enumerate(("start", "stop", "dt")):
            if src.get(key) is not None:
                rs[j] = src[key]
    return {"consts": consts, "pts": pts, "rs": tuple(rs), "meqs": {**DEF_CONST, **consts}, "mpts": {**DEF_PTS, **pts}, "mrs": tuple(rs)}


def model_line(case):
    mrs = "/".join(map(str, DEF_RS)); mpts = K.st(DEF_PTS)
    if case["channel"] == "dict":
        return f"dict {mrs} {mpts} {K.st(case['bc'])} {K.st(case['bp'])} {K.dict_args(case['d0'])}"
    if case["channel"] == "file":
        files = "|".join(f"{K.st(a)};{K.st(b)}" for a, b in [(case["bc"], case["bp"])] + case["files2"])
        return f"file {mrs} {mpts} {files} {K.dict_args(case['d0'])}"
    return f"settings {mrs} {mpts} {K.st(case['bc'])} {K.st(case['bp'])} {K.dict_args(case['d0'])} {K.dict_args(case['d'])}"


def parse_model(line):
    kv = dict(x.split("=", 1) for x in line.split(" "))
    def sd(x):
        return {} if x == "-" else {int(a.split(":")[0]): int(a.split(":")[1]) for a in x.split(",")}
    def rs(x):
        return tuple(int(a) for a in x.split("/"))
    return {"consts": sd(kv["consts"]), "pts": sd(kv["pts"]), "rs": rs(kv["rs"]), "meqs": {**DEF_CONST, **sd(kv["meqs"])},
            "mpts": sd(kv["mpts"]), "mrs": rs(kv["mrs"])}


def frame_to_dict(res, mgr, scn):
    r = ((res or {}).get(mgr, {}).get(scn, {}) or {}).get("equations", {})
    return {eq: {float(t): float(v) for t, v in r[eq].items()} for eq in r}


def write_file_case(root, n, case, xmile=False):
    sub = os.path.join(root, f"case{n}")
    os.makedirs(os.path.join(sub, "scenarios")); os.makedirs(os.path.join(sub, f"c07pkg{n}"))
    open(os.path.join(sub, f"c07pkg{n}", "__init__.py"), "w").close()
    if xmile:
        with open(os.path.join(sub, f"c07pkg{n}", "xm.stmx"), "w") as f:
            f.write(XMILE_SRC)
    else:
        with open(os.path.join(sub, f"c07pkg{n}", "mod.py"), "w") as f:
            f.write(MODEL_SRC % {"start": float(DEF_RS[0]), "stop": float(DEF_RS[1]), "dt": DEF_RS[2] / 2.0, "consts": CONSTS,
                                 "pts": {POINTS[k]: K.pts_val(v) for k, v in DEF_PTS.items()}, "vals": [float(DEF_CONST[k]) for k in range(3)]})
    def mgr(bc, bp, scns):
        m = {"model": f"c07pkg{n}/" + ("xm" if xmile else "mod"), "scenarios": scns}
        if xmile:
            m["source"] = f"c07pkg{n}/xm.stmx"
        if bc: m["base_constants"] = {CONSTS[a]: float(v) for a, v in bc.items()}
        if bp: m["base_points"] = {POINTS[a]: K.pts_val(v) for a, v in bp.items()}
        return {"mf": m}
    with open(os.path.join(sub, "scenarios", "a.json"), "w") as f:
        json.dump(mgr(case["bc"], case["bp"], {"s0": K.mk_dict(case["d0"])}), f)
    for j, (bc2, bp2) in enumerate(case["files2"]):
        with open(os.path.join(sub, "scenarios", f"b{j}.json"), "w") as f:
            json.dump(mgr(bc2, bp2, {f"t{j}": {}}), f)
    return sub


SIB = {}      # case number -> {"sib"/"late": (view, results)}: sibling scenarios of the same manager without overrides


def sibling_views(b, n):
    """'Base values apply to every scenario of the manager unless the scenario overrides them': a sibling
    registered before, and one registered after, settings were supplied to s0 must still run with the base values"""
    try:
        b.register_scenarios(scenarios={"late": {}}, scenario_manager="mf")
        b.reset_scenario_cache(scenario_manager="mf", scenario="sib")
        res = b.run_scenarios(scenarios=["sib", "late"], scenario_managers=["mf"], equations=list(EQS), series_names={}, return_format="dict")
        SIB[n] = {name: (view_of(b.get_scenario("mf", name)), frame_to_dict(res, "mf", name)) for name in ("sib", "late")}
    except Exception as e:
        SIB[n] = {"error": f"{type(e).__name__}: {e}"}


def run_case(case, root, n):
    """real code; returns (view, results dict eq -> {t: v}, error)"""
    from BPTK_Py import bptk
    buf = io.StringIO()
    with contextlib.redirect_stdout(buf):
        xm = case["model"] == "xmile"
        if case["channel"] == "file":
            sub = write_file_case(root, n, case, xmile=xm)
            cwd = os.getcwd(); os.chdir(sub); sys.path.insert(0, sub)
            b = None
            try:
                b = bptk(); quiet_bptk_logging()
                mg = b.scenario_manager_factory.scenario_managers.get("mf")
                sc = mg.scenarios.get("s0") if mg else None
                if sc is None or sc.model is None:
                    return None, None, "scenario not loaded: " + buf.getvalue()[-300:]
                res = b.run_scenarios(scenarios=["s0"], scenario_managers=["mf"], equations=list(EQS), series_names={}, return_format="dict")
                return (view_of(sc) if not xm else xm_view(sc)), frame_to_dict(res, "mf", "s0"), None
            finally:
                os.chdir(cwd); sys.path.remove(sub)
                if b is not None:
                    b.destroy()
        base = K.build(DEF_CONST, DEF_PTS, DEF_RS)
        b = bptk(); quiet_bptk_logging()
        try:
            cfg = {"model": base}
            if case["bc"]: cfg["base_constants"] = {CONSTS[a]: float(v) for a, v in case["bc"].items()}
            if case["bp"]: cfg["base_points"] = {POINTS[a]: K.pts_val(v) for a, v in case["bp"].items()}
            b.register_scenario_manager({"mf": cfg})
            b.register_scenarios(scenarios={"s0": K.mk_dict(case["d0"]), "sib": {}}, scenario_manager="mf")
            sc = b.get_scenario("mf", "s0")
            if case["channel"] == "dict":
                res = b.run_scenarios(scenarios=["s0"], scenario_managers=["mf"], equations=list(EQS), series_names={}, return_format="dict")
                out = view_of(sc), frame_to_dict(res, "mf", "s0"), None
                sibling_views(b, n)
                return out
            if case["channel"] == "rest":
                from BPTK_Py.server import BptkServer
                app = BptkServer(__name__, bptk_factory=lambda: b)
                resp = app.test_client().post("/run", json={"settings": {"mf": {"s0": K.mk_dict(case["d"])}}, "scenario_managers": ["mf"],
                                                            "scenarios": ["s0"], "equations": list(EQS)})
                if resp.status_code != 200:
                    return view_of(sc), {}, f"HTTP {resp.status_code}"
                out = view_of(sc), frame_to_dict(json.loads(resp.data), "mf", "s0"), None
                sibling_views(b, n)
                return out
            # session
            e = expected(case)
            b.begin_session(scenarios=["s0"], scenario_managers=["mf"], settings={"mf": {"s0": K.mk_dict(case["d"])}}, equations=list(EQS),
                            starttime=0.0, dt=e["rs"][2] / 2.0)
            out = {eq: {} for eq in EQS}
            for _ in range(40):
                r = b.run_step(settings={})
                if not r or "msg" in r:
                    break
                for eq, tv in (r.get("mf", {}).get("s0", {}) or {}).items():
                    for t, v in tv.items():
                        out.setdefault(eq, {})[float(t)] = float(v)
            v = view_of(sc)
            b.end_session()
            sibling_views(b, n)
            return v, out, None
        finally:
            b.destroy()


def xm_view(sc):
    mod = sc.model
    return {"consts": {CONSTS.index(k): int(v) for k, v in sc.constants.items()},
            "pts": {}, "rs": (int(sc.starttime), int(sc.stoptime), int(sc.dt * 2)),
            "meqs": {k: int(mod.equations[CONSTS[k]](0.0)) for k in range(3)}, "mpts": {}, "mrs": None}


def xm_oracle(consts):
    """explicit Euler of the XMILE model of XMILE_SRC with the given constants (plain Python, no BPTK)"""
    c = {**DEF_CONST, **consts}
    dt, out = 0.5, {"s": {}, "f": {}, "h": {}}
    def g0(t):
        x = min(max(t, 0.0), 10.0)
        return 21.0 + (26.0 - 21.0) * (x - 0.0) / 10.0
    s = 0.0
    for k in range(9):
        t = k * dt
        f = c[0] + g0(t) * c[1]
        out["s"][t] = s; out["f"][t] = float(f); out["h"][t] = float(c[2] * g0(t))
        s = s + dt * f
    return out


def rand_case(rng, channel, model):
    def store(n, lo=1, hi=9, p=2):
        return {k: rng.range(lo, hi) for k in rng.shuffle(range(n))[:rng.range(1, n)]} if rng.chance(1, p) else {}
    def dct(runspecs=True):
        d = {}
        c, p = store(3), store(2)
        if c: d["consts"] = c
        if p: d["pts"] = p
        if runspecs and rng.chance(2, 3):
            if rng.chance(1, 2): d["start"] = rng.range(0, 2)
            if rng.chance(1, 2): d["stop"] = rng.range(3, 6)
            if rng.chance(1, 2): d["dt"] = rng.choice([1, 2])
        return d
    case = {"channel": channel, "model": model, "bc": store(3), "bp": store(2), "d0": dct(), "files2": []}
    if channel in ("session", "rest"):
        case["d"] = dct()
    if channel == "file":
        # base values of the manager spread over further files, on keys not used by the first file (no duplicate base keys)
        rest_c = [k for k in range(3) if k not in case["bc"]]
        rest_p = [k for k in range(2) if k not in case["bp"]]
        case["files2"] = [({k: rng.range(1, 9) for k in rest_c if rng.chance(1, 2)}, {k: rng.range(1, 9) for k in rest_p if rng.chance(1, 2)})]
    if model == "xmile":
        case["bp"] = {}; case["d0"].pop("pts", None)
        for key in ("start", "stop", "dt"):
            case["d0"].pop(key, None)                      # run-spec clause is for DSL models
        case["files2"] = [(a, {}) for a, _ in case["files2"]]
    return case


FIXED = [
    {"channel": "dict", "model": "dsl", "bc": {}, "bp": {}, "d0": {}, "files2": []},                                   # no override
    {"channel": "dict", "model": "dsl", "bc": {}, "bp": {}, "d0": {"start": 1, "stop": 3, "dt": 1}, "files2": []},     # DESIGN §1 witness
    {"channel": "dict", "model": "dsl", "bc": {}, "bp": {}, "d0": {"pts": {0: 5}}, "files2": []},                      # one of two tables overridden
    {"channel": "dict", "model": "dsl", "bc": {0: 4}, "bp": {1: 6}, "d0": {"consts": {0: 7}}, "files2": []},
    {"channel": "file", "model": "dsl", "bc": {0: 4}, "bp": {}, "d0": {"consts": {1: 3}, "start": 1, "stop": 3, "dt": 1}, "files2": [({2: 8}, {0: 2})]},
    {"channel": "file", "model": "dsl", "bc": {}, "bp": {}, "d0": {}, "files2": [({}, {})]},
    {"channel": "session", "model": "dsl", "bc": {1: 2}, "bp": {}, "d0": {"consts": {0: 3}}, "d": {"consts": {0: 5}, "pts": {1: 4}, "start": 1, "stop": 3}, "files2": []},
    {"channel": "rest", "model": "dsl", "bc": {}, "bp": {0: 3}, "d0": {}, "d": {"consts": {2: 9}, "pts": {0: 8}, "start": 1, "dt": 1}, "files2": []},
    {"channel": "file", "model": "xmile", "bc": {0: 4}, "bp": {}, "d0": {"consts": {1: 3}}, "files2": [({2: 8}, {})]},
    {"channel": "file", "model": "xmile", "bc": {}, "bp": {}, "d0": {}, "files2": [({}, {})]},
]


def probe(root):
    from BPTK_Py.sdsimulation import SdSimulation
    facts = {}
    m = K.build(DEF_CONST, DEF_PTS, DEF_RS)
    SdSimulation(model=m, name="probe").change_runspecs(starttime=1.0, stoptime=3.0, dt=0.5)
    facts["runspecStartApplied"] = (m.starttime == 1.0)
    case = {"channel": "file", "model": "dsl", "bc": {}, "bp": {}, "d0": {"start": 1, "stop": 3, "dt": 1}, "files2": []}
    v, _, err = run_case(case, root, 9999)
    facts["fileRunspecsKept"] = bool(v) and v["rs"] == (1, 3, 1)
    return facts


def gen_lean(f):
    a = "true" if f["runspecStartApplied"] else "false"
    b = "true" if f["fileRunspecsKept"] else "false"
    if f["runspecStartApplied"] and f["fileRunspecsKept"]:
        body = "theorem holds : C07_full cfg := C07_full_of_good cfg (by decide)\n#print axioms holds\n"
    elif not f["runspecStartApplied"]:
        body = "theorem violated : ¬ C07_full cfg := C07_witness_start cfg (by decide)\n#print axioms violated\n"
    else:
        body = "theorem violated : ¬ C07_full cfg := C07_witness_file cfg (by decide)\n#print axioms violated\n"
    return ("import Bptk.Props.C07\n/-! GENERATED by harness/props/c07.py from /repo on every run — do not edit. -/\n"
            "namespace Bptk.C07.Gen\n"
            f"def cfg : Cfg := {{ runspecStartApplied := {a}, fileRunspecsKept := {b} }}\n" + body + "end Bptk.C07.Gen\n")


def check_case(case, root, n):
    """returns (real view, violations [(key, text)])"""
    exp = expected(case)
    try:
        v, res, err = run_case(case, root, n)
    except Exception as e:
        return None, [(f"{case['channel']}-raises", f"{type(e).__name__}: {e}")]
    if err:
        return v, [(f"{case['channel']}-error", err)]
    viols = []
    if case["model"] == "xmile":
        for comp in ("consts", "meqs"):
            if v[comp] != exp[comp]:
                viols.append((f"{case['channel']}-xmile-{comp}", f"{comp}: real {v[comp]} expected {exp[comp]}"))
        want = xm_oracle(exp["consts"])
        if res != want and not viols:
            viols.append((f"{case['channel']}-xmile-results", K.first_diff(res, want)))
        return v, viols
    for comp in ("consts", "pts", "rs", "meqs", "mpts", "mrs"):
        if v[comp] != exp[comp]:
            viols.append((f"{case['channel']}-{comp}", f"{comp}: real {v[comp]} expected {exp[comp]}"))
            break
    want = K.oracle_run(exp["meqs"], exp["mpts"], exp["mrs"])
    if case["channel"] == "session":
        want = {eq: {t: x for t, x in tv.items() if t >= 0.0} for eq, tv in want.items()}
    if res != want:
        viols.append((f"{case['channel']}-results", K.first_diff(res, want) + f"; model built directly with consts={exp['meqs']} points={exp['mpts']} runspecs={exp['mrs']}"))
    sib = SIB.pop(n, None)
    if sib is not None and not viols:
        bexp = expected({"bc": case["bc"], "bp": case["bp"], "d0": {}, "d": {}, "files2": []})
        bwant = K.oracle_run(bexp["meqs"], bexp["mpts"], bexp["mrs"])
        if "error" in sib:
            viols.append((f"{case['channel']}-sibling-raises", sib["error"]))
        else:
            for name in ("sib", "late"):
                sv, sres = sib[name]
                for comp in ("consts", "pts", "meqs", "mpts"):
                    if sv[comp] != bexp[comp]:
                        viols.append((f"{case['channel']}-sibling-{comp}", f"scenario '{name}' (no overrides, {'registered before' if name == 'sib' else 'registered after'} the settings for s0) {comp}: real {sv[comp]} expected the base values {bexp[comp]}"))
                        break
                else:
                    if sres != bwant:
                        viols.append((f"{case['channel']}-sibling-results", f"scenario '{name}': " + K.first_diff(sres, bwant)))
                if viols:
                    break
    return v, viols


def run(chk):
    quiet_bptk_logging()
    root = scratch_dir("c07")
    cwd = os.getcwd()
    try:
        os.chdir(root)
        _run(chk, root)
    finally:
        os.chdir(cwd)
        shutil.rmtree(root, ignore_errors=True)


def _run(chk, root):
    facts = probe(root)
    chk.notes["cfg"] = facts
    ok, why = chk.prove(gen_lean(facts))
    chk.cov["trusted_base"] = [
        "Lean 4.33 kernel; axioms propext, Quot.sound (audited per run via #print axioms)",
        "hand-written model lean/Bptk/Core/C07.lean of add_scenarios / load_scenarios + __get_all_base_constants/points / configure_settings / REST settings block / SdRunner application; tied to the code by two probes and the correspondence run",
        "the simulated numbers are not modelled in Lean: the harness compares the real results with the model built directly with the effective values (DSL) / a plain-Python Euler loop (XMILE model)",
        "json round trip of scenario files, Flask test client for POST /run",
    ]
    chk.assumptions = ["base values of one manager spread over several files use distinct keys (the code documents duplicates as lossy)",
                       "run-spec clauses only for SD DSL models; XMILE-sourced models: constants (file channel with base constants over two files)",
                       "session channel: begin_session is given the scenario's dt (that the session takes its dt from an argument is C09's subject)"]
    rng = chk.rng.fork("c07")
    cases = [dict(c) for c in FIXED]
    per = 25 if chk.quick else 150
    for ch in ("dict", "file", "session", "rest"):
        for _ in range(per if ch != "file" else max(3, per // 2)):
            cases.append(rand_case(rng, ch, "dsl"))
    for _ in range(6 if chk.quick else 30):
        cases.append(rand_case(rng, "file", "xmile"))
    chk.cov["rule"] = ("fixed cases (no override, the run-spec witnesses, one-of-two point tables, multi-file base constants, XMILE) + seeded random cases per channel "
                       "(dict / file over two JSON files / session / REST) with random constants, points, run specs at manager and scenario level; a case = (channel, model type, "
                       "base constants, base points, scenario dictionary, later settings); non-trivial = at least one override")
    req, real, first, dist = [f"cfg {1 if facts['runspecStartApplied'] else 0} {1 if facts['fileRunspecsKept'] else 0}"], ["ok"], {}, {}
    for n, case in enumerate(cases):
        v, viols = check_case(case, root, n)
        dist[f"{case['channel']}/{case['model']}"] = dist.get(f"{case['channel']}/{case['model']}", 0) + 1
        chk.case(json.dumps(case, sort_keys=True), nontrivial=bool(case["bc"] or case["bp"] or case["d0"] or case.get("d")),
                 sample=case if n % 9 == 0 else None)
        if case["model"] == "dsl" and v is not None:
            req.append(model_line(case)); real.append(v)
        for key, text in viols:
            first.setdefault(key, (case, text))
    chk.cov["case_distribution"] = dist
    chk.cov["traces_validated_against_impl"] = len(req) - 1
    model = drive("C07", req)
    diff = next((i for i, (a, b) in enumerate(zip(model, real)) if (a != b if isinstance(b, str) else parse_model(a) != b)), None)
    for key, (case, text) in first.items():
        chk.add_finding(key, f"{case['channel']} channel, {case['model']} model, base_constants={case['bc']} base_points={case['bp']} scenario={case['d0']} "
                        f"settings={case.get('d')} files2={case['files2']}: {text}", {"case": case})
    if not ok:
        chk.add_finding("obligation", f"proof obligations of C07 no longer check: {why}", {"theorem": "Bptk.C07.Gen.holds", "detail": why}, found_input=False)
    if diff is not None and not first:
        chk.add_finding("correspondence", f"model and implementation disagree on request {req[diff]!r}",
                        {"request": req[diff], "model": model[diff], "impl": real[diff]}, found_input=False)
    elif diff is not None:
        chk.notes["correspondence_diff"] = {"request": req[diff], "model": model[diff], "impl": str(real[diff])}


def replay(path):
    quiet_bptk_logging()
    r = json.load(open(path))["replay"]
    def fix(o):
        if isinstance(o, list):
            return [fix(x) for x in o]
        if isinstance(o, dict):
            return {(int(k) if isinstance(k, str) and k.isdigit() else k): fix(v) for k, v in o.items()}
        return o
    case = fix(r["case"])
    case["files2"] = [tuple(x) for x in case.get("files2", [])]
    root = scratch_dir("c07"); cwd = os.getcwd(); os.chdir(root)
    try:
        v, viols = check_case(case, root, 0)
    finally:
        os.chdir(cwd); shutil.rmtree(root, ignore_errors=True)
    print("case:", case); print("real view:", v); print("violations on the current tree:", viols)
    return 1 if viols else 0
