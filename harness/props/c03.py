"""C03 — the XMILE transpiler preserves the meaning of every supported equation.

translate : probe `parseExpression` with placeholder operands -> operator templates, `()`/`not` templates,
            builtin templates (A1 Tmpl), identifier rendering, unknown-builtin behaviour
            -> lean/Bptk/Gen/C03Cfg.lean; obligations `good cfg xmilePrec`, `shapesOK cfg` by `decide +kernel`
            (or, on a defective tree, the kernel-checked witnesses).
correspond: generated XMILE documents (equation-grammar fuzzer with spelling variants) compiled by the real
            compiler; per equation the Lean driver validates the translation (reference reading of the source
            tokens, IR kept the tokens, model text = real text, text parses to the image of the reading);
            CPython's own parse of the real text is compared with the model's tree.
reference : every variable of every compiled model is evaluated and compared with an independent XMILE
            evaluator (own tokenizer, own precedence climbing, float arithmetic); unsupported equations must raise.
wave 2    : signed literals are one IR node (`nnum`) in the model; systematic signed-literal equations; per equation the driver
            also reports `irok` / `vflat` (token comparison alone validates, theorem `validate_of_flat`); delay/smooth helper
            family (DELAY1/3/N, SMTH3/N, DELAY, DERIVN, NPV) against grid definitions, Cfg fact `helperKeysNormalise`; corpus.
"""
import copy, importlib.util, json, logging, math, re
import numpy as np
from common import *
import pyfrag

XOPS = [("or", ".or"), ("and", ".and"), ("<", ".lt"), ("<=", ".le"), (">", ".gt"), (">=", ".ge"), ("=", ".eq"),
        ("<>", ".ne"), ("+", ".add"), ("-", ".sub"), ("*", ".mul"), ("/", ".div"), ("mod", ".mod"), ("^", ".pow")]
VOCAB = [("()", 1), ("if", 3), ("abs", 1), ("min", 2), ("max", 2), ("min", 3), ("max", 3), ("sqrt", 1), ("exp", 1),
         ("ln", 1), ("log10", 1), ("int", 1), ("round", 1), ("sin", 1), ("cos", 1), ("tan", 1), ("arcsin", 1),
         ("arccos", 1), ("arctan", 1), ("safediv", 2), ("safediv", 3), ("step", 2), ("ramp", 2), ("percent", 1),
         ("rootn", 2), ("pi", 0), ("time", 0), ("dt", 0), ("starttime", 0), ("stoptime", 0), ("init", 1)]
# further builtins that format operands into infix text (outside the C03 vocabulary; obligation `extended_ok`)
EXTENDED = [("sinwave", 2, None), ("coswave", 2, None), ("cgrowth", 1, None), ("pulse", 1, None), ("pulse", 2, None),
            ("pulse", 3, [None, None, 2.0]), ("pmt", 4, [None, None, None, 0.0]), ("pv", 4, [None, None, None, 0.0]),
            # delay / smooth family: operands must sit in call-argument positions of the helper call
            ("delay1", 2, None), ("delay1", 3, None), ("delay3", 2, None), ("delay3", 3, None), ("delayn", 3, None), ("delayn", 4, None),
            ("smth3", 2, None), ("smth3", 3, None), ("smthn", 3, None), ("smthn", 4, None), ("npv", 2, None), ("derivn", 2, None),
            ("forcst", 3, None), ("forcst", 4, None), ("delay", 3, None)]


def ph(i):
    return {"type": "label", "name": f"__h{i}__"}


def gen_mod():
    import sys
    importlib.import_module("BPTK_Py.sdcompiler.generator.py.py")
    return sys.modules["BPTK_Py.sdcompiler.generator.py.py"]


# ------------------------------------------------------------------ probe
def probe():
    G = gen_mod()
    logging.disable(logging.CRITICAL)
    facts = {"ops": {}, "fns": [], "extended": [], "problems": []}

    def slex(key, node):
        """text of a node as wire words; text outside the A1 fragment becomes a marker that no obligation accepts"""
        try:
            return pyfrag.lex(str(G.parseExpression(node)))
        except Exception as ex:
            facts["problems"].append((key, f"{type(ex).__name__}: {str(ex)[:100]}"))
            return ["IUNSUPPORTED_TEXT"]
    try:
        for sym, _ in XOPS:
            facts["ops"][sym] = slex("op" + sym, {"type": "operator", "name": sym, "args": [ph(0), ph(1)]})
        facts["not"] = slex("not", {"type": "operator", "name": "not", "args": [ph(0)]})
        for f, n in VOCAB:
            try:
                if f == "()":
                    text = G.parseExpression({"type": "operator", "name": "()", "args": [ph(0)]})
                else:
                    text = G.parseExpression({"type": "call", "name": f, "args": [ph(i) for i in range(n)]})
                facts["fns"].append((f, n, pyfrag.lex(str(text))))
            except Exception as ex:
                facts["problems"].append((f"{f}/{n}", f"{type(ex).__name__}: {str(ex)[:100]}"))
        for f, n, fixed in EXTENDED:
            try:
                args = [ph(i) if (fixed is None or fixed[i] is None) else fixed[i] for i in range(n)]
                facts["extended"].append((f, n, pyfrag.lex(str(G.parseExpression({"type": "call", "name": f, "args": args})))))
            except Exception as ex:
                facts["problems"].append((f"{f}/{n}", f"{type(ex).__name__}: {str(ex)[:100]}"))
        facts["ident"] = slex("ident", {"type": "identifier", "name": "probe"})
        full = slex("identInit", {"type": "call", "name": "init", "args": [{"type": "identifier", "name": "probe"}]})
        tm = next((w for f, n, w in facts["fns"] if (f, n) == ("init", 1)), ["H0"])
        k = tm.index("H0") if "H0" in tm else 0
        facts["identInit"] = full[k:len(full) - (len(tm) - k - 1)]
        try:
            r = G.parseExpression({"type": "call", "name": "foo", "args": [{"type": "identifier", "name": "a"}]})
            facts["unknownBuiltinRaises"] = False
            facts["unknown_result"] = str(r)
        except Exception as ex:
            facts["unknownBuiltinRaises"] = True
            facts["unknown_result"] = f"{type(ex).__name__}: {ex}"
        facts["helperKeysNormalise"], facts["helper_probe"] = probe_helper_keys()
        # wave 5: how a signed numeric literal (one IR node) is printed, alone and in base position of `^`
        try:
            facts["negLit"] = pyfrag.lex(str(G.parseExpression(-2.0)))
            facts["negLitPow"] = pyfrag.lex(str(G.parseExpression({"type": "operator", "name": "^", "args": [-2.0, 2.0]})))
        except Exception as ex:
            facts["problems"].append(("negLit", f"{type(ex).__name__}: {str(ex)[:100]}"))
            facts["negLit"] = facts["negLitPow"] = ["IUNSUPPORTED_TEXT"]
    finally:
        logging.disable(logging.NOTSET)
    return facts


def probe_helper_keys():
    """behavioural probe of the mechanism `mem` of the delay/smooth helper normalises its time argument: DELAY1 of a ramp
    with dt = 0.1 on a fresh instance at t = 0.4 — four steps when the keys are snapped onto the grid, five with raw floats"""
    d = scratch_dir("bptkverif_c03p_")
    try:
        xml = delay_doc_xml([("inp", "TIME"), ("y", "DELAY1(inp, 2)")], 0, 2, "0.1", False)
        ir, sim, _ = real_compile(xml, d, "hk")
        got = sim.equation("y", 0.4)
        exp = ref_cascade(lambda t, s: t, 2.0, 1, None, 0.0, 0.1, 4)[4]
        return same_val_tol(got, exp), f"DELAY1(TIME, 2), dt 0.1, t 0.4: {got!r} (grid definition {exp!r})"
    except BaseException as ex:
        return False, f"probe failed: {type(ex).__name__}: {str(ex)[:120]}"
    finally:
        shutil.rmtree(d, ignore_errors=True)


def lean_toks(words):
    return "[" + ", ".join(pyfrag.lean_tok(w) for w in words) + "]"


def cfg_lean(facts):
    rows = "\n".join(f"  | {lk} => {lean_toks(facts['ops'][sym])}" for sym, lk in XOPS)
    return ("import Bptk.Core.C03\n/-! GENERATED from /repo by harness/props/c03.py on every run — do not edit. -/\n"
            + pyfrag.lean_table("fns", facts["fns"], "Bptk.C03.Gen") + pyfrag.lean_table("extended", facts["extended"], "Bptk.C03.Gen")
            + "namespace Bptk.C03.Gen\nopen Bptk.Py Bptk.C03\n"
            + f"def opT : XOp → List Tok\n{rows}\n"
            + "def cfg : Cfg := {\n  opT := opT,\n"
            + f"  notT := {{ cls := \"not\", arity := 1, toks := {lean_toks(facts['not'])} }},\n"
            + f"  fns := fns,\n  identT := {lean_toks(facts['ident'])},\n  identInitT := {lean_toks(facts['identInit'])},\n"
            + f"  unknownBuiltinRaises := {'true' if facts['unknownBuiltinRaises'] else 'false'},\n"
            + f"  helperKeysNormalise := {'true' if facts['helperKeysNormalise'] else 'false'} }}\n"
            + "end Bptk.C03.Gen\n")


# ------------------------------------------------------------------ XMILE source: independent tokenizer + reference parser
TOKRE = re.compile(r'\s*(?:(?P<num>\d+\.\d*|\.\d+|\d+)|(?P<q>"[^"]*")|(?P<name>\.?[A-Za-z_][A-Za-z_0-9]*(?:\.[A-Za-z_][A-Za-z_0-9]*)?)|(?P<op><>|<=|>=|[-+*/^=<>(),]))')
SPECIALS = {"TIME", "DT", "STARTTIME", "STOPTIME", "PI"}
BP = {"or": 1, "and": 2, "=": 3, "<>": 3, "<": 4, "<=": 4, ">": 4, ">=": 4, "+": 5, "-": 5, "*": 6, "/": 6, "mod": 6, "^": 8}
CMPS = {"=", "<>", "<", "<=", ">", ">="}


class Unsupp(Exception):
    """the reference reading does not exist: the equation is outside the supported grammar"""


def xcanon(name):
    """XMILE identifier equivalence: case-insensitive, blanks/underscores/newlines equivalent, quotes delimit"""
    s = name.strip('"').lower().replace("\\n", "_").replace("\n", "_").replace(" ", "_")
    return re.sub(r"_+", "_", s)

# ------------------------------------------------------------------ wave 6: documents with modules (named <model>s)
# An unqualified name in an equation means the variable of the model that CONTAINS the equation; `Model.name` is qualified.
MODULE_NAMES = ["Plant A", "Unit two", "Sector 3", "north", "Sub Model"]
MODULE_TEXTS = ["rate * 2", "IF rate > 4 THEN rate + base_level ELSE base_level - rate", "SQRT(rate + base_level)", "rate ^ 2 - base_level",
                "MAX(rate, base_level / 50)", "-rate + (base_level)", "base_level / rate mod 7", "MIN(rate, 4) * (base_level - rate)"]
PRIMES = [3, 5, 7, 11, 13, 17, 19, 23]


def respell(rng, text):
    """the same equation with other blanks / redundant parentheses (a different text, the same tokens up to parentheses)"""
    r = rng.below(3)
    if r == 0:
        return re.sub(r"\s*([*/+^])\s*", r"\1", text)
    if r == 1:
        return re.sub(r"\brate\b", "(rate)", text, count=1)
    return "  " + text.replace(" ", "  ") + " "


def make_module_doc(rng):
    """[(model name ('' = root), [(variable, equation)])], spec: 2-3 equation texts REPEATED verbatim in every model, re-spelled controls,
    second-level repeats, qualified references root -> module, module -> other module, module -> itself"""
    k = rng.range(1, 3)
    names = rng.shuffle(MODULE_NAMES)[:k]
    texts = rng.shuffle(MODULE_TEXTS)[:rng.range(2, 3)]
    models = []
    for mi, mname in enumerate([""] + names):
        eqs = [("rate", str(PRIMES[mi])), ("Base Level" if mi % 2 else "base_level", str(100 * (mi + 1)))]
        for ti, tx in enumerate(texts):
            eqs.append((f"out {ti}", tx))
            eqs.append((f"ctl {ti}", respell(rng, tx)))
        eqs.append(("twice", "out_0 + out_0 * rate"))
        eqs.append(("again", texts[0]))                         # the same text twice inside one model as well
        if mi > 0:
            other = names[(mi) % len(names)]                   # another module (or itself when there is one)
            q = other.replace(" ", "_")
            eqs.append(("cross", f"{q}.rate + rate"))
            eqs.append(("own", f"{mname.replace(' ', '_').upper()}.out_0 - out_0 + Base_Level"))
            eqs.append(("from root", ".rate * 2 + rate - .Base_Level"))   # wave 7: a leading period addresses the ROOT model
        models.append((mname, eqs))
    root = models[0][1]
    root.append(("total", " + ".join(f"{n.replace(' ', '_')}.out_0" for n in names) + " + out_0"))
    root.append(("pick", f"{names[0].replace(' ', '_')}.twice - {names[-1].replace(' ', '_')}.ctl_1 + rate"))
    root.append(("dotted", ".rate + rate"))
    return models, (0.0, 4.0, 1.0, "1")


def module_doc_xml(models, spec):
    parts = [f'<?xml version="1.0" encoding="utf-8"?>\n<xmile version="1.0" xmlns="http://docs.oasis-open.org/xmile/ns/XMILE/v1.0">\n'
             f'\t<header>\n\t\t<name>c03mod</name>\n\t\t<vendor>verif</vendor>\n\t</header>\n'
             f'\t<sim_specs method="Euler" time_units="Months">\n\t\t<start>{int(spec[0])}</start>\n\t\t<stop>{int(spec[1])}</stop>\n\t\t<dt>{spec[3]}</dt>\n\t</sim_specs>']
    for mi, (mname, eqs) in enumerate(models):
        parts.append('\t<model>' if mname == "" else f'\t<model name="{xml_escape(mname)}">')
        parts.append('\t\t<variables>')
        if mname == "":
            parts += [f'\t\t\t<module name="{xml_escape(n)}"/>' for n, _ in models if n != ""]
        parts += [f'\t\t\t<aux name="{xml_escape(n)}">\n\t\t\t\t<eqn>{xml_escape(e)}</eqn>\n\t\t\t</aux>' for n, e in eqs]
        parts.append('\t\t</variables>\n\t</model>')
    parts.append('</xmile>\n')
    return "\n".join(parts)


def module_tables(models, san):
    """python name of every variable and, per model, the resolution table canonical XMILE spelling -> python name
    (unqualified names: the model's own variables; qualified names: every model's variables)"""
    py = {}
    for mname, eqs in models:
        pm = san(mname) if mname else ""
        for n, _ in eqs:
            py[(mname, n)] = (pm + "." if pm else "") + san(n)
    qualified = {xcanon(mname) + "." + xcanon(n): pn for (mname, n), pn in py.items() if mname}
    qualified.update({"." + xcanon(n): pn for (mname, n), pn in py.items() if not mname})
    res = {}
    for mname, eqs in models:
        r = dict(qualified)
        r.update({xcanon(n): py[(mname, n)] for n, _ in eqs})
        res[mname] = r
    return py, res


def eval_modules(models, spec, want=None):
    """compile a module document with the real compiler and compare every variable (or only `want` = python name) with the
    reference; returns the first failure as a replay dict or None"""
    from BPTK_Py.sdcompiler.plugins import sanitizeName
    d = scratch_dir("bptkverif_c03m_")
    try:
        py, res = module_tables(models, lambda n: sanitizeName("." + n.lower()))
        try:
            ir, sim, pysrc = real_compile(module_doc_xml(models, spec), d, "m")
        except BaseException as ex:
            return None
        env = {}
        for mname, eqs in models:
            for n, eq in eqs:
                try:
                    env[py[(mname, n)]] = ref_parse(xlex(eq, res[mname]))
                except Unsupp:
                    return None
        for mname, eqs in models:
            for n, eq in eqs:
                pn = py[(mname, n)]
                if want is not None and pn != want:
                    continue
                for t in [spec[0], spec[0] + spec[2], spec[1]]:
                    try:
                        exp = ref_eval(env[pn], t, env, spec[:3])
                    except (Domain, Unsupp):
                        continue
                    try:
                        got = sim.equation(pn, t)
                    except BaseException as ex:
                        got = ex
                    if isinstance(got, BaseException) or not same_val(got, exp):
                        m = re.search(r"'%s'\s*: lambda t: (.*),\n" % re.escape(pn), pysrc)
                        return {"kind": "modules", "models": [[mn, [list(x) for x in es]] for mn, es in models], "spec": list(spec), "variable": pn,
                                "raised": isinstance(got, BaseException), "model": mname, "equation": eq, "t": t, "observed": repr(got), "expected": repr(exp), "python": m.group(1) if m else None}
        return None
    finally:
        shutil.rmtree(d, ignore_errors=True)


def shrink_modules(models, spec, want):
    """drop variables and whole models while the same variable keeps failing"""
    cur = eval_modules(models, spec, want)
    if cur is None:
        return None
    models = [(mn, list(es)) for mn, es in models]
    changed = True
    while changed:
        changed = False
        for mi in range(len(models) - 1, -1, -1):
            if models[mi][0] != "" :
                trial = models[:mi] + models[mi + 1:]
                r = eval_modules(trial, spec, want)
                if r is not None and r["raised"] == cur["raised"]:
                    models, cur, changed = trial, r, True
                    continue
            for vi in range(len(models[mi][1]) - 1, -1, -1):
                trial = [(mn, [e for j, e in enumerate(es) if not (i == mi and j == vi)]) for i, (mn, es) in enumerate(models)]
                r = eval_modules(trial, spec, want)
                if r is not None and r["raised"] == cur["raised"]:
                    models, cur, changed = trial, r, True
    return cur


ROOT_REF_PROBE = []


def probe_tree_ownership():
    """mechanism probe: after parse_xmile, do two equations hold the SAME tree object?  Document: root + two modules, the text
    `rate * 2` in each.  Returns (rows [(sanitized model, cell id, identifier names seen)], text)"""
    from BPTK_Py.sdcompiler.parsers.xmile.xmile import parse_xmile
    from BPTK_Py.sdcompiler.plugins import sanitizeName
    d = scratch_dir("bptkverif_c03o_")
    try:
        models = [("", [("rate", "3"), ("out", "rate * 2"), ("again", "rate * 2")]), ("Plant A", [("rate", "5"), ("out", "rate * 2"), ("rr", ".rate + rate")]),
                  ("Plant B", [("rate", "7"), ("out", "rate * 2")])]
        src = os.path.join(d, "o.xmile")
        with open(src, "w") as f:
            f.write(module_doc_xml(models, (0.0, 4.0, 1.0, "1")))
        IR = parse_xmile(src)
        rows, cells = [], {}
        for mname, model in IR["models"].items():
            for ents in model["entities"].values():
                for e in ents:
                    if e["equation"] == [".rate + rate"]:
                        node = e["equation_parsed"][0]
                        ROOT_REF_PROBE[:] = [a.get("name") if isinstance(a, dict) else repr(a) for a in node.get("args", [])]
                    if e["equation"] != ["rate * 2"]:
                        continue
                    node = e["equation_parsed"][0]
                    ident = node["args"][0] if isinstance(node, dict) and node.get("args") else node
                    cell = cells.setdefault(id(ident), len(cells))
                    rows.append((sanitizeName(mname) if mname else "", cell, ident.get("name") if isinstance(ident, dict) else repr(ident)))
        return rows
    finally:
        shutil.rmtree(d, ignore_errors=True)




def xlex(src, resolve):
    """source text -> list of (kind, value); resolve: canonical XMILE name -> python identifier expected"""
    out, i = [], 0
    src = src.rstrip()
    while i < len(src):
        m = TOKRE.match(src, i)
        if not m or m.end() == i:
            raise Unsupp(f"lex at {src[i:i+10]!r}")
        i = m.end()
        if m.group("num") is not None:
            out.append(("num", repr(float(m.group("num")))))
        elif m.group("q") is not None:
            cn = xcanon(m.group("q"))
            if cn not in resolve or " " in m.group("q"):
                raise Unsupp(f"name {m.group('q')}")
            out.append(("id", resolve[cn]))
        elif m.group("name") is not None:
            w = m.group("name")
            u = w.upper()
            nxt = src[i:i + 1]
            if u in ("IF", "THEN", "ELSE"):
                out.append(("k" + u.lower(), None))
            elif u in ("AND", "OR", "MOD"):
                out.append(("op", u.lower()))
            elif u == "NOT" and nxt == "(":
                out.append(("knot", None))
            elif nxt == "(":
                out.append(("fn", w.lower()))
            elif u in SPECIALS:
                out.append(("fn0", w.lower()))
            else:
                cn = xcanon(w)
                if cn not in resolve:
                    raise Unsupp(f"unknown variable {w}")
                out.append(("id", resolve[cn]))
        else:
            o = m.group("op")
            out.append(("lp" if o == "(" else "rp" if o == ")" else "comma" if o == "," else "op", o))
    return out


def xwords(toks):
    w = []
    for k, v in toks:
        w.append({"num": lambda: "N" + v, "id": lambda: "I" + v, "fn": lambda: "F" + v, "fn0": lambda: "F" + v,
                  "op": lambda: "O" + v, "lp": lambda: "(", "rp": lambda: ")", "comma": lambda: ",", "knot": lambda: "Knot",
                  "kif": lambda: "Kif", "kthen": lambda: "Kthen", "kelse": lambda: "Kelse"}[k]())
    return w


class RefParser:
    """precedence climbing with the XMILE table (own code, independent of the PEG and of the Lean parser)"""
    def __init__(self, toks):
        self.t, self.i = toks, 0
    def peek(self):
        return self.t[self.i] if self.i < len(self.t) else ("eof", None)
    def take(self, kind=None):
        k = self.peek()
        if kind is not None and k[0] != kind:
            raise Unsupp(f"expected {kind} got {k}")
        self.i += 1
        return k
    def level(self, e):
        if e[0] == "bin": return BP[e[1]]
        if e[0] == "neg": return 7
        if e[0] == "if": return 0
        return 100
    def expr(self, m):
        left = self.prefix(m)
        while True:
            k, v = self.peek()
            if k != "op" or BP[v] < m:
                return left
            bp = BP[v]
            if v in CMPS:
                ldem, rdem = 5, 5
            elif v == "^":
                ldem, rdem = 100, 7
            else:
                ldem, rdem = bp, bp + 1
            if self.level(left) < ldem:
                raise Unsupp(f"operand of {v} binds too loosely (chained comparison / unparenthesised condition)")
            self.take()
            right = self.expr(rdem)
            if self.level(right) < rdem:
                raise Unsupp(f"right operand of {v}")
            left = ("bin", v, left, right)
    def prefix(self, m):
        k, v = self.peek()
        if k == "op" and v == "-":
            if m > 7: raise Unsupp("unary minus here")
            self.take()
            e = self.expr(7)
            return ("neg", e)
        if k == "num":
            self.take(); return ("num", v)
        if k == "id":
            self.take(); return ("id", v)
        if k == "lp":
            self.take(); e = self.expr(0); self.take("rp"); return ("paren", e)
        if k == "knot":
            self.take(); self.take("lp"); e = self.expr(0); self.take("rp")
            if self.level(e) < 3: raise Unsupp("NOT of AND/OR")
            return ("not", e)
        if k == "kif":
            if m != 0: raise Unsupp("IF as an operand")
            self.take(); c = self.expr(0); self.take("kthen"); a = self.expr(0); self.take("kelse"); b = self.expr(0)
            return ("if", c, a, b)
        if k == "fn0":
            self.take(); return ("call", v, [])
        if k == "fn":
            self.take(); self.take("lp")
            args = [self.expr(0)]
            while self.peek()[0] == "comma":
                self.take(); args.append(self.expr(0))
            self.take("rp")
            return ("call", v, args)
        raise Unsupp(f"unexpected {k} {v}")


def ref_parse(toks):
    p = RefParser(toks)
    e = p.expr(0)
    if p.peek()[0] != "eof":
        raise Unsupp(f"trailing {p.peek()}")
    return e


def ref_sexp(e):
    k = e[0]
    if k == "num": return f"(num {e[1]})"
    if k == "id": return f"(id {e[1]})"
    if k == "paren": return ref_sexp(e[1])
    if k == "neg": return f"(neg {ref_sexp(e[1])})"
    if k == "not": return f"(not {ref_sexp(e[1])})"
    if k == "bin": return f"({e[1]} {ref_sexp(e[2])} {ref_sexp(e[3])})"
    if k == "if": return f"(if {ref_sexp(e[1])} {ref_sexp(e[2])} {ref_sexp(e[3])})"
    return "(call " + e[1] + "".join(" " + ref_sexp(a) for a in e[2]) + ")"


class Domain(Exception):
    pass


def ref_eval(e, t, env, spec, depth=0):
    """reference value; a non-finite result (overflow to inf, nan) is outside the value oracle's domain like any other undefined
    value: IEEE non-finite arithmetic is not the property's subject"""
    v = _ref_eval(e, t, env, spec, depth)
    if depth == 0 and isinstance(v, float) and not math.isfinite(v):
        raise Domain("non-finite")
    return v


def _ref_eval(e, t, env, spec, depth=0):
    """XMILE semantics in float arithmetic. env: python identifier -> reference tree; spec = (start, stop, dt)"""
    if depth > 200: raise Domain("depth")
    k = e[0]
    R = lambda x, tt=t: ref_eval(x, tt, env, spec, depth + 1)
    try:
        if k == "num": return float(e[1])
        if k == "id":
            if e[1] not in env: raise Domain("unresolved")
            return R(env[e[1]])
        if k == "paren": return R(e[1])
        if k == "neg": return -R(e[1])
        if k == "not": return not R(e[1])
        if k == "if": return R(e[2]) if R(e[1]) else R(e[3])
        if k == "bin":
            o = e[1]
            if o == "and": return R(e[2]) and R(e[3])
            if o == "or": return R(e[2]) or R(e[3])
            a, b = R(e[2]), R(e[3])
            if o == "+": return a + b
            if o == "-": return a - b
            if o == "*": return a * b
            if o == "/": return a / b
            if o == "mod": return a % b
            if o == "^": r = a ** b
            elif o == "=": return a == b
            elif o == "<>": return a != b
            elif o == "<": return a < b
            elif o == "<=": return a <= b
            elif o == ">": return a > b
            elif o == ">=": return a >= b
            if isinstance(r, complex): raise Domain("complex")
            return r
        f, args = e[1], e[2]
        start, stop, dt = spec
        if f == "time": return t
        if f == "dt": return dt
        if f == "starttime": return start
        if f == "stoptime": return stop
        if f == "pi": return math.pi
        if f == "init": return R(args[0], start)
        if f == "if": raise Domain("if")
        v = [R(a) for a in args]
        if f == "abs" and len(v) == 1: return abs(v[0])
        if f == "min" and len(v) >= 2: return min(v)
        if f == "max" and len(v) >= 2: return max(v)
        if f == "sqrt" and len(v) == 1:
            r = v[0] ** 0.5
            if isinstance(r, complex): raise Domain("complex")
            return r
        if f == "exp" and len(v) == 1: return float(np.exp(v[0]))
        if f == "ln" and len(v) == 1:
            if v[0] <= 0: raise Domain("ln")
            return float(np.log(v[0]))
        if f == "log10" and len(v) == 1:
            if v[0] <= 0: raise Domain("log")
            return float(np.log10(v[0]))
        if f == "int" and len(v) == 1: return math.floor(v[0])
        if f == "round" and len(v) == 1: return round(v[0])
        if f == "sin" and len(v) == 1: return math.sin(v[0])
        if f == "cos" and len(v) == 1: return math.cos(v[0])
        if f == "tan" and len(v) == 1: return math.tan(v[0])
        if f in ("arcsin", "arccos") and len(v) == 1:
            if abs(v[0]) > 1: raise Domain("arc")
            return float(getattr(np, f)(v[0]))
        if f == "arctan" and len(v) == 1: return float(np.arctan(v[0]))
        if f == "safediv" and len(v) in (2, 3):
            return (v[2] if len(v) == 3 else 0) if v[1] == 0 else v[0] / v[1]
        if f == "step" and len(v) == 2: return 0 if t < v[1] else v[0]
        if f == "ramp" and len(v) == 2:
            if not v[1]: raise Domain("ramp start 0")     # helper substitutes the start time: outside C03
            return 0 if t <= v[1] else (t - v[1]) * v[0]
        if f == "percent" and len(v) == 1: return v[0] * 100
        if f == "rootn" and len(v) == 2:
            if v[0] < 0 or v[1] != round(v[1]) or v[1] < 1: raise Domain("rootn")
            return abs(v[0]) ** (1 / round(v[1], 0))
        raise Unsupp(f"function {f}/{len(v)}")
    except (ZeroDivisionError, OverflowError, ValueError, TypeError) as ex:
        raise Domain(type(ex).__name__)


# ------------------------------------------------------------------ IR -> wire tree
IROP = {s for s, _ in XOPS}


class Unmodelled(Exception):
    pass


def ir_words(t):
    if isinstance(t, list):
        t2 = [x for x in t if not (isinstance(x, str) and x.strip() in (",", ""))] if len(t) > 1 else t
        if len(t2) == 1:
            return ir_words(t2[0])
        raise Unmodelled(f"list of {len(t)}")
    if isinstance(t, bool):
        raise Unmodelled("bool")
    if isinstance(t, (int, float)):
        return ["n", repr(float(t))]           # a signed literal stays ONE IR node: the model's `nnum` (level of unary minus)
    if isinstance(t, str):
        if t.strip() == "":
            return ["e"]
        raise Unmodelled(f"string {t!r}")
    if not isinstance(t, dict):
        raise Unmodelled(type(t).__name__)
    ty, name = t["type"], t["name"]
    if ty == "identifier":
        if not re.fullmatch(r"[\w.]+", name):
            raise Unmodelled(f"identifier {name!r}")
        return ["i", name[:1].lower() + name[1:]]
    if ty == "operator":
        n = name.lower().replace(" ", "")
        args = t["args"]
        if n == "()" and len(args) == 1: return ["p"] + ir_words(args[0])
        if n == "not" and len(args) == 1: return ["t"] + ir_words(args[0])
        if n in IROP and len(args) == 2: return ["b", n] + ir_words(args[0]) + ir_words(args[1])
        raise Unmodelled(f"operator {n}/{len(args)}")
    if ty == "call":
        n = name.lower()
        args = t["args"]
        if isinstance(args, str):          # visit_FunctionArguments: a single numeric literal arrives as its text
            try:
                args = [float(args)]
            except ValueError:
                raise Unmodelled(f"argument string {args!r}")
        args = [a for a in args if not (isinstance(a, str) and a.strip() == ",")]
        if not re.fullmatch(r"[\w]+", n):
            raise Unmodelled(f"function {n!r}")
        if n == "if" and len(args) == 3:
            return ["q"] + ir_words(args[0]) + ir_words(args[1]) + ir_words(args[2])
        out = ["c", n, str(len(args))]
        for a in args:
            out += ir_words(a)
        return out
    raise Unmodelled(f"type {ty}")


def build_ir(src):
    """the IR exactly as `compile_xmile` builds it before handing it to the generator"""
    import BPTK_Py.sdcompiler.compile as CM
    return CM.fixLabels(CM.FindComplexFunctions(CM.resolveAsterisk(CM.sortEntities(CM.ExpandArrays(CM.filterGhosts(
        CM.resolveSelf(CM.replaceDimensionNames(CM.StockExpressions(CM.parse_xmile(src))))))))))


# ------------------------------------------------------------------ document generator
WORDS = ["alpha", "beta", "gamma", "delta", "rate", "level", "input", "output", "factor", "share", "cost", "price", "flow",
         "base", "total", "yield", "ratio", "count",
         # wave 7: names that START with a keyword, operator word or parameterless builtin (IF THEN ELSE AND OR NOT MOD TIME DT PI ...)
         "order", "android", "iffy", "thence", "elsewhere", "notes", "timer", "dtx", "pie", "modular", "infinity", "nanny", "stoptimes", "minimum"]
CONSTS = ["7", "3", "2", "5", "11", "0.5", "4", "1.5", "13", "0.25", "6", "9"]
ARITH = ["+", "-", "*", "/", "^", "mod"]
F1 = ["abs", "sqrt", "exp", "ln", "log10", "int", "round", "sin", "cos", "tan", "arcsin", "arccos", "arctan", "percent"]
LVL = {"or": 1, "and": 2, "=": 3, "<>": 3, "<": 4, "<=": 4, ">": 4, ">=": 4, "+": 5, "-": 5, "*": 6, "/": 6, "mod": 6, "^": 8}


def gen_arith(rng, depth, nvars, st):
    """G-tree of an arithmetic expression over variables 0..nvars-1"""
    if depth <= 0 or rng.chance(1, 5):
        r = rng.below(12)
        if r < 7 and nvars > 0:
            return ("var", rng.below(nvars))
        if r < 10 or nvars == 0:
            lit = rng.choice(["2", "3", "0.5", "4", "1.5", "10", ".25", "7", "1"]) if not rng.chance(1, 8) else \
                rng.choice(["0", "0.0", "1000000", "0.001", "123456.789", "3.14159265358979", "00.50"])   # wave 7: falsy / large / many decimals / odd spellings
            st["ops"]["lit:" + ("zero" if float(lit) == 0 else "large" if float(lit) >= 1000 else "plain")] = st["ops"].get("lit:" + ("zero" if float(lit) == 0 else "large" if float(lit) >= 1000 else "plain"), 0) + 1
            q = rng.below(10)
            if q == 0:                       # signed literal, bare: an operand of the level of unary minus
                st["ops"]["nlit"] = st["ops"].get("nlit", 0) + 1
                return ("nlit", lit)
            if q == 1:                       # parenthesised signed literal: a primary
                st["ops"]["(nlit)"] = st["ops"].get("(nlit)", 0) + 1
                return ("paren", ("nlit", lit))
            return ("num", lit)
        return ("special", rng.choice(["TIME", "DT", "STARTTIME", "STOPTIME", "PI"]))
    r = rng.below(40)
    if r < 17:
        op = rng.choice(ARITH)
        st["ops"][op] = st["ops"].get(op, 0) + 1
        if op == "^":
            ex = ("num", rng.choice(["2", "3", "0.5"])) if rng.chance(3, 4) else gen_arith(rng, 0, nvars, st)
            if rng.chance(1, 4): ex = ("neg", ex)
            if rng.chance(1, 5): ex = ("bin", "^", ex, ("num", "2"))
            return ("bin", "^", gen_arith(rng, depth - 1, nvars, st), ex)
        return ("bin", op, gen_arith(rng, depth - 1, nvars, st), gen_arith(rng, depth - 1, nvars, st))
    if r < 21:
        st["ops"]["neg"] = st["ops"].get("neg", 0) + 1
        return ("neg", gen_arith(rng, depth - 1, nvars, st))
    if r < 24:
        return ("paren", gen_arith(rng, depth - 1, nvars, st))
    if r < 27:
        st["ops"]["if"] = st["ops"].get("if", 0) + 1
        return ("if", gen_cond(rng, depth - 1, nvars, st), gen_sent(rng, depth - 1, nvars, st), gen_sent(rng, depth - 1, nvars, st))
    if r < 29:
        # a comparison used as a number — only as a factor next to a literal: numpy booleans (comparisons of np.exp/np.log
        # results) do not support unary minus and bool±bool, which is outside what C03 fixes
        st["ops"]["cmpval"] = st["ops"].get("cmpval", 0) + 1
        return ("bin", "*", ("paren", gen_cond(rng, depth - 1, nvars, st)), ("num", rng.choice(["2", "3", "10"])))
    # builtins
    f = rng.choice(F1 + ["min", "max", "safediv", "step", "ramp", "rootn", "init", "min3", "safediv3", "max"])
    st["fns"][f] = st["fns"].get(f, 0) + 1
    a = lambda: gen_sent(rng, depth - 1, nvars, st)
    if f in ("sqrt", "ln", "log10"):
        return ("call", f, [("bin", "+", ("call", "abs", [a()]), ("num", "1"))] if rng.chance(2, 3) else [a()])
    if f in ("arcsin", "arccos"):
        return ("call", f, [("call", rng.choice(["sin", "cos"]), [a()])])
    if f == "exp":
        return ("call", f, [("call", "sin", [a()])] if rng.chance(1, 2) else [a()])
    if f in F1: return ("call", f, [a()])
    if f in ("min", "max"): return ("call", f, [a(), a()])
    if f == "min3": return ("call", "min", [a(), a(), a()])
    if f == "safediv": return ("call", f, [a(), a()])
    if f == "safediv3": return ("call", "safediv", [a(), a(), a()])
    if f == "step": return ("call", f, [a(), ("num", rng.choice(["1", "2", "3"])) if rng.chance(3, 4) else a()])
    if f == "ramp": return ("call", f, [a(), ("num", rng.choice(["1", "2"]))])
    if f == "rootn": return ("call", f, [("bin", "+", ("call", "abs", [a()]), ("num", "1")), ("num", rng.choice(["2", "3"]))])
    if f == "init":
        return ("call", f, [gen_pure(rng, depth - 1, nvars)])
    return ("num", "1")


def gen_pure(rng, depth, nvars):
    """time-independent arithmetic (argument of INIT)"""
    if depth <= 0 or rng.chance(1, 4) or nvars == 0:
        return ("var", rng.below(nvars)) if nvars and rng.chance(3, 4) else ("num", rng.choice(["2", "3", "5"]))
    if rng.chance(1, 6):
        return ("call", "abs", [gen_pure(rng, depth - 1, nvars)]) if rng.chance(1, 2) else ("paren", gen_pure(rng, depth - 1, nvars))
    return ("bin", rng.choice(["+", "-", "*"]), gen_pure(rng, depth - 1, nvars), gen_pure(rng, depth - 1, nvars))


def gen_cmp(rng, depth, nvars, st):
    op = rng.choice(["=", "<>", "<", "<=", ">", ">="])
    st["ops"][op] = st["ops"].get(op, 0) + 1
    return ("bin", op, gen_arith(rng, depth - 1, nvars, st), gen_arith(rng, depth - 1, nvars, st))


def gen_cond(rng, depth, nvars, st):
    """a condition the PEG accepts: comparison | NOT(comparison) | chain of those with AND / OR"""
    def atom():
        if rng.chance(1, 5):
            st["ops"]["not"] = st["ops"].get("not", 0) + 1
            return ("not", gen_cmp(rng, depth, nvars, st))
        return gen_cmp(rng, depth, nvars, st)
    n = 1 + (rng.below(3) if rng.chance(1, 2) else 0)
    items = [atom() for _ in range(n)]
    ops = [rng.choice(["and", "or"]) for _ in range(n - 1)]
    for o in ops: st["ops"][o] = st["ops"].get(o, 0) + 1
    # XMILE reading: AND above OR, both left to right
    groups, cur = [], items[0]
    for o, it in zip(ops, items[1:]):
        if o == "and":
            cur = ("bin", "and", cur, it)
        else:
            groups.append(cur); cur = it
    groups.append(cur)
    e = groups[0]
    for g in groups[1:]:
        e = ("bin", "or", e, g)
    return e


def gen_sent(rng, depth, nvars, st):
    r = rng.below(12)
    if r == 0 and depth > 0:
        st["ops"]["if"] = st["ops"].get("if", 0) + 1
        return ("ifs", gen_cond(rng, depth - 1, nvars, st), gen_sent(rng, depth - 1, nvars, st), gen_sent(rng, depth - 1, nvars, st))
    return gen_arith(rng, depth, nvars, st)


def glevel(g):
    k = g[0]
    if k == "bin": return LVL[g[1]]
    if k in ("neg", "nlit"): return 7
    if k in ("if", "ifs"): return 0
    return 100


class Speller:
    def __init__(self, rng, names):
        self.rng, self.names = rng, names
        self.kwcase = rng.below(3)
    def sp(self, must=False):
        r = self.rng.below(4)
        if r == 3 and self.rng.chance(1, 3):
            return self.rng.choice(["\t", "\n", " \t ", "\n  "])          # wave 7: tabs and line breaks are whitespace too
        return (" " if must else "") if r == 0 else " " if r < 3 else "  "
    def case(self, w):
        r = self.kwcase if self.rng.chance(3, 4) else self.rng.below(3)
        return w.upper() if r == 0 else w.lower() if r == 1 else w.capitalize()
    def ref(self, i):
        decl = self.names[i]
        base = decl.replace(" ", "_")
        r = self.rng.below(6)
        if r == 0: return base.upper()
        if r == 1: return base.lower()
        if r == 2: return '"' + base + '"'
        if r == 3: return base.replace("_", "__", 1) if "_" in base else base.capitalize()
        return base
    def child(self, g, dem):
        s = self.show(g)
        if glevel(g) < dem or (self.rng.chance(1, 12) and g[0] != "ifs"):
            return "(" + self.sp() + s + self.sp() + ")"
        return s
    def show(self, g):
        k = g[0]
        if k == "num": return g[1]
        if k == "nlit": return "-" + (" " if self.rng.chance(1, 4) and g[1][0] != "." else "") + g[1]   # the PEG's signed NumericLiteral
        if k == "var": return self.ref(g[1])
        if k == "special": return self.case(g[1])
        if k == "paren": return "(" + self.sp() + self.show(g[1]) + self.sp() + ")"
        if k == "neg": return "-" + self.sp() + self.child(g[1], 7)
        if k == "not": return self.case("not") + "(" + self.show(g[1]) + ")"      # the PEG accepts no padding inside NOT( )
        if k in ("if", "ifs"):
            s = (self.case("if") + " " + self.sp() + self.show(g[1]) + " " + self.sp() + self.case("then") + " " + self.show(g[2])
                 + " " + self.case("else") + " " + self.sp() + self.show(g[3]))
            return "(" + s + ")" if k == "if" else s
        if k == "call":
            return self.case(g[1]) + "(" + self.sp() + ("," + self.sp()).join(self.sp() + self.show(a) for a in g[2]) + self.sp() + ")"
        op = g[1]
        if op in CMPS: ld, rd = 5, 5
        elif op == "^": ld, rd = 100, 7
        else: ld, rd = LVL[op], LVL[op] + 1
        word = op in ("and", "or", "mod")
        o = self.case(op) if word else op
        if op in ("and", "or"):       # the PEG accepts no parentheses around the operands of AND / OR
            return self.show(g[2]) + self.sp(True) + o + self.sp(True) + self.show(g[3])
        return self.child(g[2], ld) + self.sp(word) + o + self.sp(word) + self.child(g[3], rd)


def peg_rejects(eq):
    """None if the real PEG + visitor + generator accept the equation, else the exception name.  The supported grammar of
    C03 is what grammar.py accepts; anything else must — and here does — raise."""
    from BPTK_Py.sdcompiler.parsers.smile.grammar import grammar, SMILEVisitor
    try:
        gen_mod().parseExpression(SMILEVisitor().visit(grammar.parse(eq)))
        return None
    except BaseException as ex:
        return type(ex).__name__


def make_doc(rng, st):
    """returns (xml text, [(declared name, equation text)], spec)"""
    nconst = rng.range(3, 5)
    neq = rng.range(4, 7)
    words = rng.shuffle(WORDS)
    names = []
    for i in range(nconst + neq):
        w1, w2 = words[i], rng.choice(["val", "one", "two", "x", "idx", "net", "avg"])
        shape = rng.below(6)
        nm = {0: w1, 1: f"{w1} {w2}", 2: f"{w1}_{w2}", 3: f"{w1.capitalize()} {w2.capitalize()}", 4: w1.upper(), 5: f"{w1} {w2} 1"}[shape]
        st["name_shapes"][shape] = st["name_shapes"].get(shape, 0) + 1
        names.append(nm)
    sp = Speller(rng, names)
    eqs = []
    for i in range(nconst):
        eqs.append((names[i], rng.choice(CONSTS)))
    for j in range(neq):
        i = nconst + j
        for attempt in range(6):
            g = gen_sent(rng, rng.range(1, 4) if attempt < 5 else 0, i, st)
            text = sp.show(g)
            rej = peg_rejects(text)
            if rej is None:
                break
            st.setdefault("peg_rejected", {})
            st["peg_rejected"][rej] = st["peg_rejected"].get(rej, 0) + 1
            if len(st.setdefault("peg_rejected_samples", [])) < 8:
                st["peg_rejected_samples"].append(text[:160])
        eqs.append((names[i], text))
    spec = rng.choice([(0.0, 4.0, 1.0, "1"), (0.0, 4.0, 0.5, "0.5"), (1.0, 5.0, 1.0, "1"), (0.0, 3.0, 0.25, "0.25")])
    return doc_xml(eqs, spec), eqs, spec


SIGNED = ["(-2)", "-2", "(-2)^2", "a*(-2)", "( - 3 )", "0", "(0.0)"]      # wave 7: the falsy literal at every operand position as well


def signed_literal_equations():
    """a signed numeric literal — parenthesised and bare — at every operand position of every operator and every builtin of
    the vocabulary (variables a, b are declared by the document)"""
    eqs = []
    for op in ["+", "-", "*", "/", "^", "mod"]:
        o = f" {op} "
        eqs += [f"(-2){o}a", f"a{o}(-2)", f"-2{o}a", f"a{o}-2", f"(-2){o}(-3)", f"( - 2 ){o}b", f"(-2){o}2", f"-2{o}2", f"b{o}(-2){o}a",
                f"(-2){o}(-3){o}(-2)", f"a{o}( -.5 )", f"(-2.5){o}a"]
    for op in ["=", "<>", "<", "<=", ">", ">="]:
        o = f" {op} "
        eqs += [f"IF (-2){o}a THEN 1 ELSE 2", f"IF a{o}(-2) THEN 1 ELSE 2", f"IF -2{o}a THEN 1 ELSE 2", f"IF a{o}-2 THEN 1 ELSE 2",
                f"((-2){o}a) * 2", f"(a{o}(-2)) * 2", f"IF NOT((-2){o}a) THEN (-2) ELSE -3", f"IF NOT(a{o}-2) THEN -2 ELSE (-3)"]
    for op in ["and", "or"]:
        eqs += [f"IF (-2) < a {op} b > (-3) THEN 1 ELSE 2", f"IF -2 < a {op} b > -3 THEN (-1) ELSE (-2)",
                f"IF (-2) > a {op} NOT((-3) > b) THEN 1 ELSE 2"]
    for op in ["+", "-", "*", "/", "^", "mod", "=", "<>", "<", "<=", ">", ">="]:
        o = f" {op} "
        cmp_ = op in ("=", "<>", "<", "<=", ">", ">=")
        for e in [f"0{o}a", f"a{o}0", f"0.0{o}0", f"(0){o}b", f"a{o}(0.0)", f"a - a{o}b", f"0{o}0.0{o}a" if not cmp_ else f"0{o}a * 0"]:
            eqs.append(f"IF {e} THEN 1 ELSE 0" if cmp_ else e)
    eqs += ["0", "0.0", "(0)", "-0", "IF 0 = 0.0 THEN 1 ELSE 2", "IF a > 0 AND 0 < b THEN 0 ELSE 1", "IF NOT(0 > a) THEN 0 ELSE 0.0"]
    eqs += ["(-2)", "((-2))", "-(-2)", "-(-2)^2", "- (-2) * a", "-2", "-2^2", "(-2)^2", "(-2)^(-2)", "2^(-2)", "2^-2", "(-2)^2^2", "(-2)^-2^2",
            "a^(-2)^2", "IF a > 1 THEN (-2) ELSE -3", "IF a > 1 THEN -2 ELSE (-3)", "IF a < 1 THEN (-2)^2 ELSE (-3)^2", "(IF a > 1 THEN (-2) ELSE (-3)) ^ 2"]
    pos = ["a", "b", "2"]
    for f, n in VOCAB:
        if n == 0 or f in ("()", "if"):
            continue
        for i in range(n):
            for lit in SIGNED:
                args = [lit if j == i else pos[j] for j in range(n)]
                eqs.append(f"{f.upper()}({', '.join(args)})")
                eqs.append(f"{f.upper()}({', '.join(args)}) ^ 2")
        eqs.append(f"{f.upper()}({', '.join(['(-2)'] * n)})")
        eqs.append(f"(-2) * {f.upper()}({', '.join(['(-3)'] * n)}) - (-2)")
    return eqs


def signed_literal_docs(st, rng, limit=None):
    """the equations above as documents of 8; forms the PEG refuses (loud, allowed) are counted, not used"""
    eqs = signed_literal_equations()
    if limit is not None and limit < len(eqs):
        eqs = rng.shuffle(eqs)[:limit]
    ok = []
    for e in eqs:
        rej = peg_rejects(e)
        if rej is None:
            ok.append(e)
        else:
            st.setdefault("signed_literal_peg_rejected", []).append(e)
    st["signed_literal_equations"] = len(ok)
    docs = []
    for i in range(0, len(ok), 8):
        spec = [(0.0, 4.0, 1.0, "1"), (1.0, 5.0, 1.0, "1"), (0.0, 3.0, 0.25, "0.25")][(i // 8) % 3]
        named = [("a", "7"), ("b", "3")] + [(f"sl {i + j}", e) for j, e in enumerate(ok[i:i + 8])]
        docs.append((doc_xml(named, spec), named, spec))
    return docs



CHAIN_LEVELS = [["+", "-"], ["*", "/", "mod"], ["^"]]
CHAIN_KINDS = ["id", "pos", "neg", "par"]


def chain_equations(rng, quick):
    """operator chains on ONE precedence level: every pair (length 3) / triple (length 4) of operators of the level and every
    operand pattern over {identifier, positive literal, negative literal, parenthesised term}, so that two numeric literals are
    neighbours after - / ^ MOD at the start, in the middle and at the end of a chain (the PEG nests chains to the right: the IR of
    `a - 1 + 2` is -(a, +(1, 2)); whatever the generator does with an inner literal-literal node must not regroup the chain).
    Spelled with blanks, without blanks and with redundant parentheses around a literal."""
    import itertools
    ids, poss, negs = ["a", "b"], ["3", "2", "4", "1.5"], ["-2", "-3", "-1.5"]
    pars = ["(b - 1)", "(2)", "(-3)", "( a / 2 )", "(1 + 2)"]
    out, n = [], 0
    for ops_level in CHAIN_LEVELS:
        for length in (3, 4):
            for ops in itertools.product(ops_level, repeat=length - 1):
                pats = list(itertools.product(CHAIN_KINDS, repeat=length))
                # the patterns with two neighbouring literals are the core; the others are sampled (all of them in thorough for length 3)
                lit = lambda k: k in ("pos", "neg")
                core = [p for p in pats if any(lit(p[i]) and lit(p[i + 1]) for i in range(length - 1))]
                rest = [p for p in pats if p not in core]
                if length == 3:
                    pats = core + (rng.shuffle(rest)[:2] if quick else rest)          # quick: 24 + 2 per operator pair
                else:
                    pats = rng.shuffle(core)[:3] if quick else core + rng.shuffle(rest)[:8]
                for pat in pats:
                    n += 1
                    opd = []
                    for j, k in enumerate(pat):
                        v = {"id": ids, "pos": poss, "neg": negs, "par": pars}[k]
                        opd.append(v[(n + j) % len(v)])
                    style = n % 3
                    parts = [opd[0]]
                    for o, x in zip(ops, opd[1:]):
                        word = o == "mod"
                        if style == 1 and not word:
                            parts.append(o + x)                      # no blanks: a-1+2, a--2
                        elif style == 2 and x[0] not in "(-":
                            parts.append(f" {o} ({x})")              # redundant parentheses around the operand
                        else:
                            parts.append(f" {o} {x}")
                    out.append("".join(parts))
    # the forms named in the seed report, verbatim, and the same chains as operands / arguments / branches
    out += ["a - 1 + 2", "a / 2 * 4", "a - 3 - 2", "10 - 3 - 2", "-2 + 2", "a - 1 - 2 + b", "b * (a - 1 + 2)", "ABS(a - 1 + 2)",
            "IF a > 1 THEN a - 1 + 2 ELSE a / 2 * 4", "MAX(a / 2 / 4, 10 - 3 - 2)", "a mod 4 mod 3", "100 mod 7 mod 4", "a - 2 * 3 - 4 / 2 / 2",
            "2 ^ 3 ^ 2", "a ^ 2 ^ 2", "64 / 4 / 2 / 2", "a - 1 + 2 - 3 + 4", "1 - 2 - 3 - a", "a * 2 / 4 * 8 / 16"]
    seen, uniq = set(), []
    for e in out:
        if e not in seen:
            seen.add(e); uniq.append(e)
    return uniq


def chain_docs(st, rng, quick):
    ok = []
    for e in chain_equations(rng, quick):
        rej = peg_rejects(e)
        if rej is None:
            ok.append(e)
        else:
            st.setdefault("chain_peg_rejected", []).append(e)
    st["chain_equations"] = len(ok)
    docs = []
    for i in range(0, len(ok), 10):
        spec = [(0.0, 4.0, 1.0, "1"), (1.0, 5.0, 1.0, "1")][(i // 10) % 2]
        named = [("a", "7"), ("b", "3")] + [(f"ch {i + j}", e) for j, e in enumerate(ok[i:i + 10])]
        docs.append((doc_xml(named, spec), named, spec))
    return docs


def xml_escape(s):
    return s.replace("&", "&amp;").replace("<", "&lt;").replace(">", "&gt;").replace('"', "&quot;")


def doc_xml(eqs, spec):
    body = "".join(f'\n\t\t\t<aux name="{xml_escape(n)}">\n\t\t\t\t<eqn>{xml_escape(e)}</eqn>\n\t\t\t</aux>' for n, e in eqs)
    st, sp = (str(int(spec[0])), str(int(spec[1])))
    return (f'<?xml version="1.0" encoding="utf-8"?>\n<xmile version="1.0" xmlns="http://docs.oasis-open.org/xmile/ns/XMILE/v1.0">\n'
            f'\t<header>\n\t\t<name>c03doc</name>\n\t\t<vendor>verif</vendor>\n\t</header>\n'
            f'\t<sim_specs method="Euler" time_units="Months">\n\t\t<start>{st}</start>\n\t\t<stop>{sp}</stop>\n\t\t<dt>{spec[3]}</dt>\n\t</sim_specs>\n'
            f'\t<model>\n\t\t<variables>{body}\n\t\t</variables>\n\t</model>\n</xmile>\n')


def real_compile(xml, d, tag):
    """compile with the real compiler; returns (IR, sim object).  Raises whatever the pipeline raises."""
    from BPTK_Py.sdcompiler.compile import compile_xmile
    src, dest = os.path.join(d, f"{tag}.xmile"), os.path.join(d, f"{tag}.py")
    with open(src, "w") as f:
        f.write(xml)
    compile_xmile(src, dest, "py")
    ir = build_ir(src)
    spec = importlib.util.spec_from_file_location(f"c03_{tag}", dest)
    mod = importlib.util.module_from_spec(spec)
    spec.loader.exec_module(mod)
    return ir, mod.simulation_model(), open(dest).read()


def same_val(got, exp):
    try:
        if isinstance(got, complex) or isinstance(exp, complex): return False
        g, e = float(got), float(exp)
        if math.isnan(g) and math.isnan(e): return True
        return g == e or abs(g - e) <= 1e-11 * max(1.0, abs(e))
    except Exception:
        return False


MALFORMED = [("unknown-builtin", "FOO({0})"), ("unknown-builtin", "2 * BAR({0}, 1) + 1"), ("chained-comparison", "{0} < {1} = 1"),
             ("paren-bool-and", "({0} > 1) AND ({1} > 1)"), ("not-without-paren", "NOT {0} > 1"), ("juxtaposition", "{0} {1}"),
             ("unbalanced", "({0} + {1}"), ("dangling-operator", "{0} +"), ("exponent-literal", "2e3 * {0}"),
             ("unknown-variable", "{0} + nosuchvar"), ("if-without-else", "IF {0} > 1 THEN 2"), ("space-before-paren", "SQRT ({0})")]


def check_loud(form, eq, d, tag):
    """an equation outside the supported grammar: must raise in compile / import / evaluation.  Returns (loud, how)"""
    xml = doc_xml([("a", "7"), ("b", "3"), ("probe var", eq)], (0.0, 4.0, 1.0, "1"))
    try:
        ir, sim, _ = real_compile(xml, d, tag)
    except BaseException as ex:
        return True, f"compile/import: {type(ex).__name__}"
    try:
        v = sim.equation("probeVar", 1.0)
    except BaseException as ex:
        return True, f"evaluation: {type(ex).__name__}"
    return False, f"value {v!r}"



# ------------------------------------------------------------------ delay / smooth family (helpers of jinja_template.py)
# These builtins recurse on `t - dt` inside private helpers; what the statement fixes for them is the standard definition on
# the time GRID: an n-th order exponential delay/smooth is a cascade of n first-order stocks advanced once per grid interval.
DELAY_DTS = [("1", 1.0, False), ("0.5", 0.5, False), ("0.25", 0.25, False), ("0.1", 0.1, False), ("0.2", 0.2, False),
             ("0.05", 0.05, False), ("3", 1 / 3, True), ("7", 1 / 7, True), ("10", 1 / 10, True)]
DELAY_INPUTS = [("TIME*TIME + 1", lambda t, s: t * t + 1), ("10 - 2*TIME", lambda t, s: 10 - 2 * t),
                ("3", lambda t, s: 3.0), ("STEP(5, STARTTIME + 1) + 2", lambda t, s: (0 if t < (s + 1) else 5.0) + 2)]


def delay_doc_xml(eqs, start, stop, dt_text, recip):
    body = "".join(f'\n\t\t\t<aux name="{xml_escape(n)}">\n\t\t\t\t<eqn>{xml_escape(e)}</eqn>\n\t\t\t</aux>' for n, e in eqs)
    dt = f'<dt reciprocal="true">{dt_text}</dt>' if recip else f'<dt>{dt_text}</dt>'
    return (f'<?xml version="1.0" encoding="utf-8"?>\n<xmile version="1.0" xmlns="http://docs.oasis-open.org/xmile/ns/XMILE/v1.0">\n'
            f'\t<header>\n\t\t<name>c03delay</name>\n\t\t<vendor>verif</vendor>\n\t</header>\n'
            f'\t<sim_specs method="Euler" time_units="Months">\n\t\t<start>{start}</start>\n\t\t<stop>{stop}</stop>\n\t\t{dt}\n\t</sim_specs>\n'
            f'\t<model>\n\t\t<variables>{body}\n\t\t</variables>\n\t</model>\n</xmile>\n')


def ref_cascade(inp, T, n, init, start, dt, K):
    """n first-order stocks in a row, each with time constant T/n; one Euler step per grid interval; grid times start + k*dt"""
    x0 = inp(start, start) if init is None else init
    st = [max(0, x0)] * n
    out = [st[-1]]
    for k in range(K):
        t = start + k * dt
        ch = [((inp(t, start) if i == 0 else st[i - 1]) - st[i]) / (T / n) for i in range(n)]
        st = [st[i] + dt * ch[i] for i in range(n)]
        out.append(st[-1])
    return out


def ref_delay(inp, off_steps, init, start, dt, K):
    """pure delay by a whole number of steps: the input `off_steps` grid points earlier, `init` before the start"""
    return [(inp(start, start) if init is None else init) if k < off_steps else inp(start + (k - off_steps) * dt, start) for k in range(K + 1)]


def ref_derivn(inp, order, start, dt, K):
    """n-th backward difference quotient over dt; 0 while fewer than `order` intervals have elapsed"""
    x = [inp(start + k * dt, start) for k in range(K + 1)]
    d = [x]
    for o in range(1, order + 1):
        prev = d[-1]
        d.append([0 if k < 1 else (prev[k] - (prev[k - 1] if (o == 1 or k - 1 >= 1) else 0)) / dt for k in range(K + 1)])
    return [d[order][k] if k >= order else 0 for k in range(K + 1)]


def ref_npv(inp, p, start, dt, K):
    """step-count reference: the helper's own recurrence on grid indices (value of the stream at the query time, discounted sum of dt)"""
    out = []
    for k in range(K + 1):
        x = inp(start + k * dt, start)
        acc = x
        for j in range(1, k + 1):
            acc = acc + dt * (1.0 / (1.0 + p) ** (j * dt)) * x
        out.append(acc)
    return out


def delay_cases(rng, quick):
    """(label, equation text, reference builder) over the dt / start lattice"""
    fams = []
    for fn, n in [("DELAY1", 1), ("DELAY3", 3), ("SMTH3", 3)]:
        fams.append((fn, lambda i, T, n=n, fn=fn: f"{fn}(inp, {T})", lambda inp, T, s, dt, K, n=n: ref_cascade(inp, T, n, None, s, dt, K)))
        fams.append((fn + "+init", lambda i, T, n=n, fn=fn: f"{fn}(inp, {T}, 4)", lambda inp, T, s, dt, K, n=n: ref_cascade(inp, T, n, 4.0, s, dt, K)))
    for fn in ["DELAYN", "SMTHN"]:
        for n in (1, 2, 4):
            fams.append((f"{fn}/{n}", lambda i, T, n=n, fn=fn: f"{fn}(inp, {T}, {n})", lambda inp, T, s, dt, K, n=n: ref_cascade(inp, T, n, None, s, dt, K)))
        fams.append((f"{fn}/2+init", lambda i, T, fn=fn: f"{fn}(inp, {T}, 2, 1.5)", lambda inp, T, s, dt, K: ref_cascade(inp, T, 2, 1.5, s, dt, K)))
    # wave 7: SMTH1 is expanded into helper stocks by plugins/complexFunctions (all three arguments must be identifiers)
    fams.append(("SMTH1/ids", lambda i, T: "SMTH1(inp, avt, ini)", lambda inp, T, s, dt, K: ref_cascade(inp, T, 1, 4.0, s, dt, K)))
    for o in (1, 2, 3):
        fams.append((f"DERIVN/{o}", lambda i, T, o=o: f"DERIVN(inp, {o})", lambda inp, T, s, dt, K, o=o: ref_derivn(inp, o, s, dt, K)))
    fams.append(("NPV", lambda i, T: "NPV(inp, 0.1)", lambda inp, T, s, dt, K: ref_npv(inp, 0.1, s, dt, K)))
    for steps in (1, 3):
        fams.append((f"DELAY/{steps}", ("delay", steps, None), None))
        fams.append((f"DELAY/{steps}+init", ("delay", steps, 99.0), None))
    cases = []
    dts = DELAY_DTS if not quick else [d for d in DELAY_DTS if d[0] in ("1", "0.25", "0.1", "0.2", "3", "7")]
    for dt_text, dt, recip in dts:
        for start in ((0, 2) if quick else (0, 1, 2, 2020)):
            for ii, (itext, ifn) in enumerate(DELAY_INPUTS):
                if quick and not rng.chance(1, 2) and ii != 0:
                    continue
                cases.append((dt_text, dt, recip, start, itext, ifn, fams))
    return cases


def run_delay_family(chk, rng, d, stats):
    """returns the first reference failure (replay dict) per defect class: {finding key: replay}"""
    K = 12
    fails = {}
    fail = None
    st = stats.setdefault("delay_family", {"documents": 0, "values_compared": 0, "raised": {}, "by_builtin": {}})
    for ci, (dt_text, dt, recip, start, itext, ifn, fams) in enumerate(delay_cases(rng, chk.quick)):
        stop = start + 4
        T = rng.choice(["2", "1.5", "3"])
        eqs, refs = [("inp", itext), ("avt", T), ("ini", "4")], {}
        for fi, (label, mk, rf) in enumerate(fams):
            name = f"y{fi}"
            if isinstance(mk, tuple):
                _, steps, init = mk
                off = repr(round(steps * dt, 12)) if not recip else f"{steps}/{dt_text}"
                eqs.append((name, f"DELAY(inp, {off})" if init is None else f"DELAY(inp, {off}, {init})"))
                refs[name] = (label, ref_delay(ifn, steps, init, start, dt, K))
            else:
                eqs.append((name, mk(fi, T)))
                refs[name] = (label, rf(ifn, float(T), start, dt, K))
        xml = delay_doc_xml(eqs, start, stop, dt_text, recip)
        try:
            ir, sim, pysrc = real_compile(xml, d, f"dl{ci}")
        except BaseException as ex:
            if fail is None:
                fail = {"kind": "delay", "variables": [list(x) for x in eqs], "start": start, "stop": stop, "dt_text": dt_text, "reciprocal": recip,
                        "variable": None, "k": None, "observed": f"compile: {type(ex).__name__}: {str(ex)[:200]}", "expected": "compiles"}
            continue
        st["documents"] += 1
        chk.case(("delay", dt_text, recip, start, itext, T), nontrivial=True, sample={"dt": dt_text, "reciprocal": recip, "start": start, "input": itext})
        sdt = sim.dt
        for name, (label, ref) in refs.items():
            for order in ("asc", "single"):
                ks = range(K + 1) if order == "asc" else [K, 4]
                inst = sim if order == "asc" else None
                for k in ks:
                    if order == "single":           # fresh instance, one late point: the helper's recursion runs down from there
                        import importlib.util as iu
                        spec_ = iu.spec_from_file_location(f"c03_dl{ci}_{name}_{k}", os.path.join(d, f"dl{ci}.py"))
                        mod_ = iu.module_from_spec(spec_); spec_.loader.exec_module(mod_)
                        inst = mod_.simulation_model()
                    t = 1.0 * round(sdt * k + start, 10)
                    try:
                        got = inst.equation(name, t)
                    except BaseException as ex:
                        got = ex
                    st["values_compared"] += 1
                    bb = st["by_builtin"].setdefault(label.split("/")[0].split("+")[0], 0)
                    st["by_builtin"][label.split("/")[0].split("+")[0]] = bb + 1
                    exp = ref[k]
                    okv = (not isinstance(got, BaseException)) and same_val_tol(got, exp)
                    fkey = ("value:derivn-step" if label.startswith("DERIVN") else "value:delay-start" if label.startswith("DELAY/")
                            else "value:helper-time-grid")
                    if not okv and fkey not in fails:
                        fails[fkey] = {"kind": "delay", "variables": [list(x) for x in eqs if not x[0].startswith("y")] + [[name, dict(eqs)[name]]], "start": start, "stop": stop, "dt_text": dt_text,
                                "reciprocal": recip, "variable": name, "k": k, "t": t, "order": order, "builtin": label,
                                "observed": repr(got), "expected": repr(exp)}
    # FORCST: cannot be evaluated on this tree (refers to model equations 'averageInput' / 'averagingTime'); loud, so allowed
    try:
        ir, sim, _ = real_compile(delay_doc_xml([("inp", "TIME + 1"), ("y", "FORCST(inp, 2, 1)")], 0, 4, "0.5", False), d, "dlf")
        try:
            st["forcst"] = f"value {sim.equation('y', 1.0)!r} (not compared)"
        except BaseException as ex:
            st["forcst"] = f"raises at evaluation: {type(ex).__name__}"
    except BaseException as ex:
        st["forcst"] = f"raises at compile: {type(ex).__name__}"
    if fail is not None:
        fails.setdefault("value:helper-time-grid", fail)
    return fails or None


def same_val_tol(got, exp):
    try:
        g, e = float(got), float(exp)
        return g == e or abs(g - e) <= 1e-9 * max(1.0, abs(e))
    except Exception:
        return False


def delay_replay(r):
    d = scratch_dir("bptkverif_c03r_")
    try:
        xml = delay_doc_xml([tuple(x) for x in r["variables"]], r["start"], r["stop"], r["dt_text"], r["reciprocal"])
        try:
            ir, sim, _ = real_compile(xml, d, "r")
        except BaseException as ex:
            return f"compile: {type(ex).__name__}: {str(ex)[:200]}"
        try:
            return repr(sim.equation(r["variable"], r["t"]))
        except BaseException as ex:
            return repr(ex)
    finally:
        shutil.rmtree(d, ignore_errors=True)



# ------------------------------------------------------------------ wave 7: the equation of a <flow> and the initial value of a <stock>
# are equations too: biflow = its equation, uniflow (<non_negative/>) = max(0, equation), stock without flows = its initial-value
# equation evaluated at the start time, for every t.
def kind_doc_xml(items, spec):
    body = []
    for n, kind, e in items:
        if kind == "aux":
            body.append(f'\n\t\t\t<aux name="{xml_escape(n)}">\n\t\t\t\t<eqn>{xml_escape(e)}</eqn>\n\t\t\t</aux>')
        elif kind in ("flow", "uniflow"):
            nn = "\n\t\t\t\t<non_negative/>" if kind == "uniflow" else ""
            body.append(f'\n\t\t\t<flow name="{xml_escape(n)}">\n\t\t\t\t<eqn>{xml_escape(e)}</eqn>{nn}\n\t\t\t</flow>')
        else:
            body.append(f'\n\t\t\t<stock name="{xml_escape(n)}">\n\t\t\t\t<eqn>{xml_escape(e)}</eqn>\n\t\t\t</stock>')
    return doc_xml([], spec).replace("<variables>", "<variables>" + "".join(body))


def make_kind_doc(rng, st):
    nconst, neq = 3, rng.range(4, 6)
    words = rng.shuffle(WORDS)
    names = [words[i] if i % 2 else f"{words[i]} {rng.choice(['val', 'x', 'net'])}" for i in range(nconst + neq)]
    sp = Speller(rng, names)
    items = [(names[i], "aux", rng.choice(CONSTS)) for i in range(nconst)]
    for j in range(neq):
        i = nconst + j
        for attempt in range(6):
            text = sp.show(gen_sent(rng, rng.range(1, 3) if attempt < 5 else 0, i, st))
            if peg_rejects(text) is None:
                break
        items.append((names[i], rng.choice(["flow", "uniflow", "stock", "stock", "flow", "aux"]), text))
    return items, rng.choice([(0.0, 4.0, 1.0, "1"), (1.0, 5.0, 1.0, "1"), (0.0, 3.0, 0.25, "0.25")])


def eval_kinds(items, spec, want=None):
    from BPTK_Py.sdcompiler.plugins import sanitizeName
    d = scratch_dir("bptkverif_c03k_")
    try:
        py = {n: sanitizeName("." + n.lower()) for n, _, _ in items}
        resolve = {xcanon(n): py[n] for n, _, _ in items}
        try:
            ir, sim, pysrc = real_compile(kind_doc_xml(items, spec), d, "k")
        except BaseException:
            return None, 0
        env = {}
        for n, kind, e in items:
            try:
                t_ = ref_parse(xlex(e, resolve))
            except Unsupp:
                return None, 0
            env[py[n]] = t_ if kind in ("aux", "flow") else ("call", "max", [("num", "0.0"), t_]) if kind == "uniflow" else ("call", "init", [t_])
        count = 0
        for n, kind, e in items:
            if want is not None and py[n] != want:
                continue
            for t in [spec[0], spec[0] + spec[2], spec[1]]:
                try:
                    exp = ref_eval(env[py[n]], t, env, spec[:3])
                except (Domain, Unsupp):
                    continue
                try:
                    got = sim.equation(py[n], t)
                except BaseException as ex:
                    got = ex
                count += 1
                if isinstance(got, BaseException) or not same_val(got, exp):
                    m = re.search(r"'%s'\s*: lambda t: (.*),\n" % re.escape(py[n]), pysrc)
                    return {"kind": "kinds", "items": [list(x) for x in items], "spec": list(spec), "variable": py[n], "entity": kind, "equation": e, "t": t,
                            "observed": repr(got), "expected": repr(exp), "python": m.group(1) if m else None}, count
        return None, count
    finally:
        shutil.rmtree(d, ignore_errors=True)


def shrink_kinds(items, spec, want):
    cur, _ = eval_kinds(items, spec, want)
    if cur is None:
        return None
    items = list(items)
    for i in range(len(items) - 1, -1, -1):
        for cand in (None, "3"):
            if cand is None:
                trial = items[:i] + items[i + 1:]
            else:
                trial = items[:i] + [(items[i][0], "aux", cand)] + items[i + 1:]
            from BPTK_Py.sdcompiler.plugins import sanitizeName
            if sanitizeName("." + items[i][0].lower()) == want:
                break
            r, _ = eval_kinds(trial, spec, want)
            if r is not None:
                items, cur = trial, r
                break
    return cur


# ------------------------------------------------------------------ the check
def run(chk):
    quiet_bptk_logging()
    logging.getLogger().setLevel(logging.CRITICAL)
    import warnings
    warnings.filterwarnings("ignore")
    facts = probe()
    write_if_changed(os.path.join(LEAN, "Bptk", "Gen", "C03Cfg.lean"), cfg_lean(facts))
    b = lake_build(["Bptk.Gen.C03Cfg", "Bptk.Core.C03"])
    if not b["ok"]:
        raise LeanError("C03 configuration module does not build: " + b["log"][-1500:])
    diag = dict(x.split("|", 1) for x in drive("C03", ["diag"])[0].split(";"))
    bad = {k: v for k, v in diag.items() if v != "ok"}
    missing = [f"{f}/{n}" for f, n in VOCAB if f"{f}/{n}" not in diag]
    shapes = dict(x.split("=", 1) for x in drive("C03", ["shapes"])[0].split(";"))
    chk.notes["probe"] = {"templates_not_ok": bad, "missing": missing, "problems": facts["problems"],
                          "unknownBuiltinRaises": facts["unknownBuiltinRaises"], "unknown_result": facts["unknown_result"]}
    chk.notes["probe"]["helperKeysNormalise"] = facts["helperKeysNormalise"]
    chk.notes["probe"]["helper_probe"] = facts["helper_probe"]
    good = not bad and not missing and facts["unknownBuiltinRaises"] and facts["helperKeysNormalise"]
    # witness trees for templates that are not ok: f(2+7 …) in a product
    wit_thms, witnesses = [], []
    if not good:
        for key, why in bad.items():
            if "/" not in key or key.startswith("op") or key in ("not/1",):
                continue
            f, n = key.rsplit("/", 1)
            n = int(n)
            if n == 0 or (f, n) not in VOCAB:
                continue
            argw = ["b", "+", "n", "2.0", "n", "7.0"]
            tree = ["b", "*", "c", f, str(n)] + argw * n + ["n", "3.0"]
            r = drive("C03", ["gen " + " ".join(tree)])[0].split("\t")
            if len(r) == 4 and r[2] != r[3]:
                witnesses.append({"fn": key, "why": why, "text": r[1], "parsed": r[2], "intended": r[3]})
        for i, w in enumerate(witnesses[:6]):
            f, n = w["fn"].rsplit("/", 1)
            arg = "(.bin .add (.num \"2.0\") (.num \"7.0\"))"
            tree = f"(.bin .mul (.call {pyfrag.lean_str(f)} [{', '.join([arg] * int(n))}]) (.num \"3.0\"))"
            wit_thms.append(f"theorem witness_{i} : (parse (gen cfg false {tree})).map sexp = some {pyfrag.lean_str(w['parsed'])} ∧\n"
                            f"    sexp (trans cfg xmilePrec false {tree}) ≠ {pyfrag.lean_str(w['parsed'])} := by decide +kernel\n#print axioms witness_{i}\n")
    def assemble(good):
        if good:
            ob = ("theorem cfg_good : good cfg xmilePrec = true := by decide +kernel\n"
                  "theorem shapes_ok : shapesOK cfg = true := by decide +kernel\n"
                  "theorem extended_ok : (tableOK 1 extended && extended.all primOK) = true := by decide +kernel\n"
                  "theorem holds : C03_full cfg xmilePrec := C03_full_of_good cfg xmilePrec xmile_prec_agrees xmile_unamb cfg_good shapes_ok\n"
                  "#print axioms holds\n")
        else:
            ob = "theorem cfg_not_good : good cfg xmilePrec = false := by decide +kernel\n#print axioms cfg_not_good\n"
            if any("/" in k and not k.startswith("op") and k != "not/1" for k in bad):
                ob += "theorem fns_not_ok : fnsOK cfg = false := by decide +kernel\n"
            ob += "".join(wit_thms)
            if not facts["unknownBuiltinRaises"]:
                ob += ("theorem violated : ¬ C03_full cfg xmilePrec := C03_witness_unknown cfg xmilePrec (by decide) (by decide +kernel)\n"
                       "#print axioms violated\n")
            if not facts["helperKeysNormalise"]:
                ob += ("theorem violated_helper_keys : ¬ C03_full cfg xmilePrec := C03_witness_helper_keys cfg xmilePrec (by decide)\n"
                       "#print axioms violated_helper_keys\n")
        # wave 5: the literal-sign fact on the probed generator: a signed literal is printed flat (`-2.0`), so `^(-2, 2)` is emitted as
        # `-2.0 ** 2.0`, which reads -(2 ** 2) like the XMILE source `-2 ^ 2` (theorem signed_base_pow); `(-2.0)` would not
        lit_flat = facts["negLit"] == ["O-", "N2.0"] and facts["negLitPow"] == ["O-", "N2.0", "O**", "N2.0"]
        chk.notes["probe"]["negLit"] = " ".join(facts["negLit"]); chk.notes["probe"]["negLitPow"] = " ".join(facts["negLitPow"])
        litdefs = f"def negLit : List Tok := {lean_toks(facts['negLit'])}\ndef negLitPow : List Tok := {lean_toks(facts['negLitPow'])}\n"
        if lit_flat:
            ob += (litdefs + "theorem neg_literal_flat : negLit = gen cfg false (.nnum \"2.0\") ∧ negLitPow = gen cfg false (.bin .pow (.nnum \"2.0\") (.num \"2.0\")) ∧\n"
                   "    (parse negLitPow).map sexp = some \"(neg (** (num 2.0) (num 2.0)))\" := by decide +kernel\n#print axioms neg_literal_flat\n")
            if good:
                ob += ("theorem ops_ok : opOK cfg xmilePrec = true := by decide +kernel\n"
                       "example := signed_base_pow cfg ops_ok \"2.0\" \"2.0\" false\n")
        else:
            ob += (litdefs + "theorem neg_literal_not_flat : ¬ (negLit = gen cfg false (.nnum \"2.0\") ∧ negLitPow = gen cfg false (.bin .pow (.nnum \"2.0\") (.num \"2.0\"))) := by decide +kernel\n"
                   "#print axioms neg_literal_not_flat\n#print axioms signed_base_pow_paren_wrong\n")
        # wave 6: every equation owns its tree object (probe: identity of the identifier node of `rate * 2` in root / Plant A / Plant B)
        try:
            own_rows = probe_tree_ownership()
        except BaseException as ex:
            own_rows = [("PROBE-FAILED " + type(ex).__name__, 0, ""), ("PROBE-FAILED", 0, "")]
        owned = len({c for _, c, _ in own_rows}) == len(own_rows) and len(own_rows) >= 4
        chk.notes["probe"]["tree_ownership"] = own_rows
        eqn_rows = ", ".join(f"⟨{pyfrag.lean_str(mn)}, {c}, .bin .mul (.id \"rate\") (.num \"2.0\")⟩" for mn, c, _ in own_rows)
        ob += f"def probedEqns : List Eqn := [{eqn_rows}]\n"
        rr_ok = ROOT_REF_PROBE == ["rate", "plantA.rate"]
        chk.notes["probe"]["root_reference"] = list(ROOT_REF_PROBE)
        ob += "def probedRootRef : List String := [" + ", ".join(pyfrag.lean_str(x) for x in ROOT_REF_PROBE) + "]\n"
        ob += ("theorem root_ref_resolved : probedRootRef = ids (makeAbs \"plantA\" (.bin .add (.id \".rate\") (.id \"rate\"))) := by decide +kernel\n#print axioms root_ref_resolved\n" if rr_ok else
               "theorem root_ref_not_resolved : probedRootRef ≠ ids (makeAbs \"plantA\" (.bin .add (.id \".rate\") (.id \"rate\"))) := by decide +kernel\n#print axioms root_ref_not_resolved\n#print axioms root_ref_witness\n")
        if owned:
            ob += ("theorem trees_owned : ownedOK probedEqns = true := by decide +kernel\n#print axioms trees_owned\n"
                   "example := owned_resolution probedEqns trees_owned\n")
        else:
            ob += ("theorem trees_shared : ownedOK probedEqns = false := by decide +kernel\n#print axioms trees_shared\n#print axioms shared_tree_witness\n")
        gen = ("import Bptk.Props.C03\nimport Bptk.Gen.C03Cfg\n/-! GENERATED on every run. -/\nnamespace Bptk.C03.Gen\nopen Bptk.Py Bptk.C03\n"
               + ob + "end Bptk.C03.Gen\n")
        return gen, (lit_flat, owned, own_rows, rr_ok)

    gen, (lit_flat, owned, own_rows, rr_ok) = assemble(good)
    ok, why = chk.prove(gen, extra_sources=["Bptk/Gen/C03Cfg.lean", "Bptk/Proofs/PyFrag.lean", "Bptk/Proofs/PySound.lean", "Bptk/Proofs/PyDet.lean",
                                              "Bptk/Core/PyFrag.lean"])
    if not ok and good:
        # the templates look fine one by one but `good cfg` (intended shapes / vocabulary) does not hold: state that instead
        ok2, why2 = chk.prove(assemble(False)[0], extra_sources=["Bptk/Gen/C03Cfg.lean", "Bptk/Proofs/PyFrag.lean", "Bptk/Proofs/PySound.lean",
                                                             "Bptk/Proofs/PyDet.lean", "Bptk/Core/PyFrag.lean"])
        if ok2:
            good, ok, why = False, True, ""
            bad = {"good cfg xmilePrec": "false (kernel): a template no longer has its intended shape or the vocabulary is incomplete — " + why2}
    chk.cov["trusted_base"] = [
        "Lean 4.33 kernel; axioms ⊆ {propext, Classical.choice, Quot.sound}; `decide +kernel` for the per-run obligations on the probed configuration",
        "A1 grammar of the Python fragment (CPython binding powers) — every emitted text is also parsed by ast.parse and compared",
        "XMILE operator table `xmilePrec` = XMILE 1.0 §3.3.1 restricted to what grammar.py accepts (the specification side of the theorem)",
        "placeholder probe of parseExpression + lexer harness/pyfrag.py; that the generator is a token-level substitution is checked per equation (model text = real text)",
        "harness translation IR JSON -> model tree; replication of compile_xmile's plugin chain in build_ir (checked: text of that IR appears in the compiled file)",
        "CPython eval evaluates the parsed tree compositionally; numeric definitions of the builtins themselves (np/math calls, self.ramp, self.rootn) are modelled as opaque calls",
        "delay/smooth helper: the Lean model `smthH` is a transcription of jinja_template.py `smthn` (private memo not modelled: values only); the Cfg fact "
        "`helperKeysNormalise` is a behavioural probe (DELAY1 of TIME, dt 0.1, t 0.4 on a fresh instance); that `grid_time` satisfies `HAdm` on doubles is "
        "exercised by the grid reference on every run (dt 1, 1/4, 0.1, 0.2, 1/3, 1/7 …), proved only in C05's model of the normalisation",
    ]
    chk.assumptions = ["supported grammar: + - * / ^ MOD, unary minus, parentheses, non-chained comparisons, AND/OR between comparisons, NOT(comparison), "
                       "IF THEN ELSE in sentence positions (whole equation, parentheses, arguments, branches), identifiers, the 29 (name, arity) builtins of `vocabulary`",
                       "names: ASCII; declared with blanks/underscores/mixed case, referenced with other case, underscores for blanks, doubled underscores, quotes",
                       "reference arithmetic: IEEE doubles with Python's `%`, `**`, round; equations whose reference value is undefined (division by zero, complex, domain) are not compared",
                       "delay/smooth family (DELAY1/3/N, SMTH3/N, DELAY, DERIVN, NPV): first argument is an identifier (anything else raises at evaluation — loud); delay time, order, "
                       "initial value are literals; DELAY offsets are whole numbers of steps; NPV is compared with its own recurrence on grid indices (step count only); "
                       "values compared with relative tolerance 1e-9 (the reference works on start + k*dt, the code on normalised labels); FORCST raises on this tree and is only recorded"]
    # ---------------- corpus: minimised past failures, replayed first
    cdir = os.path.join(VERIF, "corpus", "C03")
    corpus_seen = {}
    if os.path.isdir(cdir):
        for fn in sorted(os.listdir(cdir)):
            if not fn.endswith(".json"):
                continue
            ent = json.load(open(os.path.join(cdir, fn)))
            fails, seen = replay_dict(ent["replay"])
            corpus_seen[fn] = seen
            chk.case(("corpus", fn), nontrivial=True)
            if fails:
                chk.add_finding(ent["key"], f"corpus/{fn}: {seen}", ent["replay"])
    chk.notes["corpus"] = corpus_seen
    # ---------------- names: model vs sanitizeName
    from BPTK_Py.sdcompiler.plugins import sanitizeName
    rng = chk.rng.fork("c03")
    alphabet = list("abcXYZ019") + [" ", "_", "_", " ", '"', "'", "-", ".", "\\", "n", "\n"]
    name_cases = ["", "a_b", "aB", "My Var", "__x__", ".lead", "..two", "a\\nb", "a\nb", "A-B", "it's", '"q"', "a.b_c", "x_1", "_", "a_", "1st_place"]
    for _ in range(150 if chk.quick else 3000):
        name_cases.append("".join(rng.choice(alphabet) for _ in range(rng.range(1, 9))))
    nreq = ["san " + ",".join(str(ord(ch)) for ch in s) if s else "san" for s in name_cases]
    # ---------------- documents
    d = scratch_dir("bptkverif_c03_")
    stats = {"ops": {}, "fns": {}, "name_shapes": {}, "docs": 0, "equations": 0, "compile_errors": {}, "domain_skipped": 0,
             "values_compared": 0, "unmodelled_ir": 0}
    ndocs = 110 if chk.quick else 2500
    req, meta = [], []
    ref_fail, corr, loud_fail, delay_fail = None, None, None, None
    kind_fail = None
    mod_fail = None
    try:
        nout = drive("C03", nreq)
        for s, r in zip(name_cases, nout):
            real = sanitizeName(s)
            model = "".join(chr(int(x)) for x in r[4:].split(",") if x) if r.startswith("san") else r
            chk.case(("name", s), nontrivial=any(ch in s for ch in ' _"\'-.'), sample=None)
            if real != model and corr is None:
                corr = ("sanitize", s, f"model {model!r}", f"impl {real!r}")
        chk.cov["names_compared"] = len(name_cases)
        # name resolution table needs the model's sanitize of every declared name: one driver call per batch
        docs = chain_docs(stats, rng, chk.quick) + signed_literal_docs(stats, rng) + [make_doc(rng, stats) for _ in range(ndocs)]
        decl = sorted({n for _, eqs, _ in docs for n, _ in eqs})
        sres = drive("C03", ["san " + ",".join(str(ord(ch)) for ch in ("." + n.lower()))for n in decl])
        pyname = {n: "".join(chr(int(x)) for x in r[4:].split(",") if x) for n, r in zip(decl, sres)}
        evals = []
        for di, (xml, eqs, spec) in enumerate(docs):
            stats["docs"] += 1
            resolve = {xcanon(n): pyname[n] for n, _ in eqs}
            try:
                ir, sim, pysrc = real_compile(xml, d, f"d{di}")
            except BaseException as ex:
                key = type(ex).__name__
                stats["compile_errors"][key] = stats["compile_errors"].get(key, 0) + 1
                if corr is None:
                    corr = ("supported-equation-rejected", eqs, f"{type(ex).__name__}: {str(ex)[:300]}", "compiles")
                continue
            ents = {e["name"]: e for m in ir["models"].values() for ents in m["entities"].values() for e in ents}
            env, times = {}, [spec[0], spec[0] + spec[2], spec[0] + 2 * spec[2], spec[1]]
            for n, eq in eqs:
                stats["equations"] += 1
                pn = pyname[n]
                try:
                    toks = xlex(eq, resolve)
                    rt = ref_parse(toks)
                except Unsupp as ex:
                    if corr is None:
                        corr = ("generator-outside-reference-grammar", eq, str(ex), "")
                    continue
                env[pn] = rt
                ent = ents.get(pn)
                if ent is None:
                    if corr is None:
                        corr = ("entity-name", n, f"model {pn!r}", f"impl has {sorted(ents)[:12]}")
                    continue
                G = gen_mod()
                text = str(G.parseExpression(copy.deepcopy(ent["equation_parsed"])))
                if f": lambda t: {text}," not in pysrc and corr is None:
                    corr = ("ir-replication", eq, text, "not in compiled file")
                try:
                    irw = ir_words(copy.deepcopy(ent["equation_parsed"]))
                    pyw = pyfrag.lex(text)
                    cpy = pyfrag.sexp_of_source(text)
                except (Unmodelled, pyfrag.Unsupported, SyntaxError) as ex:
                    stats["unmodelled_ir"] += 1
                    if corr is None:
                        corr = ("unmodelled-ir", eq, f"{type(ex).__name__}: {ex}", text)
                    continue
                xw = xwords(toks)
                req.append("eq " + str(len(xw)) + " " + " ".join(xw + irw))
                meta.append((eq, text, pyw, cpy, ref_sexp(rt)))
                chk.case(("eq", eq), nontrivial=len(toks) > 3, sample={"equation": eq, "python": text})
            for n, eq in eqs:
                evals.append((di, n, eq, pyname[n], env, spec, sim, times))
        # ---------------- wave 6: documents with modules; equation texts repeated across models
        nmod = 10 if chk.quick else 120
        mdocs = [make_module_doc(rng) for _ in range(nmod)]
        mnames = sorted({x for models, _ in mdocs for mn, eqs in models for x in [mn] + [n for n, _ in eqs] if x})
        mres = drive("C03", ["san " + ",".join(str(ord(ch)) for ch in ("." + n.lower())) for n in mnames])
        msan = {n: "".join(chr(int(x)) for x in r[4:].split(",") if x) for n, r in zip(mnames, mres)}
        mstat = stats.setdefault("modules", {"documents": 0, "models": 0, "equations": 0, "values_compared": 0, "repeated_texts": 0})
        mevals = []
        for mi_, (models, spec) in enumerate(mdocs):
            py, res = module_tables(models, lambda n: msan[n])
            try:
                ir, sim, pysrc = real_compile(module_doc_xml(models, spec), d, f"md{mi_}")
            except BaseException as ex:
                if corr is None:
                    corr = ("supported-equation-rejected", [[mn, es] for mn, es in models], f"{type(ex).__name__}: {str(ex)[:300]}", "module document compiles")
                continue
            mstat["documents"] += 1
            mstat["models"] += len(models)
            ents = {e["name"]: e for m_ in ir["models"].values() for ents_ in m_["entities"].values() for e in ents_}
            env = {}
            seen_texts = {}
            for mname, eqs in models:
                for n, eq in eqs:
                    mstat["equations"] += 1
                    seen_texts[eq] = seen_texts.get(eq, 0) + 1
                    pn = py[(mname, n)]
                    try:
                        toks = xlex(eq, res[mname])
                        rt = ref_parse(toks)
                    except Unsupp as ex:
                        if corr is None:
                            corr = ("generator-outside-reference-grammar", eq, str(ex), "")
                        continue
                    env[pn] = rt
                    ent = ents.get(pn)
                    if ent is None:
                        if corr is None:
                            corr = ("entity-name", (mname, n), f"model {pn!r}", f"impl has {sorted(ents)[:14]}")
                        continue
                    text = str(gen_mod().parseExpression(copy.deepcopy(ent["equation_parsed"])))
                    try:
                        irw = ir_words(copy.deepcopy(ent["equation_parsed"]))
                        pyw = pyfrag.lex(text)
                        cpy = pyfrag.sexp_of_source(text)
                    except (Unmodelled, pyfrag.Unsupported, SyntaxError) as ex:
                        stats["unmodelled_ir"] += 1
                        if corr is None:
                            corr = ("unmodelled-ir", eq, f"{type(ex).__name__}: {ex}", text)
                        continue
                    xw = xwords(toks)
                    req.append("eq " + str(len(xw)) + " " + " ".join(xw + irw))
                    meta.append((f"[model {mname!r}] {eq}", text, pyw, cpy, ref_sexp(rt)))
                    chk.case(("modeq", mname, eq), nontrivial=True, sample={"model": mname, "equation": eq, "python": text})
            mstat["repeated_texts"] += sum(1 for v in seen_texts.values() if v > 1)
            mevals.append((models, spec, py, env, sim))
        mod_fail = None
        for models, spec, py, env, sim in mevals:
            for (mname, n), pn in py.items():
                if pn not in env:
                    continue
                for t in [spec[0], spec[0] + spec[2], spec[1]]:
                    try:
                        exp = ref_eval(env[pn], t, env, spec[:3])
                    except (Domain, Unsupp):
                        continue
                    try:
                        got = sim.equation(pn, t)
                    except BaseException as ex:
                        got = ex
                    mstat["values_compared"] += 1
                    if (isinstance(got, BaseException) or not same_val(got, exp)) and mod_fail is None:
                        mod_fail = (models, spec, pn)
        # ---------------- wave 7: equations in <flow>, <flow non_negative>, <stock> positions
        kstat = stats.setdefault("entity_kinds", {"documents": 0, "values_compared": 0, "by_kind": {}})
        for _ in range(8 if chk.quick else 150):
            items, kspec = make_kind_doc(rng, stats)
            kstat["documents"] += 1
            for _n, kd, _e in items:
                kstat["by_kind"][kd] = kstat["by_kind"].get(kd, 0) + 1
            kf, cnt = eval_kinds(items, kspec)
            kstat["values_compared"] += cnt
            chk.case(("kinds", tuple(items)), nontrivial=True)
            if kf is not None and kind_fail is None:
                kind_fail = (items, kspec, kf)
        # ---------------- wave 7: a second evaluation (memo hit, reversed order) returns the same values; compiling the first documents
        # again after all the others yields the same file (no state carried from one compile_xmile call to the next)
        rstat = stats.setdefault("repeat", {"revaluated": 0, "recompiled": 0})
        for di, n, eq, pn, env, spec, sim, times in reversed(evals[:400]):
            for t in reversed(times):
                try:
                    v1 = sim.equation(pn, t); v2 = sim.equation(pn, t)
                except BaseException:
                    continue
                rstat["revaluated"] += 1
                if not (v1 == v2 or (v1 != v1 and v2 != v2)) and corr is None:
                    corr = ("second-evaluation-differs", eq, repr(v1), repr(v2))
        for di in range(min(3, len(docs))):
            xml, eqs, spec = docs[di]
            try:
                first = open(os.path.join(d, f"d{di}.py")).read()
                _ir, _sim, again = real_compile(xml, d, f"d{di}")
            except BaseException:
                continue
            rstat["recompiled"] += 1
            if first != again and corr is None:
                corr = ("recompilation-differs", [e for _, e in eqs][:3], "first compilation", "compilation after all other documents")
        out = drive("C03", req) if req else []
        for (eq, text, pyw, cpy, rsx), r in zip(meta, out):
            if corr is not None:
                break
            parts = r.split("\t")
            if len(parts) != 5 or not parts[0].startswith("ok parse=1"):
                corr = ("driver-rejects", eq, r[:300], text); break
            flags = dict(x.split("=") for x in parts[0].split(" ")[1:])
            if parts[3] != " ".join(pyw):
                corr = ("model-text-vs-real-text", eq, parts[3], " ".join(pyw))
            elif any(flags.get(k) != "1" for k in ("flatx", "wl", "flatir", "same", "known", "valid", "knownir", "irok", "vflat")) or flags.get("compile") != "text":
                corr = ("translation-validation", eq, parts[0], text)
            elif parts[1] != rsx:
                corr = ("reference-parsers-differ", eq, parts[1], rsx)
            elif parts[2] != parts[4]:
                corr = ("text-does-not-parse-to-image", eq, f"trans {parts[2]}", f"parse {parts[4]}")
            elif parts[4] != cpy:
                corr = ("lean-parse-vs-cpython", eq, parts[4], cpy)
        chk.cov["traces_validated_against_impl"] = len(meta)
        # ---------------- reference check: values
        for di, n, eq, pn, env, spec, sim, times in evals:
            if pn not in env:
                continue
            for t in times:
                try:
                    exp = ref_eval(env[pn], t, env, spec[:3])
                except Domain:
                    stats["domain_skipped"] += 1
                    continue
                except Unsupp:
                    continue
                try:
                    got = sim.equation(pn, t)
                except BaseException as ex:
                    got = ex
                stats["values_compared"] += 1
                if (isinstance(got, BaseException) or not same_val(got, exp)) and ref_fail is None:
                    ref_fail = (docs[di], n, eq, t, got, exp)
        # ---------------- unsupported equations must raise
        loud = {}
        for i, (form, tmpl) in enumerate(MALFORMED):
            eq = tmpl.format("a", "b")
            isloud, how = check_loud(form, eq, d, f"m{i}")
            loud.setdefault(form, []).append((eq, how))
            chk.case(("malformed", eq), nontrivial=True)
            if not isloud and loud_fail is None:
                loud_fail = (form, eq, how)
        stats["malformed"] = {k: [h for _, h in v] for k, v in loud.items()}
        # ---------------- delay / smooth family against an independent grid reference
        delay_fail = run_delay_family(chk, rng, d, stats)
    finally:
        shutil.rmtree(d, ignore_errors=True)
    chk.cov["distribution"] = stats
    chk.cov["rule"] = ("seeded XMILE documents (3-5 constants + 4-7 equations each, names in 6 shapes, references in 5 spellings, keyword/function case, "
                       "blanks, redundant parentheses); per equation: Lean driver validation (reference reading prints back, IR kept the tokens, model text = "
                       "real text = text of the reading, text parses to the image of the reading — Lean parser and ast.parse), reference parsers agree; "
                       "per variable × 4 times: real value = independent XMILE evaluator; 12 unsupported forms must raise; sanitizeName model vs code on "
                       "random ASCII names. Systematic: a signed literal, parenthesised and bare, at every operand position of every operator and vocabulary builtin "
                       "(~550 equations, both tiers); operator chains on one precedence level: every operator pair/triple × operand patterns over {identifier, "
                       "positive literal, negative literal, parenthesised term} of length 3-4, literal-literal neighbours after - / ^ MOD at start, middle, end, "
                       "spelled with / without blanks and with redundant parentheses (~490 quick, ~3 300 thorough). Delay/smooth family: lattice dt × start × input stream, every builtin at every grid point ascending on one instance and "
                       "at two late points on fresh instances, against the cascade / shift / difference-quotient definitions on grid indices. "
                       "distinct = canonical input; non-trivial = more than 3 tokens / name with separator or quote characters")
    # ---------------- decide
    if ref_fail is not None:
        (xml, eqs, spec), n, eq, t, got, exp = ref_fail
        small = shrink_doc(eqs, spec, n)
        chk.add_finding("value:" + classify(eq), f"variable {n!r} = {small['equation']} evaluates to {small['observed']} at t={small['t']}, XMILE semantics give {small['expected']}; emitted {small['python']}",
                        small)
    if kind_fail is not None:
        items, kspec, kf = kind_fail
        small = shrink_kinds(items, kspec, kf["variable"]) or kf
        chk.add_finding("value:entity-kind", f"<{small['entity']}> {small['variable']!r} = {small['equation']} evaluates to {small['observed']} at t={small['t']}; "
                        f"XMILE semantics (biflow = equation, uniflow = max(0, equation), stock without flows = initial value at the start time) give {small['expected']}; "
                        f"emitted {small['python']}", small)
    if mod_fail is not None:
        models, spec, pn = mod_fail
        small = shrink_modules(models, spec, pn) or eval_modules(models, spec, pn) or {"kind": "modules", "models": [[mn, [list(x) for x in es]] for mn, es in models],
                                                                                      "spec": list(spec), "variable": pn, "observed": "?", "expected": "?"}
        mkey = "value:root-qualified-name" if re.search(r"(^|[^\w.])\.[A-Za-z_]", small.get("equation") or "") else "value:module-reference"
        chk.add_finding(mkey, f"model {small.get('model')!r}: variable {small['variable']!r} = {small.get('equation')} evaluates to {small['observed']} at "
                        f"t={small.get('t')}, XMILE semantics (unqualified names mean the variables of the model that contains the equation) give {small['expected']}; "
                        f"emitted {small.get('python')}", small)
    for fkey, r in (delay_fail or {}).items():
        chk.add_finding(fkey, f"{r.get('builtin')} {r['variables'][-1][1]} with input {r['variables'][0][1]}, start {r['start']}, dt "
                        f"{'1/' if r['reciprocal'] else ''}{r['dt_text']}: value at grid point {r.get('k')} (t={r.get('t')}, {r.get('order')}) is {r['observed']}, "
                        f"the definition on the time grid gives {r['expected']}", r)
    if loud_fail is not None:
        form, eq, how = loud_fail
        chk.add_finding("silent:" + form, f"unsupported equation {eq!r} does not fail: {how}", {"kind": "malformed", "form": form, "equation": eq, "observed": how})
    if not good and ref_fail is None and loud_fail is None and delay_fail is None:
        chk.add_finding("obligation", f"configuration not good ({bad or missing or 'unknown builtin does not raise'}) and no failing equation found",
                        {"theorem": "Bptk.C03.Gen.cfg_good", "not_ok": bad, "missing": missing, "witnesses": witnesses}, found_input=False)
    if not rr_ok and mod_fail is None and ref_fail is None:
        chk.add_finding("obligation", f"`.rate + rate` in module Plant A resolves to {ROOT_REF_PROBE} (a leading period addresses the root model) and no wrong value was found",
                        {"theorem": "Bptk.C03.Gen.root_ref_not_resolved"}, found_input=False)
    if not owned and mod_fail is None and ref_fail is None:
        chk.add_finding("obligation", f"parse_xmile hands one tree object to several equations (rows {own_rows}) and no wrong value was found",
                        {"theorem": "Bptk.C03.Gen.trees_shared"}, found_input=False)
    if not lit_flat and ref_fail is None and loud_fail is None and not delay_fail:
        chk.add_finding("obligation", f"a signed literal is no longer printed flat ({chk.notes['probe']['negLit']!r}; ^(-2, 2) -> {chk.notes['probe']['negLitPow']!r}) and no failing equation found",
                        {"theorem": "Bptk.C03.Gen.neg_literal_not_flat"}, found_input=False)
    if not ok:
        chk.add_finding("obligation", f"proof obligations of C03 no longer check: {why}", {"theorem": "Bptk.C03.Gen.*", "detail": why}, found_input=False)
    if corr is not None and ref_fail is None and loud_fail is None and mod_fail is None:
        kind, a, b2, c2 = corr
        chk.add_finding("correspondence", f"{kind}: {a!r}: {b2} vs {c2}", {"correspondence": kind, "input": a, "model": b2, "impl": c2}, found_input=False)
    chk.notes["witnesses"] = witnesses


def classify(eq):
    m = re.search(r"(SQRT|SAFEDIV|PERCENT|INIT|STEP)\s*\(", eq, flags=re.I)
    return "builtin-operand-grouping" if m else "grouping"


def eval_one(eqs, spec, name):
    """compile a document and compare variable `name` with the reference at the 4 probe times; returns first failure or None"""
    d = scratch_dir("bptkverif_c03r_")
    try:
        from BPTK_Py.sdcompiler.plugins import sanitizeName
        pyname = {n: sanitizeName("." + n.lower()) for n, _ in eqs}
        resolve = {xcanon(n): pyname[n] for n, _ in eqs}
        try:
            ir, sim, pysrc = real_compile(doc_xml(eqs, spec), d, "r")
        except BaseException as ex:
            return None
        env = {}
        for n, eq in eqs:
            try:
                env[pyname[n]] = ref_parse(xlex(eq, resolve))
            except Unsupp:
                return None
        pn = pyname[name]
        m = re.search(r"'%s'\s*: lambda t: (.*),\n" % re.escape(pn), pysrc)
        for t in [spec[0], spec[0] + spec[2], spec[0] + 2 * spec[2], spec[1]]:
            try:
                exp = ref_eval(env[pn], t, env, spec[:3])
            except (Domain, Unsupp):
                continue
            try:
                got = sim.equation(pn, t)
            except BaseException as ex:
                got = ex
            if isinstance(got, BaseException) or not same_val(got, exp):
                return {"kind": "value", "variables": [list(x) for x in eqs], "spec": list(spec), "variable": name, "equation": dict(eqs)[name],
                        "t": t, "observed": repr(got), "expected": repr(exp), "python": m.group(1) if m else None}
        return None
    finally:
        shutil.rmtree(d, ignore_errors=True)


def shrink_doc(eqs, spec, name):
    """keep the failing variable and what it needs; replace other equations by their constant values where the failure persists"""
    eqs = list(eqs)
    cur = eval_one(eqs, spec, name)
    if cur is None:
        return {"kind": "value", "variables": [list(x) for x in eqs], "spec": list(spec), "variable": name, "equation": dict(eqs)[name],
                "t": None, "observed": "?", "expected": "?", "python": None}
    for i in range(len(eqs) - 1, -1, -1):
        if eqs[i][0] == name:
            continue
        for cand in (None, "3"):
            trial = [e for j, e in enumerate(eqs) if j != i] if cand is None else [e if j != i else (e[0], cand) for j, e in enumerate(eqs)]
            r = eval_one(trial, spec, name)
            if r is not None:
                eqs, cur = trial, r
                break
    return cur


def replay_dict(r):
    """re-run one stored input on the current tree; returns (still_fails, what was seen)"""
    if r.get("kind") == "value":
        eqs = [tuple(x) for x in r["variables"]]
        res = eval_one(eqs, tuple(r["spec"]), r["variable"])
        if res is None:
            return False, f"{r['variable']} = {r['equation']}: real value equals the XMILE reference value at all probe times"
        return True, f"{res['variable']} = {res['equation']} at t={res['t']}: observed {res['observed']}, expected {res['expected']}; python {res['python']}"
    if r.get("kind") == "kinds":
        res, _ = eval_kinds([tuple(x) for x in r["items"]], tuple(r["spec"]), r["variable"])
        if res is None:
            return False, f"{r['variable']}: real value equals the XMILE reference value for its entity kind"
        return True, f"<{res['entity']}> {res['variable']} = {res['equation']} at t={res['t']}: observed {res['observed']}, expected {res['expected']}; python {res['python']}"
    if r.get("kind") == "modules":
        res = eval_modules([(mn, [tuple(x) for x in es]) for mn, es in r["models"]], tuple(r["spec"]), r["variable"])
        if res is None:
            return False, f"{r['variable']}: real value equals the XMILE reference value (unqualified names resolved in the containing model)"
        return True, f"model {res['model']!r}: {res['variable']} = {res['equation']} at t={res['t']}: observed {res['observed']}, expected {res['expected']}; python {res['python']}"
    if r.get("kind") == "delay":
        got = delay_replay(r)
        try:
            same = same_val_tol(float(got), float(r["expected"]))
        except Exception:
            same = False
        return (not same), (f"{r['variables'][-1][1]} (input {r['variables'][0][1]}, start {r['start']}, dt {'1/' if r['reciprocal'] else ''}{r['dt_text']}) "
                            f"at t={r.get('t')}: observed {got}, expected {r['expected']}")
    if r.get("kind") == "malformed":
        d = scratch_dir("bptkverif_c03r_")
        try:
            isloud, how = check_loud(r["form"], r["equation"], d, "r")
        finally:
            shutil.rmtree(d, ignore_errors=True)
        return (not isloud), f"{r['equation']!r}: {how}"
    return True, json.dumps(r, indent=1)[:2000]


def replay(path):
    quiet_bptk_logging()
    logging.getLogger().setLevel(logging.CRITICAL)
    fails, seen = replay_dict(json.load(open(path))["replay"])
    print(seen)
    return 1 if fails else 0
