"""C10 — arrayed equations compute what the same numpy operation computes.

Probe + Gen obligation + correspondence (exhaustive over shapes x operator forms x operand orders x
named/indexed: the real per-element function strings, lexed, against the Lean model's `pr` tokens) +
reference check independent of Lean (real element values against numpy; mismatches must raise; seeded
nested expressions for the operator-operand path of `dot`)."""
import itertools, math
from common import *
import pyfrag

PREFIX = "lambda model, t: "
LETTERS = "abcdefgh"


# ------------------------------------------------------------------ operand descriptors
# ("num", literal) | ("el", keys, inner, named)   keys/inner: tuples of ("i", n) | ("s", name)
def ikeys(n):
    return tuple(("i", k) for k in range(n))


def skeys(names):
    return tuple(("s", x) for x in names)


def kstr(k):
    return str(k[1])


def d_scalar():
    return ("el", (), (), False)


def d_vec(m):
    return ("el", ikeys(m), (), False)


def d_mat(m, n):
    return ("el", ikeys(m), ikeys(n), False)


def d_nvec(names):
    return ("el", skeys(names), (), True)


def d_nmat(rows, cols):
    return ("el", skeys(rows), skeys(cols), True)


def is_arr(d):
    return d[0] == "el" and len(d[1]) > 0


def shape_of(d):
    """numpy shape of the operand's value: () | (m,) | (m, n)"""
    if d[0] == "num" or not d[1]:
        return ()
    return (len(d[1]),) if not d[2] else (len(d[1]), len(d[2]))


def wire_operand(d, name):
    if d[0] == "num":
        return "N:" + d[1]
    def ks(t):
        return ",".join(k[0] + str(k[1]) for k in t) or "-"
    return f"E:{name}:{1 if d[3] else 0}:{ks(d[1])}:{ks(d[2])}"


def describe(d):
    if d[0] == "num":
        return d[1]
    if not d[1]:
        return "scalar"
    tag = "named " if d[3] else ""
    if not d[2]:
        return f"{tag}vector[{','.join(kstr(k) for k in d[1])}]" if d[3] else f"vector {len(d[1])}"
    return (f"{tag}matrix[{','.join(kstr(k) for k in d[1])}]x[{','.join(kstr(k) for k in d[2])}]" if d[3]
            else f"matrix {len(d[1])}x{len(d[2])}")


# ------------------------------------------------------------------ values (small integers and dyadics, never 0)
POOL = [1.0, 2.0, 3.0, -1.0, -2.0, 4.0, 0.5, -0.5, 1.5, 5.0, -3.0, 0.25, 6.0, -4.0, 7.0, 2.5]


def values_for(d, salt):
    """deterministic value table {key path tuple: float} of an operand; salt >= 100 selects a table WITH zeros
    (100: all zero, 101/105: first row / first entries zero, 102/107: alternating zeros) — sparse operands"""
    if d[0] == "num":
        return {(): float(d[1])}
    if salt >= 100:
        mode = salt % 3 if salt % 100 < 5 else (salt + 1) % 3
        if not d[1]:
            return {(): 0.0 if mode == 0 else POOL[salt % len(POOL)]}
        out, c = {}, 0
        for i, k in enumerate(d[1]):
            cols = d[2] or [None]
            for j, l in enumerate(cols):
                z = mode == 0 or (mode == 1 and i == 0) or (mode == 2 and (i + j) % 2 == 0)
                out[(kstr(k),) if l is None else (kstr(k), kstr(l))] = 0.0 if z else POOL[(c + salt) % len(POOL)]
                c += 1
        return out
    if not d[1]:
        return {(): POOL[(3 + salt) % len(POOL)]}
    out, c = {}, salt
    for k in d[1]:
        if not d[2]:
            out[(kstr(k),)] = POOL[c % len(POOL)]; c += 1
        else:
            for l in d[2]:
                out[(kstr(k), kstr(l))] = POOL[c % len(POOL)]; c += 3
            c += 1
    return out


def build(model, name, d, vals, kind="converter"):
    """create the operand on the real model; numbers stay Python numbers"""
    if d[0] == "num":
        x = float(d[1])
        return int(d[1]) if "." not in d[1] and "e" not in d[1] else x
    e = getattr(model, kind)(name)
    if not d[1]:
        e.equation = vals[()]
    elif d[3]:
        if not d[2]:
            e.setup_named_vector({kstr(k): vals[(kstr(k),)] for k in d[1]})
        else:
            e.setup_named_matrix({kstr(k): {kstr(l): vals[(kstr(k), kstr(l))] for l in d[2]} for k in d[1]})
    else:
        if not d[2]:
            e.setup_vector(len(d[1]), [vals[(kstr(k),)] for k in d[1]])
        else:
            e.setup_matrix([len(d[1]), len(d[2])], [[vals[(kstr(k), kstr(l))] for l in d[2]] for k in d[1]])
    return e


def new_model():
    from BPTK_Py import Model
    return Model(starttime=0.0, stoptime=2.0, dt=1.0, name="c10")


# ------------------------------------------------------------------ the real side
def apply_form(form, a, b):
    if form == "add":
        return a + b
    if form == "sub":
        return a - b
    if form == "mul":
        return a * b          # number * element is NumericalMultiplication (request `nmul`)
    if form == "div":
        return a / b
    if form == "neg":
        return -a
    if form == "dot":
        return a.dot(b)
    raise ValueError(form)


def fs_tokens(fs):
    if not fs.startswith(PREFIX):
        raise pyfrag.Unsupported("function string prefix: " + fs[:40])
    return " ".join(pyfrag.lex(fs[len(PREFIX):]))


def observe(R):
    """canonical description of what the assignment produced: (wire line, {key path: value at t=1})"""
    vals = {}
    if not R.arrayed:
        vals[()] = R(1.0)
        return "scalar | " + fs_tokens(R._function_string), vals
    keys = list(R._elements.equations)
    first = R[keys[0]]
    if first._elements.vector_size() == 0:
        parts = []
        for k in keys:
            parts += [k, fs_tokens(R[k]._function_string)]
            vals[(k,)] = R[k](1.0)
        return f"vector {1 if R.named_arrayed else 0} | " + " | ".join(parts), vals
    parts, n = [], None
    for k in keys:
        inner = list(R[k]._elements.equations)
        n = len(inner) if n is None else n
        for l in inner:
            parts.append(fs_tokens(R[k][l]._function_string))
            vals[(k, l)] = R[k][l](1.0)
    return f"matrix {len(keys)} {n} | " + " | ".join(parts), vals


def run_real(form, da, db, salt=0):
    """returns (wire line | 'none', values | None, exception text | None, value tables of the operands)"""
    va, vb = values_for(da, salt), values_for(db, salt + 5) if db is not None else None
    m = new_model()
    try:
        kind = "constant" if salt >= 100 else "converter"      # sparse tables are held by constants (literal zeros)
        a = build(m, "A", da, va, kind)
        b = build(m, "B", db, vb, kind) if db is not None else None
        R = m.converter("R")
        R.equation = apply_form(form, a, b)
        line, vals = observe(R)
        return line, vals, None, va, vb
    except pyfrag.Unsupported:
        raise
    except Exception as ex:
        return "none", None, f"{type(ex).__name__}: {ex}", va, vb


def run_real_agg(agg, d, salt=0):
    va = values_for(d, salt)
    m = new_model()
    try:
        a = build(m, "A", d, va)
        R = m.converter("R")
        k = agg.split(":")
        op = {"sum": a.arr_sum, "prod": a.arr_prod, "mean": a.arr_mean, "median": a.arr_median,
              "std": a.arr_stddev, "size": a.arr_size}.get(k[0])
        R.equation = op() if op else a.arr_rank(int(k[1]))
        line, vals = observe(R)
        return line, vals, None, va
    except pyfrag.Unsupported:
        raise
    except Exception as ex:
        return "none", None, f"{type(ex).__name__}: {ex}", va


# ------------------------------------------------------------------ reference semantics (numpy, independent of Lean)
def np_array(d, vals):
    import numpy as np
    if not is_arr(d):
        return np.float64(vals[()])
    if not d[2]:
        return np.array([vals[(kstr(k),)] for k in d[1]])
    return np.array([[vals[(kstr(k), kstr(l))] for l in d[2]] for k in d[1]])


def spec(form, da, db, va, vb):
    """expected {key path: value} by the numpy operation, or None when the operands do not match
    (different shapes / different index names): then the code must raise."""
    import numpy as np
    f = {"add": np.add, "sub": np.subtract, "mul": np.multiply, "div": np.divide}.get(form)
    if form == "neg":
        return {k: float(np.negative(v)) for k, v in va.items()}
    if f is not None:
        if is_arr(da) and is_arr(db):
            if shape_of(da) != shape_of(db) or set(va) != set(vb):
                return None
            return {k: float(f(va[k], vb[k])) for k in va}
        if is_arr(da):
            return {k: float(f(va[k], vb[()])) for k in va}
        if is_arr(db):
            return {k: float(f(va[()], vb[k])) for k in vb}
        return {(): float(f(va[()], vb[()]))}
    if form == "dot":
        sa, sb = shape_of(da), shape_of(db)
        if (is_arr(da) and da[3]) or (is_arr(db) and db[3]):
            return None                      # index names: the dot product is positional only
        if sa == () and sb == ():
            return None                      # "use * to multiply values"
        if sa and sb:
            if sa[-1] != sb[0]:
                return None
        r = np.dot(np_array(da, va), np_array(db, vb))
        if r.ndim == 0:
            return {(): float(r)}
        if r.ndim == 1:
            return {(str(i),): float(r[i]) for i in range(r.shape[0])}
        return {(str(i), str(j)): float(r[i][j]) for i in range(r.shape[0]) for j in range(r.shape[1])}
    raise ValueError(form)


def spec_agg(agg, d, va):
    import numpy as np
    if not is_arr(d):
        return None                          # aggregates of a non-array are not constrained
    arr = np_array(d, va)
    k = agg.split(":")
    if k[0] == "rank":
        r, flat = int(k[1]), sorted(arr.flatten().tolist(), reverse=True)
        return flat[r - 1] if 1 <= r <= len(flat) else flat[-1]      # out of range: smallest (as coded)
    if k[0] == "size":
        return float(arr.shape[0])           # the documented "vector size": first dimension
    return float({"sum": np.sum, "prod": np.prod, "mean": np.mean, "median": np.median, "std": np.std}[k[0]](arr))


def close(x, y, exact):
    try:
        x, y = float(x), float(y)
    except Exception:
        return False
    if x == y:
        return True
    return (not exact) and math.isclose(x, y, rel_tol=1e-12, abs_tol=1e-12)


def compare_values(got, exp, exact):
    """first differing key path or None"""
    if set(got) != set(exp):
        return ("keys", sorted(got), sorted(exp))
    for k in sorted(exp):
        if not close(got[k], exp[k], exact):
            return (list(k), got[k], exp[k])
    return None


# ------------------------------------------------------------------ case enumeration
def shape_list(K, quick):
    numbers = [("num", "2.0"), ("num", "-1.5"), ("num", "3")]
    els = [d_scalar()] + [d_vec(m) for m in range(1, K + 1)] + [d_mat(m, n) for m in range(1, K + 1) for n in range(1, K + 1)]
    named = []
    for m in range(1, K + 1):
        names = LETTERS[:m]
        named.append(d_nvec(names))
        if m > 1:
            named.append(d_nvec(names[::-1]))                      # same names, other order
            named.append(d_nvec(names[:-1] + "z"))                 # one different name
    named.append(d_nvec(["1", "0", "2"][:min(K, 3)]))              # numeric names, permuted
    named.append(d_nvec(["0", "1", "2"][:min(K, 3)]))
    named += [d_nmat("xy", "ab"), d_nmat("yx", "ab"), d_nmat("xy", "ba"), d_nmat(["0", "1"], ["0", "1"]),
              d_nmat(["1", "0"], ["1", "0"]), d_nmat("x", "abc"), d_nmat("xyz", "a")]
    return numbers, els, named


def binary_cases(K, quick):
    numbers, els, named = shape_list(K, quick)
    ops = numbers + els + named
    ops.sort(key=lambda d: (len(d[1]) * max(1, len(d[2])) if d[0] == "el" else 0))
    cases = []
    for da in ops:
        for db in ops:
            if da[0] == "num" and db[0] == "num":
                continue
            for form in ("add", "sub", "mul", "div", "dot"):
                if form == "dot" and da[0] == "num":
                    continue                                         # numbers have no .dot
                cases.append((form, da, db))
    for da in els + named:
        cases.append(("neg", da, None))
    cases.sort(key=lambda c: sum(len(d[1]) * max(1, len(d[2])) for d in c[1:] if d is not None and d[0] == "el"))
    return cases


def agg_cases(K):
    numbers, els, named = shape_list(K, False)
    cases = []
    for d in els + named:
        cnt = max(1, len(d[1])) * max(1, len(d[2]))
        ranks = sorted({-2, -1, 0, 1, 2, cnt - 1, cnt, cnt + 1, cnt + 3})
        for g in ["sum", "prod", "mean", "median", "std", "size"] + [f"rank:{r}" for r in ranks]:
            cases.append((g, d))
    return cases


def model_request(form, da, db):
    if form == "neg":
        return f"expand nmul {wire_operand(da, 'A')} N:-1"
    f = form
    if form == "mul" and da[0] == "num":
        f = "nmul"                                                  # x * A  ->  A.__rmul__(x)
    return f"expand {f} {wire_operand(da, 'A')} {wire_operand(db, 'B')}"


def case_text(form, da, db):
    return f"{form}({describe(da)}" + (f", {describe(db)})" if db is not None else ")")


# ------------------------------------------------------------------ nested expressions (reference check only)
class Gen:
    """typed random expression over indexed arrays: .py(model-bound operands) builds the DSL object,
    .np the numpy value; the dot product takes an element on the left (the DSL's API) and any
    expression on the right."""
    def __init__(self, rng):
        self.rng, self.leaves = rng, []

    def leaf(self, shape):
        idx = len(self.leaves)
        self.leaves.append(shape)
        return ("leaf", idx, shape)

    def expr(self, shape, depth):
        r = self.rng
        if depth == 0 or r.chance(1, 5):
            return self.leaf(shape)
        if shape != () and r.chance(2, 5):
            k = r.range(1, 3)
            if len(shape) == 1:
                if r.chance(1, 2):
                    return ("dot", self.leaf((shape[0], k)), self.expr((k,), depth - 1))
                return ("dot", self.leaf((k,)), self.expr((k, shape[0]), depth - 1))
            return ("dot", self.leaf((shape[0], k)), self.expr((k, shape[1]), depth - 1))
        op = r.choice(["add", "sub", "mul", "div"])
        left = self.expr(shape, depth - 1)
        c = r.below(4)
        right = self.expr(shape, depth - 1) if c < 2 else (self.leaf(()) if c == 2 else ("num", r.choice([2.0, -1.5, 0.5])))
        if r.chance(1, 4) and right[0] != "num":
            left, right = right, left
        return (op, left, right)


def tree_text(t):
    if t[0] == "leaf":
        return f"E{t[1]}{list(t[2])}"
    if t[0] == "num":
        return str(t[1])
    if t[0] == "dot":
        return f"{tree_text(t[1])}.dot({tree_text(t[2])})"
    return "(" + tree_text(t[1]) + {"add": "+", "sub": "-", "mul": "*", "div": "/"}[t[0]] + tree_text(t[2]) + ")"


def leaf_desc(shape):
    return d_scalar() if shape == () else (d_vec(shape[0]) if len(shape) == 1 else d_mat(*shape))


def eval_tree(t, els, arrs):
    """(DSL object, numpy value)"""
    import numpy as np
    if t[0] == "leaf":
        return els[t[1]], arrs[t[1]]
    if t[0] == "num":
        return t[1], np.float64(t[1])
    l, ln = eval_tree(t[1], els, arrs)
    r, rn = eval_tree(t[2], els, arrs)
    if t[0] == "dot":
        return l.dot(r), np.dot(ln, rn)
    f = {"add": (lambda a, b: a + b), "sub": (lambda a, b: a - b), "mul": (lambda a, b: a * b), "div": (lambda a, b: a / b)}[t[0]]
    return f(l, r), f(ln, rn)


def run_nested(tree, leaves):
    """returns None (rejected), or first difference, or False (agrees)"""
    import numpy as np
    m = new_model()
    els, arrs = [], []
    try:
        for i, sh in enumerate(leaves):
            d = leaf_desc(sh)
            v = values_for(d, 2 * i + 1)
            els.append(build(m, f"E{i}", d, v))
            arrs.append(np_array(d, v))
        with np.errstate(all="ignore"):
            obj, ref = eval_tree(tree, els, arrs)
        R = m.converter("R")
        R.equation = obj
        _, got = observe(R)
    except pyfrag.Unsupported:
        return None
    except Exception:
        return None
    ref = np.asarray(ref)
    if ref.ndim == 0:
        exp = {(): float(ref)}
    elif ref.ndim == 1:
        exp = {(str(i),): float(ref[i]) for i in range(ref.shape[0])}
    else:
        exp = {(str(i), str(j)): float(ref[i][j]) for i in range(ref.shape[0]) for j in range(ref.shape[1])}
    try:
        d = compare_values(got, exp, exact=False)
    except Exception as ex:
        d = ("evaluation", str(ex), None)
    return d if d is not None else False


FIXED_NESTED = [
    # (text, tree builder over dims) — the operator-operand path of dot, smallest shapes first
    lambda g, m, n: ("dot", g.leaf((m, n)), ("add", ("add", g.leaf((n,)), g.leaf((n,))), g.leaf((n,)))),
    lambda g, m, n: ("dot", g.leaf((m, n)), ("mul", ("add", g.leaf((n, m)), g.leaf((n, m))), g.leaf((n, m)))),
    lambda g, m, n: ("dot", g.leaf((m,)), ("sub", ("mul", g.leaf((m, n)), g.leaf((m, n))), g.leaf((m, n)))),
    lambda g, m, n: ("dot", g.leaf((m, n)), ("add", g.leaf((n,)), g.leaf((n,)))),
    lambda g, m, n: ("mul", ("add", g.leaf((m, n)), g.leaf((m, n))), ("sub", g.leaf((m, n)), g.leaf((m, n)))),
    lambda g, m, n: ("dot", g.leaf((m, n)), ("mul", ("num", 2.0), ("add", g.leaf((n,)), g.leaf((n,))))),
]


# ------------------------------------------------------------------ probes and Gen file
def probe():
    facts = {}
    l, v, _, va, vb = run_real("mul", ("num", "2.0"), d_mat(1, 2))
    facts["number_times_matrix_indexes_elements"] = v is not None and all(v.get(k) == 2.0 * x for k, x in vb.items())
    l, v, _, _, _ = run_real("mul", ("num", "2.0"), d_vec(2))
    facts["number_times_vector_accepted"] = v is not None
    g = Gen(None)
    t = FIXED_NESTED[0](g, 2, 2)
    facts["dot_operand_reindexed_at_every_level"] = run_nested(t, g.leaves) is False
    return facts


def gen_lean(facts):
    return ("import Bptk.Props.C10\n/-! GENERATED by harness/props/c10.py on every run — do not edit.\n"
            f"probed mechanism facts: {facts} -/\n"
            "namespace Bptk.C10.Gen\nopen Bptk.C10 Bptk.Py\n"
            "theorem holds : C10_full := C10_full_holds\n#print axioms holds\n"
            "/-- non-vacuity on a concrete instance, computed by the kernel: a 2x3 · 3 dot product is accepted,\n"
            "its entries are well-levelled; a 2x3 + 3x2 addition is rejected. -/\n"
            "example : (match expand .dot (.el (.mat \"A\" 2 3)) (.el (.vec \"v\" 3)) with\n"
            "    | some (.vector false es) => es.length == 2 && es.all (fun kp => WLb 0 kp.2)\n"
            "    | _ => false) = true ∧\n"
            "    (expand (.ew .add) (.el (.mat \"A\" 2 3)) (.el (.mat \"B\" 3 2))).isNone = true := by decide +kernel\n"
            "end Bptk.C10.Gen\n")


# ------------------------------------------------------------------ the check
def run(chk):
    quiet_bptk_logging()
    facts = probe()
    chk.notes["probes"] = facts
    ok, why = chk.prove(gen_lean(facts), extra_sources=["Bptk/Core/PyFrag.lean", "Bptk/Proofs/PyFrag.lean"])
    K = 3 if chk.quick else 4
    chk.cov["trusted_base"] = [
        "Lean 4.33 kernel; axioms propext, Classical.choice, Quot.sound (audited per run via #print axioms)",
        "hand-written model lean/Bptk/Core/C10.lean of BinaryOperator.__init__ checks, resolve_dimensions, is_named/index_to_string, "
        "Element._handle_arrayed, the arrayed branches of term(), DotOperator.term and the Array*Operator terms; tied to /repo by the exhaustive "
        "token-level correspondence of this check",
        "harness/pyfrag.py lexer (Python tokenize) and CPython's expression grammar = A1 (Bptk.Proofs.PyFrag.parse_print)",
        "numpy: np.mean/np.median/np.std/sorted are opaque functions of the row-major element list (agg_args); the reference check calls numpy itself",
    ]
    chk.assumptions = [
        "target element is a fresh converter (the Stock branch of _handle_arrayed is not modelled)",
        "rows of a matrix have the same keys (named matrices with differing row keys are outside the model)",
        "operands are numbers, scalar elements or arrayed elements; operator operands (nesting) are covered by the numpy reference check only",
        "arr_sum/arr_prod with the default dimension argument '*'",
        "arr_size is the documented vector size (first dimension, len(A)), not numpy's total size",
    ]
    chk.cov["rule"] = (f"all pairs of operands from {{3 number literals, scalar element, vectors 1..{K}, matrices up to {K}x{K}, named vectors (same names / "
                       f"permuted / one differing name / numeric names), named matrices}} x {{+ - * / dot}} (both orders arise from the pair enumeration; number*array = "
                       "NumericalMultiplication), unary minus, and every aggregate (sum prod mean median std size, rank for k in {-2..2, count-1..count+3}) on every shape; "
                       "per case: token equality of every element's function string with the model's output, acceptance equality, values at t=1 against numpy by key, "
                       "mismatching shapes/index names must raise; plus fixed and seeded nested expressions against numpy. non-trivial = at least one arrayed operand")
    chk.cov["exhaustive"] = True
    # ---- real side + requests
    req, real, meta = [], [], []
    violations = {}          # key -> (size, text, replay)
    unsupported = 0
    dist = {}

    def note_violation(key, size, text, replay):
        if key not in violations or size < violations[key][0]:
            violations[key] = (size, text, replay)

    for form, da, db in binary_cases(K, chk.quick):
        try:
            line, vals, exc, va, vb = run_real(form, da, db)
        except pyfrag.Unsupported as u:
            unsupported += 1
            continue
        req.append(model_request(form, da, db)); real.append(line); meta.append((form, da, db))
        nontriv = is_arr(da) or (db is not None and is_arr(db))
        txt = case_text(form, da, db)
        chk.case((form, da, db), nontrivial=nontriv, sample=txt + " -> " + line[:80] if nontriv and form == "dot" and line != "none" else None)
        dist[form] = dist.get(form, 0) + 1
        dist["accepted" if line != "none" else "rejected"] = dist.get("accepted" if line != "none" else "rejected", 0) + 1
        exp = spec(form, da, db, va, vb)
        size = sum(len(d[1]) * max(1, len(d[2])) for d in (da, db) if d is not None and d[0] == "el")
        rep = {"kind": "binary", "form": form, "a": da, "b": db, "salt": 0}
        if exp is None and line != "none":
            note_violation(f"mismatch-accepted:{form}", size, f"{txt}: operands do not match but the equation is accepted ({line[:60]}…)", rep)
        elif exp is not None and line != "none":
            d = compare_values(vals, exp, exact=(form != "div"))
            if d is not None:
                note_violation(f"wrong-value:{'nmul' if req[-1].startswith('expand nmul') else form}", size,
                               f"{txt}: element {d[0]} evaluates to {d[1]}, numpy gives {d[2]}", dict(rep, index=d[0], observed=d[1], expected=d[2]))
            # sparse operands: the same case with zero entries (all-zero, zero row, alternating) — values only
            if form in ("dot", "mul", "add", "sub") and nontriv:
                for zs in (100, 101, 102):
                    try:
                        zline, zvals, zexc, zva, zvb = run_real(form, da, db, zs)
                    except pyfrag.Unsupported:
                        continue
                    dist["zero_tables"] = dist.get("zero_tables", 0) + 1
                    zexp = spec(form, da, db, zva, zvb)
                    if zexp is None or zline == "none":
                        if zline != line and (zline == "none") != (line == "none"):
                            note_violation(f"acceptance-depends-on-values:{form}", size, f"{txt}: accepted with non-zero entries, {'rejected' if zline == 'none' else 'accepted'} with zero entries", dict(rep, salt=zs))
                        continue
                    zd = compare_values(zvals, zexp, exact=True)
                    if zd is not None:
                        note_violation(f"wrong-value:{form}", size, f"{txt} with zero entries (value table {zs}): element {zd[0]} evaluates to {zd[1]!r}, numpy gives {zd[2]}",
                                       dict(rep, salt=zs, index=zd[0], observed=repr(zd[1]), expected=zd[2]))
    n_bin = len(req)
    for g, d in agg_cases(K):
        try:
            line, vals, exc, va = run_real_agg(g, d)
        except pyfrag.Unsupported:
            unsupported += 1
            continue
        req.append(f"agg {g} {wire_operand(d, 'A')}"); real.append(line); meta.append((g, d, None))
        chk.case((g, d), nontrivial=is_arr(d), sample=f"{g}({describe(d)}) -> {line[:80]}" if g.startswith("rank") and is_arr(d) else None)
        dist["agg"] = dist.get("agg", 0) + 1
        exp = spec_agg(g, d, va)
        if exp is not None:
            size = len(d[1]) * max(1, len(d[2]))
            rep = {"kind": "agg", "agg": g, "a": d, "salt": 0}
            if line == "none":
                continue                                             # rejection is never a violation
            if not close(vals[()], exp, exact=g.split(":")[0] in ("sum", "prod", "size", "rank")):
                note_violation(f"wrong-value:{g.split(':')[0]}", size, f"{g}({describe(d)}) evaluates to {vals[()]}, numpy gives {exp}",
                               dict(rep, observed=vals[()], expected=exp))
    chk.cov["op_distribution"] = dist
    chk.cov["unsupported_strings"] = unsupported
    # ---- nested expressions against numpy (reference check only)
    n_nested = n_nested_acc = 0
    dims = [(m, n) for m in range(1, K + 1) for n in range(1, K + 1)]
    dims.sort(key=lambda p: p[0] * p[1])
    for fi, f in enumerate(FIXED_NESTED):
        for (m, n) in dims:
            g = Gen(None)
            t = f(g, m, n)
            d = run_nested(t, g.leaves)
            n_nested += 1
            n_nested_acc += d is not None
            chk.case(("nested", fi, m, n), nontrivial=True)
            if d:
                note_violation("wrong-value:nested-dot-operand" if t[0] == "dot" else "wrong-value:nested", m * n + 100,
                               f"{tree_text(t)}: element {d[0]} evaluates to {d[1]}, numpy gives {d[2]}",
                               {"kind": "nested", "tree": t, "leaves": g.leaves, "index": d[0], "observed": d[1], "expected": d[2]})
    rng = chk.rng.fork("c10-nested")
    for _ in range(300 if chk.quick else 3000):
        g = Gen(rng)
        shape = rng.choice([(), (1,), (2,), (3,), (1, 2), (2, 2), (2, 3), (3, 1)])
        if shape == ():
            t = ("add", ("dot", g.leaf((2,)), g.leaf((2,))), g.leaf(())) if rng.chance(1, 2) else ("mul", ("dot", g.leaf((3,)), g.leaf((3,))), ("num", 2.0))
        else:
            t = g.expr(shape, rng.range(1, 3))
        if t[0] in ("leaf", "num"):
            continue
        d = run_nested(t, g.leaves)
        n_nested += 1
        n_nested_acc += d is not None
        chk.case(("nested-random", tree_text(t)), nontrivial=True, sample=tree_text(t) if d is False and len(chk.cov["samples"]) < 5 else None)
        if d:
            note_violation("wrong-value:nested-dot-operand" if "dot" in tree_text(t) else "wrong-value:nested", 1000 + len(tree_text(t)),
                           f"{tree_text(t)}: element {d[0]} evaluates to {d[1]}, numpy gives {d[2]}",
                           {"kind": "nested", "tree": t, "leaves": g.leaves, "index": d[0], "observed": d[1], "expected": d[2]})
    chk.cov["nested_expressions"] = {"run": n_nested, "accepted": n_nested_acc}
    # ---- model side
    model = drive("C10", req)
    chk.cov["traces_validated_against_impl"] = len(req)
    diffs = [i for i, (a, b) in enumerate(zip(model, real)) if a != b]
    if len(model) != len(real):
        diffs.append(min(len(model), len(real)))
    chk.cov["correspondence_diffs"] = len(diffs)
    # ---- decide
    for key, (size, text, rep) in sorted(violations.items()):
        chk.add_finding(key, text, rep)
    for name, okp in facts.items():
        if not okp and not violations:
            chk.add_finding("probe:" + name, f"mechanism probe {name} failed but no wrong value was found", {"probe": name}, found_input=False)
    if unsupported:
        chk.add_finding("correspondence", f"{unsupported} function strings are outside the Python fragment A1", {"unsupported": unsupported}, found_input=False)
    if not ok:
        chk.add_finding("obligation", f"proof obligations of C10 no longer check: {why}",
                        {"theorem": "Bptk.C10.Gen.holds / Bptk.Props.C10", "detail": why}, found_input=False)
    if diffs and not violations:
        i = diffs[0]
        form, da, db = meta[i] if i < len(meta) else ("?", None, None)
        mt, rt = (model[i] if i < len(model) else ""), (real[i] if i < len(real) else "")
        mparts, rparts = mt.split(" | "), rt.split(" | ")
        j = next((k for k, (x, y) in enumerate(zip(mparts, rparts)) if x != y), min(len(mparts), len(rparts)))
        chk.add_finding("correspondence", f"model and implementation disagree on {len(diffs)} cases; first: {req[i]}",
                        {"correspondence": "Drive/C10 vs BPTK_Py.sddsl (per-element function strings)", "request": req[i],
                         "first_differing_part": j, "model": mparts[j] if j < len(mparts) else None,
                         "impl": rparts[j] if j < len(rparts) else None, "model_head": mt[:80], "impl_head": rt[:80]},
                        found_input=False)


def _tup(x):
    return tuple(_tup(y) for y in x) if isinstance(x, list) else x


def replay(path):
    import json
    quiet_bptk_logging()
    r = json.load(open(path))["replay"]
    kind = r.get("kind")
    if kind == "binary":
        da, db = _tup(r["a"]), (_tup(r["b"]) if r["b"] is not None else None)
        line, vals, exc, va, vb = run_real(r["form"], da, db, r.get("salt", 0))
        exp = spec(r["form"], da, db, va, vb)
        print("case:", case_text(r["form"], da, db)); print("operands:", va, vb)
        print("implementation:", line[:200], vals, exc); print("numpy:", exp)
        if line == "none":
            return 0
        if exp is None:
            return 1
        return 1 if compare_values(vals, exp, exact=(r["form"] != "div")) else 0
    if kind == "agg":
        d = _tup(r["a"])
        line, vals, exc, va = run_real_agg(r["agg"], d, r.get("salt", 0))
        exp = spec_agg(r["agg"], d, va)
        print("case:", r["agg"], describe(d), va); print("implementation:", line[:200], vals, exc); print("numpy:", exp)
        if line == "none" or exp is None:
            return 0
        return 0 if close(vals[()], exp, exact=False) else 1
    if kind == "nested":
        t, leaves = _tup(r["tree"]), [tuple(x) for x in r["leaves"]]
        d = run_nested(t, leaves)
        print("expression:", tree_text(t)); print("first difference (None = rejected, False = agrees):", d)
        return 1 if d else 0
    print("replay names no input:", r)
    return 1
