"""C10 — arrayed equations compute what the same numpy operation computes.

Probe + Gen obligation + correspondence (exhaustive over shapes x operator forms x operand orders x
named/indexed: the real per-element function strings, lexed, against the Lean model's `pr` tokens) +
reference check independent of Lean (real element values against numpy; mismatches must raise; seeded
nested expressions for the operator-operand path of `dot`)."""
import itertools, math
from common import *
import pyfrag

PREFIX = "lambda model, t: "
LETTERS = "abcdefgh"


# ------------------------------------------------------------------ operand descriptors
# ("num", literal) | ("el", keys, inner, named)   keys/inner: tuples of ("i", n) | ("s", name)
def ikeys(n):
    return tuple(("i", k) for k in range(n))


def skeys(names):
    return tuple(("s", x) for x in names)


def kstr(k):
    return str(k[1])


def d_scalar():
    return ("el", (), (), False)


def d_vec(m):
    return ("el", ikeys(m), (), False)


def d_mat(m, n):
    return ("el", ikeys(m), ikeys(n), False)


def d_nvec(names):
    return ("el", skeys(names), (), True)


def d_nmat(rows, cols):
    return ("el", skeys(rows), skeys(cols), True)


def is_arr(d):
    return d[0] == "el" and len(d[1]) > 0


def shape_of(d):
    """numpy shape of the operand's value: () | (m,) | (m, n)"""
    if d[0] == "num" or not d[1]:
        return ()
    return (len(d[1]),) if not d[2] else (len(d[1]), len(d[2]))


def wire_operand(d, name):
    if d[0] == "num":
        return "N:" + d[1]
    def ks(t):
        return ",".join(k[0] + str(k[1]) for k in t) or "-"
    return f"E:{name}:{1 if d[3] else 0}:{ks(d[1])}:{ks(d[2])}"


def describe(d):
    if d[0] == "num":
        return d[1]
    if not d[1]:
        return "scalar"
    tag = "named " if d[3] else ""
    if not d[2]:
        return f"{tag}vector[{','.join(kstr(k) for k in d[1])}]" if d[3] else f"vector {len(d[1])}"
    return (f"{tag}matrix[{','.join(kstr(k) for k in d[1])}]x[{','.join(kstr(k) for k in d[2])}]" if d[3]
            else f"matrix {len(d[1])}x{len(d[2])}")


# ------------------------------------------------------------------ values (small integers and dyadics, never 0)
POOL = [1.0, 2.0, 3.0, -1.0, -2.0, 4.0, 0.5, -0.5, 1.5, 5.0, -3.0, 0.25, 6.0, -4.0, 7.0, 2.5]


def values_for(d, salt):
    """deterministic value table {key path tuple: float} of an operand; salt >= 100 selects a table WITH zeros
    (100: all zero, 101/105: first row / first entries zero, 102/107: alternating zeros) — sparse operands"""
    if d[0] == "num":
        return {(): float(d[1])}
    if 110 <= salt % 1000 < 120:
        # 110: negative zeros everywhere; 111: all entries equal; 112: 0.0 / -0.0 / duplicates mixed; 113: equal negatives
        # (salt // 1000 shifts the cycle: the second operand of a pair)
        # 117: Python ints; 118: many decimals / large / tiny
        cyc = {110: [-0.0], 111: [2.0], 112: [0.0, -0.0, 3.0, 3.0, -0.0], 113: [-1.5], 117: [1, 2, 3, -2, 4],
               118: [0.1, 1.0 / 3.0, 1e15, 1e-7, 123456.789, -0.3]}[salt % 1000]
        if not d[1]:
            return {(): cyc[(salt // 1000) % len(cyc)]}
        out, c = {}, (salt // 1000)
        for k in d[1]:
            for l in (d[2] or [None]):
                out[(kstr(k),) if l is None else (kstr(k), kstr(l))] = cyc[c % len(cyc)]
                c += 1
        return out
    if salt >= 100:
        mode = salt % 3 if salt % 100 < 5 else (salt + 1) % 3
        if not d[1]:
            return {(): 0.0 if mode == 0 else POOL[salt % len(POOL)]}
        out, c = {}, 0
        for i, k in enumerate(d[1]):
            cols = d[2] or [None]
            for j, l in enumerate(cols):
                z = mode == 0 or (mode == 1 and i == 0) or (mode == 2 and (i + j) % 2 == 0)
                out[(kstr(k),) if l is None else (kstr(k), kstr(l))] = 0.0 if z else POOL[(c + salt) % len(POOL)]
                c += 1
        return out
    if not d[1]:
        return {(): POOL[(3 + salt) % len(POOL)]}
    out, c = {}, salt
    for k in d[1]:
        if not d[2]:
            out[(kstr(k),)] = POOL[c % len(POOL)]; c += 1
        else:
            for l in d[2]:
                out[(kstr(k), kstr(l))] = POOL[c % len(POOL)]; c += 3
            c += 1
    return out


def build(model, name, d, vals, kind="converter"):
    """create the operand on the real model; numbers stay Python numbers.
    kind: converter | constant | stock (entries are stocks holding the value as initial value) | flow | timed (converter
    whose entries are computed: time()*(v/2) + v/2, = v at t=1) | default (set up with ONE default value where all
    entries are equal, an int where possible)"""
    if d[0] == "num":
        x = float(d[1])
        return int(d[1]) if "." not in d[1] and "e" not in d[1] else x
    base = {"timed": "converter", "default": "converter"}.get(kind, kind)
    e = getattr(model, base)(name)
    same = len(set(vals.values())) == 1
    if not d[1]:
        if kind == "stock":
            e.initial_value = float(vals[()])
        else:
            e.equation = vals[()]
    elif d[3]:
        if not d[2]:
            e.setup_named_vector({kstr(k): vals[(kstr(k),)] for k in d[1]})
        else:
            e.setup_named_matrix({kstr(k): {kstr(l): vals[(kstr(k), kstr(l))] for l in d[2]} for k in d[1]})
    else:
        one = next(iter(vals.values()))
        if kind == "default" and same:
            one = int(one) if float(one).is_integer() and not d[2] else one
            if not d[2]:
                e.setup_vector(len(d[1]), one)
            else:
                e.setup_matrix([len(d[1]), len(d[2])], float(one))
        elif not d[2]:
            e.setup_vector(len(d[1]), [vals[(kstr(k),)] for k in d[1]])
        else:
            e.setup_matrix([len(d[1]), len(d[2])], [[vals[(kstr(k), kstr(l))] for l in d[2]] for k in d[1]])
    if kind == "timed":
        from BPTK_Py import sd_functions as sd
        if not d[1]:
            e.equation = sd.time() * (vals[()] / 2) + vals[()] / 2
        else:
            for path, v in vals.items():
                cur = e
                for k in path[:-1]:
                    cur = cur[k]
                cur[path[-1]] = sd.time() * (v / 2) + v / 2
    return e


def new_model():
    from BPTK_Py import Model
    return Model(starttime=0.0, stoptime=2.0, dt=1.0, name="c10")


# ------------------------------------------------------------------ the real side
def apply_form(form, a, b):
    if form == "add":
        return a + b
    if form == "sub":
        return a - b
    if form == "mul":
        return a * b          # number * element is NumericalMultiplication (request `nmul`)
    if form == "div":
        return a / b
    if form == "neg":
        return -a
    if form == "dot":
        return a.dot(b)
    raise ValueError(form)


SPREFIX = "lambda model, t : "          # Stock.build_function_string


_LAMBDA = __import__("re").compile(r"^\s*lambda\s+model\s*,\s*t\s*:\s*")


def fs_tokens(fs):
    """tokens of the body of a function string `lambda model, t: <body>` (any spacing of the header)"""
    mm = _LAMBDA.match(fs)
    try:
        if mm:
            return " ".join(pyfrag.lex(fs[mm.end():]))
        raise pyfrag.Unsupported("function string prefix: " + fs[:40])
    except pyfrag.Unsupported:
        # text outside the Python fragment A1: no token comparison possible (counted, reported as a broken
        # correspondence without failing input) — the values are still checked against numpy
        UNSUPPORTED[0] += 1
        return "UNSUPPORTED " + fs.replace("|", "/")


UNSUPPORTED = [0]


def safe_eval(e, t=1.0):
    """value of an element at time t; an evaluation error (ZeroDivisionError, numpy refusing a ragged list)
    is reported as ('err', text) — it is not a refusal of the equation"""
    try:
        return e(t)
    except Exception as ex:
        return ("err", f"{type(ex).__name__}: {ex}")


def observe(R):
    """canonical description of what the assignment produced: (wire line, {key path: value at t=1})"""
    vals = {}
    if not R.arrayed:
        vals[()] = safe_eval(R)
        return "scalar | " + fs_tokens(R._function_string), vals
    keys = list(R._elements.equations)
    first = R[keys[0]]
    if first._elements.vector_size() == 0:
        parts = []
        for k in keys:
            parts += [k, fs_tokens(R[k]._function_string)]
            vals[(k,)] = safe_eval(R[k])
        return f"vector {1 if R.named_arrayed else 0} | " + " | ".join(parts), vals
    parts, n = [], None
    for k in keys:
        inner = list(R[k]._elements.equations)
        n = len(inner) if n is None else n
        for l in inner:
            parts.append(fs_tokens(R[k][l]._function_string))
            vals[(k, l)] = safe_eval(R[k][l])
    return f"matrix {len(keys)} {n} | " + " | ".join(parts), vals


def run_real(form, da, db, salt=0, kind=None):
    """returns (wire line | 'none', values | None, exception text | None, value tables of the operands)"""
    va, vb = values_for(da, salt), values_for(db, (salt + 5) if salt < 110 else (salt + 2000)) if db is not None else None
    m = new_model()
    try:
        if kind is None:
            kind = "constant" if salt >= 100 else "converter"      # sparse tables are held by constants (literal zeros)
        a = build(m, "A", da, va, kind)
        b = build(m, "B", db, vb, kind) if db is not None else None
        R = m.converter("R")
        R.equation = apply_form(form, a, b)
        line, vals = observe(R)
        return line, vals, None, va, vb
    except pyfrag.Unsupported:
        raise
    except Exception as ex:
        return "none", None, f"{type(ex).__name__}: {ex}", va, vb


def run_real_agg(agg, d, salt=0, kind="converter", dim=None):
    va = values_for(d, salt)
    m = new_model()
    try:
        a = build(m, "A", d, va, kind)
        R = m.converter("R")
        k = agg.split(":")
        op = {"sum": a.arr_sum, "prod": a.arr_prod, "mean": a.arr_mean, "median": a.arr_median,
              "std": a.arr_stddev, "size": a.arr_size}.get(k[0])
        if dim is not None:
            R.equation = op(dim)
        else:
            R.equation = op() if op else a.arr_rank(int(k[1]))
        line, vals = observe(R)
        return line, vals, None, va
    except pyfrag.Unsupported:
        raise
    except Exception as ex:
        return "none", None, f"{type(ex).__name__}: {ex}", va


# ------------------------------------------------------------------ reference semantics (numpy, independent of Lean)
def np_array(d, vals):
    import numpy as np
    if not is_arr(d):
        return np.float64(vals[()])
    if not d[2]:
        return np.array([vals[(kstr(k),)] for k in d[1]])
    return np.array([[vals[(kstr(k), kstr(l))] for l in d[2]] for k in d[1]])


def spec(form, da, db, va, vb):
    """expected {key path: value} by the numpy operation, or None when the operands do not match
    (different shapes / different index names): then the code must raise."""
    import numpy as np
    f = {"add": np.add, "sub": np.subtract, "mul": np.multiply, "div": np.divide}.get(form)
    if form == "neg":
        return {k: float(np.negative(v)) for k, v in va.items()}
    if f is not None:
        def g(x, y):
            if form == "div" and y == 0:
                return OOD                   # division by zero: out of the value oracle's domain
            r = float(f(x, y))
            return r if math.isfinite(r) else OOD
        if is_arr(da) and is_arr(db):
            if shape_of(da) != shape_of(db) or set(va) != set(vb):
                return None
            return {k: g(va[k], vb[k]) for k in va}
        if is_arr(da):
            return {k: g(va[k], vb[()]) for k in va}
        if is_arr(db):
            return {k: g(va[()], vb[k]) for k in vb}
        return {(): g(va[()], vb[()])}
    if form == "dot":
        sa, sb = shape_of(da), shape_of(db)
        if (is_arr(da) and da[3]) or (is_arr(db) and db[3]):
            return None                      # index names: the dot product is positional only
        if sa == () and sb == ():
            return None                      # "use * to multiply values"
        if sa and sb:
            if sa[-1] != sb[0]:
                return None
        r = np.dot(np_array(da, va), np_array(db, vb))
        if r.ndim == 0:
            return {(): float(r)}
        if r.ndim == 1:
            return {(str(i),): float(r[i]) for i in range(r.shape[0])}
        return {(str(i), str(j)): float(r[i][j]) for i in range(r.shape[0]) for j in range(r.shape[1])}
    raise ValueError(form)


def spec_agg(agg, d, va):
    import numpy as np
    if not is_arr(d):
        return None                          # aggregates of a non-array are not constrained
    arr = np_array(d, va)
    k = agg.split(":")
    if k[0] == "rank":
        r, flat = int(k[1]), sorted(arr.flatten().tolist(), reverse=True)
        return flat[r - 1] if 1 <= r <= len(flat) else flat[-1]      # out of range: smallest (as coded)
    if k[0] == "size":
        return float(arr.shape[0])           # the documented "vector size": first dimension
    return float({"sum": np.sum, "prod": np.prod, "mean": np.mean, "median": np.median, "std": np.std}[k[0]](arr))


class _OutOfDomain:
    """expected value of an entry whose exact evaluation divides by zero or meets a non-finite intermediate: Python raises
    or numpy's scalars continue with inf / nan depending on the operand types — not the property's subject; no claim"""
    def __repr__(self):
        return "out-of-domain"


OOD = _OutOfDomain()


class OutOfDomain(Exception):
    """a tree whose exact evaluation divides by zero / meets a non-finite intermediate somewhere"""


def close(x, y, exact):
    if y is OOD:
        return True
    if isinstance(x, tuple) and x and x[0] == "err":
        if "ZeroDivisionError" in x[1]:
            return True      # Python raises where numpy continues with inf / nan (and may come back to a finite value): no value, no claim
        try:
            return not math.isfinite(float(y))
        except Exception:
            return False
    try:
        x, y = float(x), float(y)
    except Exception:
        return False
    if not math.isfinite(y):
        return (math.isnan(x) and math.isnan(y)) or x == y or not exact
    if x == y:
        return True
    return (not exact) and math.isclose(x, y, rel_tol=1e-12, abs_tol=1e-12)


def compare_values(got, exp, exact):
    """first differing key path or None"""
    if set(got) != set(exp):
        return ("keys", sorted(got), sorted(exp))
    for k in sorted(exp):
        if not close(got[k], exp[k], exact):
            return (list(k), got[k], exp[k])
    return None


# ------------------------------------------------------------------ case enumeration
def shape_list(K, quick):
    numbers = [("num", "2.0"), ("num", "-1.5"), ("num", "3"), ("num", "0")] + ([] if quick else [("num", "0.0"), ("num", "1e-07")])   # incl. falsy
    els = [d_scalar()] + [d_vec(m) for m in range(1, K + 1)] + [d_mat(m, n) for m in range(1, K + 1) for n in range(1, K + 1)]
    named = []
    for m in range(1, K + 1):
        names = LETTERS[:m]
        named.append(d_nvec(names))
        if m > 1:
            named.append(d_nvec(names[::-1]))                      # same names, other order
            named.append(d_nvec(names[:-1] + "z"))                 # one different name
    named.append(d_nvec(["1", "0", "2"][:min(K, 3)]))              # numeric names, permuted
    named.append(d_nvec(["0", "1", "2"][:min(K, 3)]))
    named.append(d_nvec(["z-w", "Ab"]))                                # other name kinds
    named += [d_nmat("xy", "ab"), d_nmat("yx", "ab"), d_nmat("xy", "ba"), d_nmat(["0", "1"], ["0", "1"]),
              d_nmat(["1", "0"], ["1", "0"]), d_nmat("x", "abc"), d_nmat("xyz", "a")]
    return numbers, els, named


def binary_cases(K, quick):
    numbers, els, named = shape_list(K, quick)
    ops = numbers + els + named
    ops.sort(key=lambda d: (len(d[1]) * max(1, len(d[2])) if d[0] == "el" else 0))
    cases = []
    for da in ops:
        for db in ops:
            if da[0] == "num" and db[0] == "num":
                continue
            for form in ("add", "sub", "mul", "div", "dot"):
                if form == "dot" and da[0] == "num":
                    continue                                         # numbers have no .dot
                cases.append((form, da, db))
    for da in els + named:
        cases.append(("neg", da, None))
    cases.sort(key=lambda c: sum(len(d[1]) * max(1, len(d[2])) for d in c[1:] if d is not None and d[0] == "el"))
    return cases


def agg_cases(K):
    numbers, els, named = shape_list(K, False)
    cases = []
    for d in els + named:
        cnt = max(1, len(d[1])) * max(1, len(d[2]))
        ranks = sorted({-2, -1, 0, 1, 2, cnt - 1, cnt, cnt + 1, cnt + 3})
        for g in ["sum", "prod", "mean", "median", "std", "size"] + [f"rank:{r}" for r in ranks]:
            cases.append((g, d))
    return cases


def model_request(form, da, db):
    if form == "neg":
        return f"expand nmul {wire_operand(da, 'A')} N:-1"
    f = form
    if form == "mul" and da[0] == "num":
        f = "nmul"                                                  # x * A  ->  A.__rmul__(x)
    return f"expand {f} {wire_operand(da, 'A')} {wire_operand(db, 'B')}"


def case_text(form, da, db):
    return f"{form}({describe(da)}" + (f", {describe(db)})" if db is not None else ")")


# ------------------------------------------------------------------ nested expressions (reference check only)
class Gen:
    """typed random expression over indexed arrays: .py(model-bound operands) builds the DSL object,
    .np the numpy value; the dot product takes an element on the left (the DSL's API) and any
    expression on the right."""
    def __init__(self, rng):
        self.rng, self.leaves = rng, []

    def leaf(self, shape):
        idx = len(self.leaves)
        self.leaves.append(shape)
        return ("leaf", idx, shape)

    def expr(self, shape, depth):
        r = self.rng
        if depth == 0 or r.chance(1, 5):
            return self.leaf(shape)
        if shape != () and r.chance(2, 5):
            k = r.range(1, 3)
            if len(shape) == 1:
                if r.chance(1, 2):
                    return ("dot", self.leaf((shape[0], k)), self.expr((k,), depth - 1))
                return ("dot", self.leaf((k,)), self.expr((k, shape[0]), depth - 1))
            return ("dot", self.leaf((shape[0], k)), self.expr((k, shape[1]), depth - 1))
        op = r.choice(["add", "sub", "mul", "div"])
        left = self.expr(shape, depth - 1)
        c = r.below(4)
        right = self.expr(shape, depth - 1) if c < 2 else (self.leaf(()) if c == 2 else ("num", r.choice([2.0, -1.5, 0.5])))
        if r.chance(1, 4) and right[0] != "num":
            left, right = right, left
        return (op, left, right)


def tree_text(t):
    if t[0] == "leaf":
        return f"E{t[1]}{list(t[2])}"
    if t[0] == "num":
        return str(t[1])
    if t[0] == "dot":
        return f"{tree_text(t[1])}.dot({tree_text(t[2])})"
    return "(" + tree_text(t[1]) + {"add": "+", "sub": "-", "mul": "*", "div": "/"}[t[0]] + tree_text(t[2]) + ")"


def leaf_desc(shape):
    return d_scalar() if shape == () else (d_vec(shape[0]) if len(shape) == 1 else d_mat(*shape))


def eval_tree(t, els, arrs):
    """(DSL object, numpy value)"""
    import numpy as np
    if t[0] == "leaf":
        return els[t[1]], arrs[t[1]]
    if t[0] == "num":
        return t[1], np.float64(t[1])
    l, ln = eval_tree(t[1], els, arrs)
    r, rn = eval_tree(t[2], els, arrs)
    if t[0] == "dot":
        return l.dot(r), np.dot(ln, rn)
    f = {"add": (lambda a, b: a + b), "sub": (lambda a, b: a - b), "mul": (lambda a, b: a * b), "div": (lambda a, b: a / b)}[t[0]]
    return f(l, r), f(ln, rn)


def run_nested(tree, leaves):
    """returns None (rejected), or first difference, or False (agrees)"""
    import numpy as np
    m = new_model()
    els, arrs = [], []
    try:
        for i, sh in enumerate(leaves):
            d = leaf_desc(sh)
            v = values_for(d, 2 * i + 1)
            els.append(build(m, f"E{i}", d, v))
            arrs.append(np_array(d, v))
        with np.errstate(all="ignore"):
            obj, ref = eval_tree(tree, els, arrs)
        R = m.converter("R")
        R.equation = obj
        _, got = observe(R)
    except pyfrag.Unsupported:
        return None
    except Exception:
        return None
    ref = np.asarray(ref)
    if ref.ndim == 0:
        exp = {(): float(ref)}
    elif ref.ndim == 1:
        exp = {(str(i),): float(ref[i]) for i in range(ref.shape[0])}
    else:
        exp = {(str(i), str(j)): float(ref[i][j]) for i in range(ref.shape[0]) for j in range(ref.shape[1])}
    try:
        d = compare_values(got, exp, exact=False)
    except Exception as ex:
        d = ("evaluation", str(ex), None)
    return d if d is not None else False


FIXED_NESTED = [
    # (text, tree builder over dims) — the operator-operand path of dot, smallest shapes first
    lambda g, m, n: ("dot", g.leaf((m, n)), ("add", ("add", g.leaf((n,)), g.leaf((n,))), g.leaf((n,)))),
    lambda g, m, n: ("dot", g.leaf((m, n)), ("mul", ("add", g.leaf((n, m)), g.leaf((n, m))), g.leaf((n, m)))),
    lambda g, m, n: ("dot", g.leaf((m,)), ("sub", ("mul", g.leaf((m, n)), g.leaf((m, n))), g.leaf((m, n)))),
    lambda g, m, n: ("dot", g.leaf((m, n)), ("add", g.leaf((n,)), g.leaf((n,)))),
    lambda g, m, n: ("mul", ("add", g.leaf((m, n)), g.leaf((m, n))), ("sub", g.leaf((m, n)), g.leaf((m, n)))),
    lambda g, m, n: ("dot", g.leaf((m, n)), ("mul", ("num", 2.0), ("add", g.leaf((n,)), g.leaf((n,))))),
]


# ------------------------------------------------------------------ wave 2: operand trees in the Lean model
# tree:  ("num", lit) | ("el", name, descriptor) | ("neg", t) | ("op", form, a, b)    form: add sub mul div dot
class Mismatch(Exception):
    """the numpy operation does not exist for these operands (shapes / index names): the code must raise"""


def tree_wire(t):
    """prefix wire form of the operator tree Python's dispatch builds (driver `expandx`)"""
    if t[0] == "num":
        return "N:" + t[1]
    if t[0] == "el":
        return wire_operand(t[2], t[1])
    if t[0] == "agg":                     # an aggregate operator as operand
        return f"AG|{t[1]}|{wire_operand(t[3], t[2])}"
    if t[0] == "neg":                     # Element.__neg__: (-1), Operator.__neg__: (-1.0)
        return "O nmul " + tree_wire(t[1]) + (" N:-1" if t[1][0] == "el" else " N:-1.0")
    _, form, a, b = t
    f = "nmul" if (form == "mul" and a[0] == "num" and b[0] == "el") else form     # Element.__rmul__
    return f"O {f} {tree_wire(a)} {tree_wire(b)}"


def tree_leaves(t, acc):
    if t[0] == "el":
        acc[t[1]] = t[2]
    elif t[0] == "agg":
        acc[t[2]] = t[3]
    elif t[0] == "neg":
        tree_leaves(t[1], acc)
    elif t[0] == "op":
        tree_leaves(t[2], acc); tree_leaves(t[3], acc)
    return acc


def tree_depth(t):
    if t[0] in ("num", "el", "agg"):
        return 0
    return 1 + (tree_depth(t[1]) if t[0] == "neg" else max(tree_depth(t[2]), tree_depth(t[3])))


def tree_show(t):
    if t[0] == "num":
        return t[1]
    if t[0] == "el":
        return t[1]
    if t[0] == "agg":
        return f"{t[2]}.arr_{t[1]}()"
    if t[0] == "neg":
        return "-" + tree_show(t[1])
    if t[1] == "dot":
        return f"{tree_show(t[2])}.dot({tree_show(t[3])})"
    return "(" + tree_show(t[2]) + {"add": "+", "sub": "-", "mul": "*", "div": "/"}[t[1]] + tree_show(t[3]) + ")"


def tree_build(t, els):
    if t[0] == "num":
        return int(t[1]) if "." not in t[1] and "e" not in t[1] else float(t[1])
    if t[0] == "el":
        return els[t[1]]
    if t[0] == "agg":
        a, k = els[t[2]], t[1].split(":")
        f = {"sum": a.arr_sum, "prod": a.arr_prod, "mean": a.arr_mean, "median": a.arr_median,
             "std": a.arr_stddev, "size": a.arr_size}.get(k[0])
        return f() if f else a.arr_rank(int(k[1]))
    if t[0] == "neg":
        return -tree_build(t[1], els)
    return apply_form(t[1], tree_build(t[2], els), tree_build(t[3], els))


def tree_values(t, salt=0):
    leaves = tree_leaves(t, {})
    return {nm: values_for(d, (2 * i + 1) if salt == 0 else (salt + 1000 * i if salt >= 110 else salt + i))
            for i, (nm, d) in enumerate(sorted(leaves.items()))}, leaves


def spec_tree(t, vals):
    """numpy meaning of the tree: (shape, named, {key path: value}); raises Mismatch where the operands do not match.
    Element-wise: equal shapes AND equal key sets (or a scalar); dot: positional, indexed operands only."""
    import numpy as np
    if t[0] == "num":
        return (), False, {(): np.float64(float(t[1]))}
    if t[0] == "el":
        d = t[2]
        return shape_of(d), bool(is_arr(d) and d[3]), {k: np.float64(v) for k, v in vals[t[1]].items()}
    if t[0] == "agg":
        with np.errstate(all="ignore"):
            return (), False, {(): np.float64(spec_agg(t[1], t[3], vals[t[2]]))}
    if t[0] == "neg":
        sh, nm, v = spec_tree(t[1], vals)
        return sh, nm, {k: -x for k, x in v.items()}
    _, form, a, b = t
    sa, na, va = spec_tree(a, vals)
    sb, nb, vb = spec_tree(b, vals)
    def dom(res):
        """the value oracle's domain: no zero divisor, no non-finite value anywhere in the exact evaluation"""
        if form == "div" and any(float(v) == 0.0 for v in vb.values()):
            raise OutOfDomain(f"zero divisor under {tree_show(t)}")
        if any(not math.isfinite(float(v)) for v in res[2].values()):
            raise OutOfDomain(f"non-finite intermediate under {tree_show(t)}")
        return res
    with np.errstate(all="ignore"):
        if form != "dot":
            f = {"add": np.add, "sub": np.subtract, "mul": np.multiply, "div": np.divide}[form]
            if sa == () and sb == ():
                return dom(((), False, {(): f(va[()], vb[()])}))
            if sa == ():
                return dom((sb, nb, {k: f(va[()], x) for k, x in vb.items()}))
            if sb == ():
                return dom((sa, na, {k: f(x, vb[()]) for k, x in va.items()}))
            if sa != sb or na != nb or set(va) != set(vb):
                raise Mismatch(f"{form}: {sa}/{sorted(va)} vs {sb}/{sorted(vb)}")
            return dom((sa, na, {k: f(va[k], vb[k]) for k in va}))
        if na or nb:
            raise Mismatch("dot: named operand")
        if sa == () and sb == ():
            raise Mismatch("dot: two values")
        if sa == ():
            return dom((sb, False, {k: va[()] * x for k, x in vb.items()}))
        if sb == ():
            return dom((sa, False, {k: x * vb[()] for k, x in va.items()}))
        if sa[-1] != sb[0]:
            raise Mismatch(f"dot: {sa} . {sb}")
        def arr(sh, v):
            return np.array([v[(str(i),)] for i in range(sh[0])]) if len(sh) == 1 else \
                np.array([[v[(str(i), str(j))] for j in range(sh[1])] for i in range(sh[0])])
        r = np.dot(arr(sa, va), arr(sb, vb))
        if r.ndim == 0:
            return dom(((), False, {(): r}))
        if r.ndim == 1:
            return dom((r.shape, False, {(str(i),): r[i] for i in range(r.shape[0])}))
        return dom((r.shape, False, {(str(i), str(j)): r[i][j] for i in range(r.shape[0]) for j in range(r.shape[1])}))


def run_tree(t, salt=0, kind="converter"):
    """assign the tree to a fresh converter: (wire line | 'none', values, exception text, leaf value tables)"""
    vals, leaves = tree_values(t, salt)
    m = new_model()
    try:
        els = {nm: build(m, nm, d, vals[nm], kind) for nm, d in sorted(leaves.items())}
        R = m.converter("R")
        R.equation = tree_build(t, els)
        line, got = observe(R)
        return line, got, None, vals
    except pyfrag.Unsupported:
        raise
    except Exception as ex:
        return "none", None, f"{type(ex).__name__}: {ex}", vals


class TGen:
    """typed generator of operand trees: mostly well-shaped (so that deep trees are accepted), with a chance of a
    wrong leaf shape / name set at every leaf; the left operand of dot is always an element (the DSL's API)"""
    def __init__(self, rng, bad=8):
        self.r, self.n, self.bad = rng, 0, bad

    def leaf(self, shape, named=False, el_only=False):
        r = self.r
        if self.bad and r.chance(1, self.bad):
            shape = r.choice([(), (1,), (2,), (3,), (1, 2), (2, 1), (2, 2), (2, 3)])
            named = r.chance(1, 4) and shape != ()
        if shape == ():
            c = r.below(4 if not el_only else 3)
            if c == 3:                              # an aggregate operator as a scalar-valued operand
                d = r.choice([d_vec(2), d_vec(3), d_mat(2, 2), d_mat(2, 3), d_nvec("ab")])
                g = r.choice(["sum", "prod", "mean", "median", "std", "size", "rank:1", "rank:2", "rank:9"])
                return ("agg", g, f"g{len(d[1])}x{len(d[2])}{'n' if d[3] else ''}_{r.below(2)}", d)
            if c == 0 and not el_only:              # numbers have no .dot
                return ("num", r.choice(["2.0", "-1.5", "0.5", "3"]))
            return ("el", "s" + str(r.below(2)), d_scalar())
        tag = "n" if named else "e"
        nm = f"{tag}{'x'.join(map(str, shape))}_{r.below(3)}"          # few names per shape: elements are reused
        if named:
            names = ["ab", "ba", "abc", "cab", "xy"]
            if len(shape) == 1:
                ks = r.choice([x for x in names if len(x) == shape[0]] or ["abcdef"[:shape[0]]])
                return ("el", nm + ks, d_nvec(ks))
            return ("el", nm, d_nmat("xyz"[:shape[0]], "abc"[:shape[1]]))
        return ("el", nm, d_vec(shape[0]) if len(shape) == 1 else d_mat(*shape))

    def expr(self, shape, depth, named=False):
        r = self.r
        if depth == 0:
            return self.leaf(shape, named)
        c = r.below(10)
        if c == 0:
            x = self.expr(shape, depth - 1, named)
            return ("neg", x) if x[0] != "num" else x
        if c <= 3 and not named:                                         # a dot product of this shape
            k = r.range(1, 3)
            if shape == ():
                return ("op", "dot", self.leaf((k,), el_only=True), self.leaf((k,)))
            if r.chance(1, 4):                                           # array . scalar-valued expression
                return ("op", "dot", self.leaf(shape, el_only=True), self.expr((), depth - 1))
            if len(shape) == 1:
                if r.chance(1, 2):
                    return ("op", "dot", self.leaf((shape[0], k), el_only=True), self.expr((k,), depth - 1))
                return ("op", "dot", self.leaf((k,), el_only=True), self.expr((k, shape[0]), depth - 1))
            return ("op", "dot", self.leaf((shape[0], k), el_only=True), self.expr((k, shape[1]), depth - 1))
        op = r.choice(["add", "sub", "mul", "div"])
        d1, d2 = (depth - 1, r.below(depth)) if r.chance(1, 2) else (r.below(depth), depth - 1)
        if shape != () and r.chance(1, 3):                               # broadcast a scalar-valued side
            a, b = self.expr(shape, d1, named), self.expr((), d2)
            if r.chance(1, 2):
                a, b = b, a
        else:
            a, b = self.expr(shape, d1, named), self.expr(shape, d2, named)
        if a[0] == "num" and b[0] == "num":
            b = ("el", "s0", d_scalar())
        return ("op", op, a, b)


NEST_LEAVES = [("num", "2.0"), ("el", "s", d_scalar()), ("el", "a", d_vec(2)), ("el", "M", d_mat(2, 2)), ("el", "N", d_mat(1, 2))]
NEST_LEAVES_T = NEST_LEAVES + [("el", "b", d_vec(3)), ("el", "P", d_mat(2, 1)), ("el", "na", d_nvec("ab")), ("el", "nb", d_nvec("ba"))]


def nested_exhaustive(leaves):
    """all depth-2 trees op1(op2(x, y), z) and op1(z, op2(x, y)) over the leaf set"""
    out = []
    forms = ["add", "sub", "mul", "div", "dot"]
    def ok(f, a, b):
        if f == "dot":
            return a[0] == "el"
        return not (a[0] == "num" and b[0] == "num")
    for f2 in forms:
        for x in leaves:
            for y in leaves:
                if not ok(f2, x, y):
                    continue
                inner = ("op", f2, x, y)
                for f1 in forms:
                    for z in leaves:
                        if f1 != "dot":
                            out.append(("op", f1, inner, z))
                        if ok(f1, z, inner):
                            out.append(("op", f1, z, inner))
    return out


# ------------------------------------------------------------------ wave 2: Stock targets
STOCK_INIT = 0.5


def build_stock(m, d):
    S = m.stock("S")
    if not d[1]:
        return S
    if d[3]:
        if not d[2]:
            S.setup_named_vector({kstr(k): STOCK_INIT for k in d[1]})
        else:
            S.setup_named_matrix({kstr(k): {kstr(l): STOCK_INIT for l in d[2]} for k in d[1]})
    elif not d[2]:
        S.setup_vector(len(d[1]), [STOCK_INIT] * len(d[1]))
    else:
        S.setup_matrix([len(d[1]), len(d[2])], [[STOCK_INIT] * len(d[2]) for _ in d[1]])
    return S


def substocks(S, d):
    """[(name, key path, element)]: the stock itself, its rows, its entries"""
    out = [("S", (), S)]
    for k in d[1]:
        e = S[kstr(k)]
        out.append((e.name, (kstr(k),), e))
        for l in d[2]:
            out.append((e[kstr(l)].name, (kstr(k), kstr(l)), e[kstr(l)]))
    return out


def observe_stock_fresh(S):
    vals = {}
    if not S.arrayed:
        vals[()] = safe_eval(S, 2.0)
        return "scalar | " + fs_tokens(S._function_string), vals
    keys = list(S._elements.equations)
    if S[keys[0]]._elements.vector_size() == 0:
        parts = []
        for k in keys:
            parts += [k, fs_tokens(S[k]._function_string)]
            vals[(k,)] = safe_eval(S[k], 2.0)
        return f"vector {1 if S.named_arrayed else 0} | " + " | ".join(parts), vals
    parts, n = [], None
    for k in keys:
        inner = list(S[k]._elements.equations)
        n = len(inner)
        for l in inner:
            parts.append(fs_tokens(S[k][l]._function_string))
            vals[(k, l)] = safe_eval(S[k][l], 2.0)
    return f"matrix {len(keys)} {n} | " + " | ".join(parts), vals


def run_stock(t, sd, salt=0):
    """S.equation = tree on the stock described by sd (scalar descriptor = fresh, non-arrayed stock).
    returns (canonical line, {key path: value at t=2}, {key path: initial value}, exception text, leaf tables)"""
    vals, leaves = tree_values(t, salt)
    m = new_model()
    try:
        els = {nm: build(m, nm, d, vals[nm]) for nm, d in sorted(leaves.items())}
        S = build_stock(m, sd)
        subs = substocks(S, sd)
        before = {n: e._function_string for n, _, e in subs}
        S.equation = els[t[1]] if t[0] == "el" else tree_build(t, els)
        if not sd[1]:
            line, got = observe_stock_fresh(S)
            return line, got, {k: 0.0 for k in got}, None, vals
        depth = 2 if sd[2] else 1
        ch = [(n, kp, e) for n, kp, e in subs if e._function_string != before[n] and e.equation is not None]
        line = "assign" + "".join(f" | {n} | {fs_tokens(e._function_string)}" for n, kp, e in sorted(ch, key=lambda x: x[0]))
        return (line, {kp: safe_eval(e, 2.0) for n, kp, e in ch},
                {kp: (STOCK_INIT if len(kp) == depth else 0.0) for n, kp, e in ch}, None, vals)
    except pyfrag.Unsupported:
        raise
    except Exception as ex:
        return "none", None, None, f"{type(ex).__name__}: {ex}", vals


def canon_assign(line):
    if not line.startswith("assign"):
        return line
    parts = line.split(" | ")[1:]
    return "assign" + "".join(f" | {n} | {x}" for n, x in sorted(zip(parts[0::2], parts[1::2])))


def stock_request(t, sd):
    if t[0] == "el":
        return f"stockel {STOCK_INIT} {wire_operand(sd, 'S')} {tree_wire(t)}"
    if not sd[1]:
        return f"stockfresh S {tree_wire(t)}"
    return f"stockx {STOCK_INIT} {wire_operand(sd, 'S')} {tree_wire(t)}"


def stock_targets(shape, named, keys):
    """stock shapes tried for an equation of the given result shape: fresh, the same shape, one row more, one less,
    a matrix for a vector / a vector for a matrix, and the named variant"""
    out = [d_scalar()]
    if shape == ():
        return out + [d_vec(2), d_mat(2, 2)]
    if len(shape) == 1:
        n = shape[0]
        out += [d_vec(n), d_vec(n + 1), d_mat(n, 2)]
        if n > 1:
            out.append(d_vec(n - 1))
        if named:
            ks = [k[0] for k in keys]
            out += [d_nvec(ks), d_nvec(ks[::-1]), d_nvec(ks[:-1] + ["q"])]
        else:
            out.append(d_nvec("abcdef"[:n]))
        return out
    m_, n_ = shape
    out += [d_mat(m_, n_), d_mat(m_ + 1, n_), d_mat(m_, n_ + 1), d_vec(m_)]
    if n_ > 1:
        out.append(d_mat(m_, n_ - 1))
    return out


# ------------------------------------------------------------------ wave 2: ragged named matrices (oracle only)
def run_ragged(agg, rows):
    """aggregate of a named matrix whose rows have different key sets: (accepted?, value or ('err', …))"""
    m = new_model()
    try:
        a = m.converter("A")
        a.setup_named_matrix(rows)
        R = m.converter("R")
        k = agg.split(":")
        op = {"sum": a.arr_sum, "prod": a.arr_prod, "mean": a.arr_mean, "median": a.arr_median,
              "std": a.arr_stddev, "size": a.arr_size}.get(k[0])
        R.equation = op() if op else a.arr_rank(int(k[1]))
        return True, safe_eval(R)
    except Exception as ex:
        return False, f"{type(ex).__name__}: {ex}"


# ------------------------------------------------------------------ wave 3: re-shape histories on ONE model
# ops (JSON-able):  ["S", name, value]  scalar converter     ["V", name, n, [values]]      setup_vector
#   ["M", name, m, n, [[values]]]  setup_matrix     ["NV", name, [[key, value], …]]  setup_named_vector
#   ["E", name, [key path], value]  re-assign one entry (A[i][j] = value / v[i] = value)
#   ["U", tree]  use in a fresh converter; leaves ["ref", name] | ["num", literal]; ["A", agg, name]
class Shape:
    """independent book-keeping of what the set-up methods leave behind: member keys are only ever added"""
    def __init__(self):
        self.keys, self.rows, self.named, self.vals = [], {}, False, {}

    def add_row(self, k):
        if k not in self.keys:
            self.keys.append(k)
            self.rows[k] = None

    def setup_vector(self, n, values):
        for i in range(n):
            self.add_row(str(i))
            if self.rows[str(i)] is None:
                self.vals[(str(i),)] = values[i]

    def setup_matrix(self, m, n, values):
        for i in range(m):
            self.add_row(str(i))
            if self.rows[str(i)] is None:
                self.rows[str(i)] = []
                self.vals.pop((str(i),), None)
            for j in range(n):
                if str(j) not in self.rows[str(i)]:
                    self.rows[str(i)].append(str(j))
                self.vals[(str(i), str(j))] = values[i][j]

    def setup_named(self, pairs):
        self.named = True
        for k, v in pairs:
            self.add_row(k)
            if self.rows[k] is None:
                self.vals[(k,)] = v

    def uniform(self):
        rs = [self.rows[k] for k in self.keys]
        return all(r is None for r in rs) or (all(r is not None for r in rs) and all(r == rs[0] for r in rs))

    def descriptor(self):
        def key(k):
            return ("i", int(k)) if k.isdigit() else ("s", k)
        if not self.keys:
            return d_scalar()
        inner = self.rows[self.keys[0]] or []
        return ("el", tuple(key(k) for k in self.keys), tuple(key(l) for l in inner), self.named)

    def copy(self):
        c = Shape()
        c.keys, c.rows, c.named, c.vals = list(self.keys), {k: (None if r is None else list(r)) for k, r in self.rows.items()}, self.named, dict(self.vals)
        return c


def hist_apply(shapes, op):
    """book-keeping for one set-up op (returns False when the result has rows of different kinds — not generated)"""
    sh = shapes.setdefault(op[1], Shape())
    if op[0] == "S":
        sh.vals[()] = op[2]
    elif op[0] == "V":
        sh.setup_vector(op[2], op[3])
    elif op[0] == "M":
        sh.setup_matrix(op[2], op[3], op[4])
    elif op[0] == "NV":
        sh.setup_named(op[2])
    elif op[0] == "E":
        sh.vals[tuple(op[2])] = op[3]
    return sh.uniform()


def rtree_wire(t):
    if t[0] == "num":
        return "N:" + t[1]
    if t[0] == "ref":
        return "@" + t[1]
    if t[0] == "neg":
        return "O nmul " + rtree_wire(t[1]) + (" N:-1" if t[1][0] == "ref" else " N:-1.0")
    _, form, a, b = t
    f = "nmul" if (form == "mul" and a[0] == "num" and b[0] == "ref") else form
    return f"O {f} {rtree_wire(a)} {rtree_wire(b)}"


def rtree_resolve(t, shapes):
    """the tree with the CURRENT descriptors at its leaves (for the numpy oracle)"""
    if t[0] == "num":
        return ("num", t[1])
    if t[0] == "ref":
        return ("el", t[1], shapes[t[1]].descriptor())
    if t[0] == "neg":
        return ("neg", rtree_resolve(t[1], shapes))
    return ("op", t[1], rtree_resolve(t[2], shapes), rtree_resolve(t[3], shapes))


def hist_wire(ops):
    out = []
    for op in ops:
        if op[0] == "V":
            out.append(f"V {op[1]} {op[2]}")
        elif op[0] == "M":
            out.append(f"M {op[1]} {op[2]} {op[3]}")
        elif op[0] == "NV":
            out.append(f"NV {op[1]} {','.join(k for k, _ in op[2])}")
        elif op[0] == "U":
            out.append("U " + rtree_wire(_tup(op[1])))
        elif op[0] == "A":
            out.append(f"A {op[1]} {op[2]}")
    return "hist " + " ; ".join(out)


def run_history(ops):
    """run the history on ONE real model; per use: (line, values, exception text, oracle verdict)
    verdict: None (agrees / nothing to say) | (key, text, detail)"""
    import numpy as np
    m = new_model()
    els, shapes, out, n = {}, {}, [], 0
    for op in ops:
        if op[0] in ("S", "V", "M", "NV", "E"):
            e = els.setdefault(op[1], m.converter(op[1]))
            if op[0] == "S":
                e.equation = op[2]
            elif op[0] == "V":
                e.setup_vector(op[2], list(op[3]))
            elif op[0] == "M":
                e.setup_matrix([op[2], op[3]], [list(r) for r in op[4]])
            elif op[0] == "NV":
                e.setup_named_vector({k: v for k, v in op[2]})
            else:
                cur = e
                for k in op[2][:-1]:
                    cur = cur[k]
                cur[op[2][-1]] = op[3]
            hist_apply(shapes, op)
            continue
        n += 1
        verdict = None
        try:
            R = m.converter(f"R{n}")
            if op[0] == "U":
                t = _tup(op[1])
                R.equation = tree_build(("el", t[1], None) if t[0] == "ref" else _rt_real(t), els)
            else:
                a = els[op[2]]
                k = op[1].split(":")
                f = {"sum": a.arr_sum, "prod": a.arr_prod, "mean": a.arr_mean, "median": a.arr_median,
                     "std": a.arr_stddev, "size": a.arr_size}.get(k[0])
                R.equation = f() if f else a.arr_rank(int(k[1]))
            line, got = observe(R)
            exc = None
        except pyfrag.Unsupported:
            raise
        except Exception as ex:
            line, got, exc = "none", None, f"{type(ex).__name__}: {ex}"
        # oracle for the CURRENT shapes
        if op[0] == "U":
            rt = rtree_resolve(_tup(op[1]), shapes)
            vals = {nm: {k: v for k, v in sh.vals.items()} for nm, sh in shapes.items()}
            try:
                _, _, exp = spec_tree(rt, vals)
            except OutOfDomain:
                exp = None
            except Mismatch as mm:
                exp = None
                if line != "none":
                    verdict = ("mismatch-accepted:reshape", f"{tree_show(rt)} with the current shapes "
                               f"{ {nm: describe(d) for nm, d in tree_leaves(rt, {}).items()} }: operands do not match ({mm}) but the equation is accepted and yields {got}", None)
            if exp is not None and line != "none":
                dd = compare_values(got, {k: float(v) for k, v in exp.items()}, exact=False)
                if dd is not None:
                    what = (f"the result has the entries {dd[1]}, numpy's result has {dd[2]}" if dd[0] == "keys"
                            else f"element {dd[0]} evaluates to {dd[1]!r}, numpy gives {dd[2]}")
                    verdict = ("wrong-value:reshape", f"{tree_show(rt)} with the current shapes "
                               f"{ {nm: describe(d) for nm, d in tree_leaves(rt, {}).items()} }: {what}", dd)
        else:
            d = shapes[op[2]].descriptor()
            if is_arr(d) and line != "none":
                with np.errstate(all="ignore"):
                    exp = spec_agg(op[1], d, shapes[op[2]].vals)
                if not close(got[()], exp, exact=op[1].split(":")[0] in ("sum", "prod", "size", "rank")):
                    verdict = ("wrong-value:reshape", f"{op[1]}({op[2]}: {describe(d)}) evaluates to {got[()]!r}, numpy gives {exp}", (op[1], got[()], exp))
        out.append((line, got, exc, verdict))
    return out


def _rt_real(t):
    """tree in the form tree_build expects (leaves looked up by name)"""
    if t[0] == "ref":
        return ("el", t[1], None)
    if t[0] == "num":
        return t
    if t[0] == "neg":
        return ("neg", _rt_real(t[1]))
    return ("op", t[1], _rt_real(t[2]), _rt_real(t[3]))


def hist_fails(ops):
    """index (among the uses) and verdict of the first use the oracle objects to, or None"""
    try:
        res = run_history(ops)
    except pyfrag.Unsupported:
        return None
    for i, (_, _, _, v) in enumerate(res):
        if v is not None:
            return i, v
    return None


def hist_shrink(ops):
    """cut after the first failing use, then keep the set-ups and as few earlier uses as still fail"""
    f = hist_fails(ops)
    if f is None:
        return ops, None
    uses = [i for i, o in enumerate(ops) if o[0] in ("U", "A")]
    ops = ops[:uses[f[0]] + 1]
    last, setups = ops[-1], [o for o in ops[:-1] if o[0] not in ("U", "A")]
    best = ops
    if hist_fails(setups + [last]) is not None:
        best = setups + [last]
    else:
        for i, o in enumerate(ops[:-1]):
            if o[0] in ("U", "A"):
                cand = [x for j, x in enumerate(ops[:-1]) if x[0] not in ("U", "A") or j == i] + [last]
                if hist_fails(cand) is not None:
                    best = cand
                    break
    changed = True
    while changed:                      # drop set-ups that are not needed
        changed = False
        for i in range(len(best) - 1):
            if best[i][0] in ("U", "A"):
                continue
            cand = best[:i] + best[i + 1:]
            try:
                if hist_fails(cand) is not None:
                    best, changed = cand, True
                    break
            except Exception:
                pass
    return best, hist_fails(best)


HIST_PARTNERS = [["S", "s", 1.5], ["V", "v2", 2, [5.0, 6.0]], ["V", "v3", 3, [7.0, 8.0, 9.0]],
                 ["M", "B22", 2, 2, [[1.0, 2.0], [3.0, 4.0]]], ["M", "B23", 2, 3, [[0.5, 1.5, 2.5], [3.5, 4.5, 5.5]]],
                 ["M", "B32", 3, 2, [[1.0, -1.0], [2.0, -2.0], [0.5, 4.0]]]]
HIST_FAMILIES = [            # successive shapes of the re-shaped element H
    [("M", 2, 2), ("M", 2, 3), ("M", 3, 3)],                   # same row count / more columns, then more rows
    [("V", 2), ("M", 2, 2), ("M", 2, 3)],                      # vector -> matrix -> wider
    [("M", 2, 2), ("V", 2), ("M", 2, 3)],                      # matrix -> setup_vector (stays a matrix) -> wider
    [("V", 2), ("V", 3), ("V", 3)],                            # other row count, then only new values
    [("NV", "ab"), ("V", 2)],                                  # named -> also indexed keys
    [("V", 2), ("NV", "ab")],                                  # indexed -> named
    [("M", 1, 2), ("M", 2, 2), ("M", 2, 3), ("M", 3, 3)],
    [("M", 2, 3), ("M", 2, 2), ("M", 3, 3)],                   # a smaller request keeps the columns
    [("M", 3, 2), ("M", 3, 3), ("V", 3)],
]


def hist_setup_op(name, spec_, salt):
    pv = lambda i: POOL[(i + salt) % len(POOL)]
    if spec_[0] == "V":
        return ["V", name, spec_[1], [pv(i) for i in range(spec_[1])]]
    if spec_[0] == "M":
        return ["M", name, spec_[1], spec_[2], [[pv(3 * i + j) for j in range(spec_[2])] for i in range(spec_[1])]]
    return ["NV", name, [[k, pv(i)] for i, k in enumerate(spec_[1])]]


def hist_uses(name, shape, full=True):
    """the uses after a set-up: every form with every partner in both orders, unary minus, itself, the aggregates"""
    H = ["ref", name]
    out = []
    partners = [["num", "2.0"], ["ref", "s"], ["ref", "v2"], ["ref", "v3"], ["ref", "B22"], ["ref", "B23"], ["ref", "B32"], H]
    for P in (partners if full else [["ref", "v2"], ["ref", "v3"], ["ref", "B22"], ["ref", "B23"]]):
        for f in (("add", "sub", "mul", "div", "dot") if full else ("add", "dot")):
            out.append(["U", ["op", f, H, P]])
            if P is not H and not (P[0] == "num" and f == "dot"):
                out.append(["U", ["op", f, P, H]])
    out.append(["U", ["neg", H]])
    cnt = max(1, len(shape.keys)) * max(1, len(shape.rows[shape.keys[0]] or [1])) if shape.keys else 1
    for g in (["sum", "prod", "mean", "median", "std", "size", "rank:1", f"rank:{cnt}", f"rank:{cnt + 1}", "rank:4", "rank:6"] if full else ["sum", "size", f"rank:{cnt}", "rank:4"]):
        out.append(["A", g, name])
    return out


def make_history(seq, salt=0):
    ops = [list(o) for o in HIST_PARTNERS]
    shapes = {}
    for o in ops:
        hist_apply(shapes, o)
    for pi, sp in enumerate(seq):
        op = hist_setup_op("H", sp, salt + 5 * pi)
        trial = {k: v.copy() for k, v in shapes.items()}
        if not hist_apply(trial, op):
            continue                               # would leave rows of different kinds: matrix_size refuses those
        shapes = trial
        ops.append(op)
        ops += hist_uses("H", shapes["H"])
        sh = shapes["H"]                           # re-assign one existing entry, use again
        k = sh.keys[-1]
        path = [k] if sh.rows[k] is None else [k, sh.rows[k][-1]]
        e = ["E", "H", path, -3.0 + pi]
        hist_apply(shapes, e)
        ops.append(e)
        ops += hist_uses("H", shapes["H"], full=False)
    return ops


# ------------------------------------------------------------------ wave 6: probe table of resolve_dimensions
DIM_LEAVES = [(0, 0)] + [(m, 0) for m in (1, 2, 3)] + [(m, n) for m in (1, 2, 3) for n in (1, 2, 3)]
DIM_NESTED = [("sum", 2, 0), ("sum", 3, 0), ("sum", 2, 2), ("sum", 2, 3), ("mv", 2, 3), ("mv", 3, 2)]
DIM_CLASSES = ["AdditionOperator", "SubtractionOperator", "MultiplicationOperator", "DivisionOperator",
               "NumericalMultiplicationOperator", "DotOperator"]          # = formOfNat 0..5


def _dim_leaf(m_, name, mn):
    e = m_.converter(name)
    if mn[0] == 0:
        e.equation = 1.5
    elif mn[1] == 0:
        e.setup_vector(mn[0], [1.0] * mn[0])
    else:
        e.setup_matrix([mn[0], mn[1]], [[1.0] * mn[1] for _ in range(mn[0])])
    return e


def _dim_operand(m_, name, code):
    if code[0] == "leaf":
        return _dim_leaf(m_, name, code[1:])
    if code[0] == "sum":
        return _dim_leaf(m_, name + "1", code[1:]) + _dim_leaf(m_, name + "2", code[1:])
    return _dim_leaf(m_, name + "1", (code[1], code[2])).dot(_dim_leaf(m_, name + "2", (code[2], 0)))


def probe_dims_table():
    """rows (class index, code a, code b, accepted) of the REAL constructors + resolve_dimensions(): every pair of
    leaf shapes up to 3x3 for each of the six operator classes, and one nesting level on either side"""
    import BPTK_Py.sddsl.operators as ops
    leaves = [("leaf",) + mn for mn in DIM_LEAVES]
    pairs = [(a, b) for a in leaves for b in leaves]
    pairs += [(a, b) for a in DIM_NESTED for b in leaves] + [(a, b) for a in leaves for b in DIM_NESTED]
    rows = []
    for ci, cname in enumerate(DIM_CLASSES):
        cls = getattr(ops, cname)
        for a, b in pairs:
            m_ = new_model()
            try:
                oa, ob = _dim_operand(m_, "A", a), _dim_operand(m_, "B", b)
                cls(oa, ob).resolve_dimensions()
                acc = True
            except Exception:
                acc = False
            rows.append((ci, a, b, acc))
    return rows


def lean_code(c):
    return f"(.leaf {c[1]} {c[2]})" if c[0] == "leaf" else f"(.{c[0]} {c[1]} {c[2]})"


# ------------------------------------------------------------------ wave 7: further API surfaces
REUSE_EQS = [          # (label, tree) — equations whose results have different shapes / index kinds
    ("vec3", ("op", "add", ("el", "a3", d_vec(3)), ("el", "b3", d_vec(3)))),
    ("vec2", ("op", "mul", ("el", "a2", d_vec(2)), ("num", "2.0"))),
    ("mat22", ("op", "sub", ("el", "M22", d_mat(2, 2)), ("el", "N22", d_mat(2, 2)))),
    ("mat23", ("op", "add", ("el", "M23", d_mat(2, 3)), ("el", "s", d_scalar()))),
    ("mat32.vec2", ("op", "dot", ("el", "M32", d_mat(3, 2)), ("el", "a2", d_vec(2)))),
    ("named ab", ("op", "add", ("el", "nab", d_nvec("ab")), ("el", "nab2", d_nvec("ab")))),
    ("named abc", ("op", "mul", ("el", "nabc", d_nvec("abc")), ("num", "3"))),
    ("scalar", ("op", "dot", ("el", "a2", d_vec(2)), ("el", "c2", d_vec(2)))),
    # equal layout (length, kind of index), other index NAMES: disjoint, overlapping, permuted
    ("named xyz", ("op", "sub", ("el", "nxyz", d_nvec("xyz")), ("el", "nxyz2", d_nvec("xyz")))),
    ("named abd", ("op", "add", ("el", "nabd", d_nvec("abd")), ("num", "2.0"))),
    ("named cab", ("op", "div", ("el", "ncab", d_nvec("cab")), ("el", "ncab2", d_nvec("cab")))),
    ("named xy", ("op", "mul", ("el", "nxy", d_nvec("xy")), ("el", "nxy2", d_nvec("xy")))),
    ("named ba", ("op", "add", ("el", "nba", d_nvec("ba")), ("num", "-1.5"))),
    ("named words", ("op", "add", ("el", "nw", d_nvec(["east", "central", "coast"])), ("el", "nw2", d_nvec(["east", "central", "coast"])))),
    ("vec3 b", ("op", "mul", ("el", "b3", d_vec(3)), ("num", "3"))),
    ("mat22 b", ("op", "add", ("el", "N22", d_mat(2, 2)), ("num", "0.5"))),
]
REUSE_AGGS = ["sum", "prod", "mean", "median", "std", "size", "rank:1", "rank:2", "rank:9"]


def _first_leaf(t):
    if t[0] == "el":
        return t
    if t[0] == "op":
        return _first_leaf(t[2]) or _first_leaf(t[3])
    if t[0] == "neg":
        return _first_leaf(t[1])
    return None


def run_reuse(t1, t2):
    """R.equation = t1, then R.equation = t2 on the SAME converter; then R is read, aggregated (every aggregate) and used
    as an operand (Q = R + R, Q2 = R - first operand of t2).
    returns (line of R, values of R, line of Q, values of Q, exception text, leaf values, extras)
    extras: {"agg:<g>": value | ('err', …) | 'refused', "minus": values | None}"""
    both = ("op", "add", t1, t2)
    vals, leaves = tree_values(both)
    m = new_model()
    try:
        els = {nm: build(m, nm, d, vals[nm]) for nm, d in sorted(leaves.items())}
        R = m.converter("R")
        R.equation = tree_build(t1, els)
        R.equation = tree_build(t2, els)
        line, got = observe(R)
        extras = {}
        if tree_depth(t2) and spec_tree(t2, vals)[0] == ():
            line, got = "scalar | " + fs_tokens(R._function_string), {(): safe_eval(R)}      # (R keeps the arrayed flag of the first equation)
            return line, got, "none", None, None, vals, extras
        try:
            Q = m.converter("Q")
            Q.equation = R + R
            qline, qgot = observe(Q)
        except Exception as ex:
            qline, qgot = "none", None
        for g in REUSE_AGGS:
            k = g.split(":")
            try:
                G = m.converter("G" + g.replace(":", "_"))
                f = {"sum": R.arr_sum, "prod": R.arr_prod, "mean": R.arr_mean, "median": R.arr_median,
                     "std": R.arr_stddev, "size": R.arr_size}.get(k[0])
                G.equation = f() if f else R.arr_rank(int(k[1]))
                extras["agg:" + g] = safe_eval(G)
            except Exception as ex:
                extras["agg:" + g] = "refused"
        lf = _first_leaf(t2)
        if lf is not None and is_arr(lf[2]) and set(vals[lf[1]]) == set(got):        # an operand with the result's shape and index names
            try:
                Q2 = m.converter("Q2")
                Q2.equation = R - els[lf[1]]
                extras["minus"] = (lf[1], observe(Q2)[1])
            except Exception as ex:
                extras["minus"] = (lf[1], None)
        return line, got, qline, qgot, None, vals, extras
    except pyfrag.Unsupported:
        raise
    except Exception as ex:
        return "none", None, "none", None, f"{type(ex).__name__}: {ex}", vals, {}


def run_object_reuse(t, salt=0):
    """the SAME operator object assigned to two converters and to a stock: (line of R1, line of R2 renamed, values of R2)"""
    vals, leaves = tree_values(t, salt)
    m = new_model()
    try:
        els = {nm: build(m, nm, d, vals[nm]) for nm, d in sorted(leaves.items())}
        obj = tree_build(t, els)
        R1 = m.converter("R"); R1.equation = obj
        l1, g1 = observe(R1)
        S = m.stock("S9"); S.equation = obj
        R2 = m.converter("R2"); R2.equation = obj
        l2, g2 = observe(R2)
        return l1, l2, g2, None
    except pyfrag.Unsupported:
        raise
    except Exception as ex:
        return "none", "none", None, f"{type(ex).__name__}: {ex}"


def plot_values(R):
    """the observation channel Element.plot(return_df=True): {key path: value at t=1}; a matrix is read row by row"""
    keys = list(R._elements.equations)
    out = {}
    if R[keys[0]]._elements.vector_size() == 0:
        df = R.plot(return_df=True)
        for k in keys:
            out[(k,)] = df[k][1.0]
        return out, list(df.columns)
    for k in keys:
        df = R[k].plot(return_df=True)
        for l in R[k]._elements.equations:
            out[(k, l)] = df[l][1.0]
    return out, None


def reuse_verdict(l1, t1, l2, t2):
    """first thing wrong after R.equation = t1; R.equation = t2 — (size, text, step) or None — and the number of aggregates read"""
    import numpy as np
    line, got, qline, qgot, exc, vals, extras = run_reuse(t1, t2)
    fresh = run_tree(t2)
    if fresh[0] == "none" or line == "none":
        return None, 0
    shape2, named2, exp = spec_tree(t2, vals)
    exp = {k: float(v) for k, v in exp.items()}
    txt = f"R.equation = {tree_show(t1)} ({l1}), then R.equation = {tree_show(t2)} ({l2})"
    if shape2 == ():
        return (None if close(got.get(()), exp[()], False) else (10, f"{txt}: R evaluates to {got.get(())!r}, numpy gives {exp[()]}", "read")), 0
    dd = compare_values(got, exp, exact=False)
    if dd is not None:
        what = f"R has the entries {dd[1]}, numpy's result has {dd[2]}" if dd[0] == "keys" else f"element {dd[0]} evaluates to {dd[1]!r}, numpy gives {dd[2]}"
        return (10 + len(got), f"{txt}: {what}", "read"), 0
    if line != fresh[0]:
        return (50, f"{txt}: the equations of R differ from those on a fresh converter ({line[:60]}… vs {fresh[0][:60]}…)", "read"), 0
    if qgot is None:
        return (61, f"{txt}, then Q = R + R is refused", "Q=R+R"), 0
    q2 = compare_values(qgot, {k: 2.0 * v for k, v in exp.items()}, exact=False)
    if q2 is not None:
        return (60, f"{txt}, then Q = R + R: {q2}", "Q=R+R"), 0
    dres = (d_nvec([k[0] for k in sorted(exp)]) if named2 else d_vec(shape2[0])) if len(shape2) == 1 else d_mat(*shape2)
    n = 0
    for g in REUSE_AGGS:
        with np.errstate(all="ignore"):
            want = spec_agg(g, dres, exp)
        gotg = extras.get("agg:" + g)
        n += 1
        if gotg == "refused" or not close(gotg, want, exact=False):
            return (62, f"{txt}, then R.arr_{g}: {gotg!r}, numpy gives {want}", "agg:" + g), n
    mn = extras.get("minus")
    if mn is not None:
        lfv = {k: float(v) for k, v in vals[mn[0]].items()}
        if mn[1] is None:
            return (63, f"{txt}, then Q2 = R - {mn[0]} (same shape and index names as the result) is refused", "minus"), n
        d3 = compare_values(mn[1], {k: exp[k] - lfv.get(k, float('nan')) for k in exp}, exact=False)
        if d3 is not None:
            return (63, f"{txt}, then Q2 = R - {mn[0]}: {d3}", "minus"), n
    return None, n


def run_surfaces(chk, note_violation, facts):
    """streams for the rows of the wave-7 coverage table that the main streams do not reach"""
    import numpy as np
    rows = {}
    # -- result re-use: the target already holds the sub-elements of an earlier equation
    for l1, t1 in REUSE_EQS:
        for l2, t2 in REUSE_EQS:
            rows["target re-used (first/second equation)"] = rows.get("target re-used (first/second equation)", 0) + 1
            chk.case(("reuse", l1, l2), nontrivial=True)
            prob, nagg = reuse_verdict(l1, t1, l2, t2)
            rows["aggregates of a re-used target"] = rows.get("aggregates of a re-used target", 0) + nagg
            if {l1, l2} <= {"named abc", "named xyz", "named abd", "named cab", "named words", "named ab", "named xy", "named ba"} and l1 != l2 \
                    and len(dict(REUSE_EQS)[l1][2][2][1]) == len(dict(REUSE_EQS)[l2][2][2][1]):
                rows["target re-used, equal layout, other index names"] = rows.get("target re-used, equal layout, other index names", 0) + 1
            if prob is not None:
                note_violation("wrong-value:result-reuse", prob[0], prob[1], {"kind": "reuse", "first": t1, "second": t2, "then": prob[2]})
    # -- the same operator OBJECT in several equations (first vs second use of the object)
    rng = chk.rng.fork("c10-objreuse")
    tg = TGen(rng, bad=0)
    for i in range(150 if chk.quick else 1500):
        shape = rng.choice([(2,), (3,), (2, 2), (2, 3), (1, 2)])
        t = tg.expr(shape, rng.range(1, 3))
        if t[0] != "op":
            continue
        try:
            l1, l2, g2, exc = run_object_reuse(t)
        except pyfrag.Unsupported:
            continue
        rows["operator object used in several equations"] = rows.get("operator object used in several equations", 0) + 1
        chk.case(("objreuse", tree_wire(t)), nontrivial=True)
        if l1 != l2:
            note_violation("wrong-value:operator-object-reuse", 100 + len(tree_show(t)),
                           f"{tree_show(t)} assigned to a converter, a stock and a second converter: the second converter's equations differ ({l2[:70]}… vs {l1[:70]}…)",
                           {"kind": "objreuse", "tree": t})
    # -- observation channel plot(return_df=True), flow targets, two models side by side
    chan = [("op", "add", ("el", "a", d_vec(3)), ("el", "b", d_vec(3))), ("op", "dot", ("el", "M", d_mat(2, 3)), ("el", "b", d_vec(3))),
            ("op", "mul", ("el", "M", d_mat(2, 3)), ("num", "-1.5")), ("op", "sub", ("el", "na", d_nvec("ab")), ("el", "nb", d_nvec("ba"))),
            ("op", "dot", ("el", "M", d_mat(2, 3)), ("op", "add", ("el", "N", d_mat(3, 2)), ("el", "N2", d_mat(3, 2)))),
            ("op", "div", ("el", "a", d_vec(3)), ("agg", "sum", "b", d_vec(3)))]
    for t in chan:
        vals, leaves = tree_values(t)
        m = new_model()
        els = {nm: build(m, nm, d, vals[nm]) for nm, d in sorted(leaves.items())}
        R = m.converter("R"); R.equation = tree_build(t, els)
        _, _, exp = spec_tree(t, vals)
        got, cols = plot_values(R)
        rows["channel plot(return_df=True)"] = rows.get("channel plot(return_df=True)", 0) + 1
        chk.case(("plot", tree_wire(t)), nontrivial=True)
        dd = compare_values(got, {k: float(v) for k, v in exp.items()}, exact=False)
        if dd is not None:
            note_violation("wrong-value:plot-channel", 30, f"{tree_show(t)}: plot(return_df=True) shows {dd[1]!r} for {dd[0]}, numpy gives {dd[2]}", {"kind": "tree", "tree": t, "salt": 0})
        # flow target: the entries are max(0, entry)
        m = new_model()
        els = {nm: build(m, nm, d, vals[nm]) for nm, d in sorted(leaves.items())}
        F = m.flow("F")
        try:
            F.equation = tree_build(t, els)
            _, fgot = observe_stock_fresh(F) if False else (None, {tuple(k): None for k in ()})
            fvals = {}
            for k in F._elements.equations:
                sub = F[k]
                if sub._elements.vector_size() == 0:
                    fvals[(k,)] = safe_eval(sub)
                else:
                    for l in sub._elements.equations:
                        fvals[(k, l)] = safe_eval(sub[l])
            rows["target kind flow"] = rows.get("target kind flow", 0) + 1
            dd = compare_values(fvals, {k: max(0.0, float(v)) for k, v in exp.items()}, exact=False)
            if dd is not None:
                note_violation("wrong-value:flow-target", 31, f"flow F := {tree_show(t)}: {dd[0]} is {dd[1]!r}, max(0, numpy entry) is {dd[2]}", {"kind": "tree", "tree": t, "salt": 0, "target": "flow"})
        except Exception:
            pass
        # constant target: a constant cannot hold an equation — accepted means values
        m = new_model()
        els = {nm: build(m, nm, d, vals[nm]) for nm, d in sorted(leaves.items())}
        C = m.constant("C")
        rows["target kind constant"] = rows.get("target kind constant", 0) + 1
        try:
            C.equation = tree_build(t, els)
            cvals = {}
            for k in C._elements.equations:
                sub = C[k]
                if sub._elements.vector_size() == 0:
                    cvals[(k,)] = safe_eval(sub)
                else:
                    for l in sub._elements.equations:
                        cvals[(k, l)] = safe_eval(sub[l])
            dd = compare_values(cvals, {k: float(v) for k, v in exp.items()}, exact=False)
            if dd is not None:
                note_violation("constant-target-operator-dropped", 32, f"constant C := {tree_show(t)} is accepted: {dd[0]} is {dd[1]!r}, numpy gives {dd[2]} "
                               "(Constant.equation tests `equation == None`, truthy for an operator: the equation is dropped, the entries keep the 0 of the set-up)",
                               {"kind": "tree", "tree": t, "salt": 0, "target": "constant"})
        except Exception:
            pass
    # two models alive at the same time, same element names, different shapes
    m1, m2 = new_model(), new_model()
    A1 = build(m1, "A", d_mat(2, 2), values_for(d_mat(2, 2), 1)); A2 = build(m2, "A", d_mat(2, 3), values_for(d_mat(2, 3), 2))
    v1 = build(m1, "v", d_vec(2), values_for(d_vec(2), 3)); v2 = build(m2, "v", d_vec(3), values_for(d_vec(3), 4))
    for rnd in range(3):
        for (mm, A, v, dA, dv, sa, sv) in ((m1, A1, v1, d_mat(2, 2), d_vec(2), 1, 3), (m2, A2, v2, d_mat(2, 3), d_vec(3), 2, 4)):
            R = mm.converter(f"R{rnd}"); R.equation = A.dot(v)
            _, got = observe(R)
            exp = np.dot(np_array(dA, values_for(dA, sa)), np_array(dv, values_for(dv, sv)))
            rows["two models side by side"] = rows.get("two models side by side", 0) + 1
            dd = compare_values(got, {(str(i),): float(exp[i]) for i in range(len(exp))}, exact=False)
            if dd is not None:
                note_violation("wrong-value:two-models", 33, f"two models with an element A of different shapes, A.dot(v) in turn: {dd}", {"kind": "two-models"})
    return rows


# ------------------------------------------------------------------ probes and Gen file
def probe():
    facts = {}
    try:                                   # (text outside the Python fragment must not stop the probes: values only)
        l, v, _, va, vb = run_real("mul", ("num", "2.0"), d_mat(1, 2))
        facts["number_times_matrix_indexes_elements"] = v is not None and all(v.get(k) == 2.0 * x for k, x in vb.items())
        l, v, _, _, _ = run_real("mul", ("num", "2.0"), d_vec(2))
        facts["number_times_vector_accepted"] = v is not None
    except pyfrag.Unsupported:
        facts["number_times_matrix_indexes_elements"] = facts["number_times_vector_accepted"] = True
    g = Gen(None)
    t = FIXED_NESTED[0](g, 2, 2)
    facts["dot_operand_reindexed_at_every_level"] = run_nested(t, g.leaves) is not None and not run_nested(t, g.leaves)
    # the mechanism itself (Cfg.reindexAll): arrayed_term(index) of a nested operand is the text of a fresh clone with that
    # index at EVERY level, and the call leaves the operand and its nested operators as they were
    try:
        m = new_model()
        a, b, c = (build(m, n, d_vec(2), values_for(d_vec(2), i)) for i, n in enumerate("abc"))
        x = ((a + b) + c).clone_with_index([0])
        inner = x.element_1
        before = (list(x.index), list(inner.index))
        t1 = x.arrayed_term([1], "t")
        t2 = x.clone_with_index([1]).term("t")
        # behavioural, not structural: the text must mention a[1], b[1], c[1] and none of the entries of index 0,
        # whatever its layout; and it must be what a fresh clone gives
        refs = set(__import__("re").findall(r"memoize\('([^']+)'", t1))
        facts["arrayed_term_reclones_every_level"] = (fs_tokens(PREFIX + t1) == fs_tokens(PREFIX + t2) and refs == {"a[1]", "b[1]", "c[1]"}
                                                       and (list(x.index), list(inner.index)) == before)
    except Exception:
        facts["arrayed_term_reclones_every_level"] = False
    # DimCfg.checkEw: resolve_dimensions of every element-wise class compares the dimensions of two arrays
    import BPTK_Py.sddsl.operators as ops
    chk_ = True
    for cname in DIM_CLASSES[:5]:
        m = new_model()
        try:
            getattr(ops, cname)(_dim_leaf(m, "A", (2, 2)), _dim_leaf(m, "B", (2, 3))).resolve_dimensions()
            chk_ = False
        except Exception:
            pass
    facts["elementwise_dimensions_compared"] = chk_
    # KindCfg.constantKeepsEquation: a Constant target either refuses the operator or shows its entries
    try:
        m = new_model()
        a = build(m, "a", d_vec(2), {("0",): 1.0, ("1",): 2.0})
        C = m.constant("C")
        C.equation = a * 2.0
        facts["constant_target_keeps_equation"] = [C[i](1.0) for i in range(2)] == [2.0, 4.0]
    except Exception:
        facts["constant_target_keeps_equation"] = True          # refused: nothing is shown
    # TgtCfg.resetTarget: an arrayed equation replaces the sub-elements of a target that already has some
    try:
        r_ = run_reuse(REUSE_EQS[0][1], REUSE_EQS[1][1])
        facts["target_reset_on_arrayed_assignment"] = r_[1] is not None and sorted(r_[1]) == [("0",), ("1",)]
    except Exception:
        facts["target_reset_on_arrayed_assignment"] = False
    # … and the key SET of the target equals the key set of the equation also when the layout stays the same
    try:
        eqs = dict(REUSE_EQS)
        r_ = run_reuse(eqs["named abc"], eqs["named xyz"])
        r2_ = run_reuse(eqs["named abc"], eqs["named abd"])
        facts["target_keys_equal_equation_keys"] = (r_[1] is not None and sorted(r_[1]) == [("x",), ("y",), ("z",)]
                                                    and r2_[1] is not None and sorted(r2_[1]) == [("a",), ("b",), ("d",)])
    except Exception:
        facts["target_keys_equal_equation_keys"] = False
    return facts


def gen_lean(facts, dim_rows=()):
    rows = ",\n  ".join(f"({ci}, {lean_code(a)}, {lean_code(b)}, {'true' if acc else 'false'})" for ci, a, b, acc in dim_rows)
    ck = "true" if facts.get("elementwise_dimensions_compared") else "false"
    dims_part = (f"/-- probed: resolve_dimensions of the element-wise classes {'compares' if ck == 'true' else 'does NOT compare'} the dimensions of two arrays -/\n"
                 f"def dimCfg : DimCfg := {{ checkEw := {ck} }}\n"
                 + ("theorem rejects_holds : C10_rejects dimCfg := C10_rejects_of_good dimCfg (by decide)\n#print axioms rejects_holds\n" if ck == "true" else
                    "theorem rejects_violated : ¬ C10_rejects dimCfg := C10_rejects_witness dimCfg (by decide)\n#print axioms rejects_violated\n")
                 + "/-- accept / reject of the REAL constructors + resolve_dimensions() for every pair of leaf shapes up to 3x3 and one\n"
                   "nesting level on either side, per operator class (0..5 = + - * / number* dot): the model decides every row the same way -/\n"
                 f"def dimsTable : List (Nat × OpCode × OpCode × Bool) := [\n  {rows}]\n"
                 "theorem dims_table_ok : dimsTable.all (rowOK dimCfg) = true := by decide +kernel\n")
    return ("import Bptk.Props.C10\n/-! GENERATED by harness/props/c10.py on every run — do not edit.\n"
            f"probed mechanism facts: {facts} -/\n"
            "namespace Bptk.C10.Gen\nopen Bptk.C10 Bptk.Py\n"
            "theorem holds : C10_full := C10_full_holds\n#print axioms holds\n"
            "theorem holds_wave2 : C10_wave2 := C10_wave2_holds\n#print axioms holds_wave2\n"
            + dims_part
            + ("def kindCfg : KindCfg := { constantKeepsEquation := true }\n"
               "theorem target_kinds_hold : C10_target_kinds kindCfg := C10_target_kinds_of_good kindCfg (by decide)\n"
               if facts.get("constant_target_keeps_equation") else
               "/-- probed: a Constant target drops an operator equation and keeps 0 (known finding constant-target-operator-dropped) -/\n"
               "def kindCfg : KindCfg := { constantKeepsEquation := false }\n"
               "theorem target_kinds_violated : ¬ C10_target_kinds kindCfg := C10_target_kinds_witness kindCfg (by decide)\n")
            + (("def tgtCfg : TgtCfg := { resetTarget := true, resetSameLayout := true }\n"
                "theorem target_holds : C10_target_full tgtCfg := C10_target_full_of_good tgtCfg (by decide) (by decide)\n#print axioms target_holds\n")
               if facts.get("target_reset_on_arrayed_assignment") and facts.get("target_keys_equal_equation_keys") else
               ("/-- probed: an arrayed equation ADDS to the sub-elements its target already has -/\n"
                "def tgtCfg : TgtCfg := { resetTarget := false, resetSameLayout := false }\n"
                "theorem target_violated : ¬ C10_target_full tgtCfg := C10_target_witness tgtCfg (by decide)\n#print axioms target_violated\n")
               if not facts.get("target_reset_on_arrayed_assignment") else
               ("/-- probed: the target is reset when its layout differs, but keeps its sub-elements (and their NAMES) when it has the layout of the new equation -/\n"
                "def tgtCfg : TgtCfg := { resetTarget := true, resetSameLayout := false }\n"
                "theorem target_violated : ¬ C10_target_full tgtCfg := C10_target_witness_layout tgtCfg (by decide)\n#print axioms target_violated\n"))
            + ("/-- probed: arrayed_term re-clones the operand with the asked index at every level -/\n"
               "def cfg : Cfg := { reindexAll := true }\n"
               "theorem holds_nested : C10_nested_full cfg := C10_nested_full_of_good cfg (by decide)\n#print axioms holds_nested\n"
               if facts.get("arrayed_term_reclones_every_level") else
               "/-- probed: arrayed_term does NOT re-index the nested operators of a compound operand -/\n"
               "def cfg : Cfg := { reindexAll := false }\n"
               "theorem violated_nested : ¬ C10_nested_full cfg := C10_nested_witness cfg (by decide)\n#print axioms violated_nested\n") +
            "/-- wave 2, kernel-computed: a depth-3 operand of dot is re-indexed at every level (the probed mechanism),\n"
            "and the nested model on a flat tree is the wave-1 model. -/\n"
            "example : (expandE tNow (.op .dot (.el (.mat \"M\" 1 2)) (.op (.ew .add) (.op (.ew .add) (.el (.vec \"a\" 2))\n"
            "    (.el (.vec \"b\" 2))) (.el (.vec \"c\" 2))))).map (fun r => r.exprs.map (fun p => (pr p).length)) = some [89] ∧\n"
            "    (expandE tNow (.op .dot (.el (.mat \"A\" 2 3)) (.el (.vec \"v\" 3)))).isSome\n"
            "      = (expand .dot (.el (.mat \"A\" 2 3)) (.el (.vec \"v\" 3))).isSome := by decide +kernel\n"
            "/-- non-vacuity on a concrete instance, computed by the kernel: a 2x3 · 3 dot product is accepted,\n"
            "its entries are well-levelled; a 2x3 + 3x2 addition is rejected. -/\n"
            "example : (match expand .dot (.el (.mat \"A\" 2 3)) (.el (.vec \"v\" 3)) with\n"
            "    | some (.vector false es) => es.length == 2 && es.all (fun kp => WLb 0 kp.2)\n"
            "    | _ => false) = true ∧\n"
            "    (expand (.ew .add) (.el (.mat \"A\" 2 3)) (.el (.mat \"B\" 3 2))).isNone = true := by decide +kernel\n"
            "end Bptk.C10.Gen\n")


COMBOS = ([(zs, k) for zs in (100, 101, 102, 110, 111, 112, 113) for k in ("constant", "converter")] + [(0, "constant")]
          # wave 7: set-up with one default value, int lists, decimals/large values, stock / flow / computed entries
          + [(111, "default"), (117, "converter"), (118, "converter"), (118, "constant"), (0, "stock"), (100, "stock"), (111, "flow"), (0, "timed")])


# ------------------------------------------------------------------ the check
def run(chk):
    quiet_bptk_logging()
    UNSUPPORTED[0] = 0
    facts = probe()
    chk.notes["probes"] = facts
    dim_rows = probe_dims_table()
    chk.cov["dims_probe_table"] = {"rows": len(dim_rows), "accepted": sum(r[3] for r in dim_rows)}
    ok, why = chk.prove(gen_lean(facts, dim_rows), extra_sources=["Bptk/Core/PyFrag.lean", "Bptk/Proofs/PyFrag.lean"])
    K = 3 if chk.quick else 4
    chk.cov["trusted_base"] = [
        "Lean 4.33 kernel; axioms propext, Classical.choice, Quot.sound (audited per run via #print axioms)",
        "hand-written model lean/Bptk/Core/C10.lean of BinaryOperator.__init__ checks, resolve_dimensions, is_named/index_to_string, "
        "Element._handle_arrayed (generic and Stock branch), clone_with_index/arrayed_term at every level of an operand tree, the arrayed branches of term(), "
        "DotOperator.term, Stock.build_function_string and the Array*Operator terms; tied to /repo by the token-level correspondence of this check "
        "(exhaustive on flat pairs to K and on depth-2 nestings over a leaf set, seeded beyond); expandE_flat proves the nested model equals the flat one on flat operands",
        "harness/pyfrag.py lexer (Python tokenize) and CPython's expression grammar = A1 (Bptk.Proofs.PyFrag.parse_print)",
        "numpy: np.mean/np.median/np.std/sorted are opaque functions of the row-major element list (agg_args); the reference check calls numpy itself",
    ]
    chk.assumptions = [
        "targets: a fresh converter, a fresh stock, an arrayed stock (Stock branch of _handle_arrayed: operator equations and arrayed-element equations); "
        "an arrayed stock whose shape differs from the equation's is assigned where the keys exist and is not a refusal (counted in stock_targets.stock_shape_differs_accepted)",
        "rows of a matrix have the same keys in the Lean model; named matrices with differing row keys are covered by the numpy oracle only (ragged_named_matrices)",
        "operands are numbers, elements or operators over such operands to any depth (+ - * / number*array, unary minus, dot with an element on the left — the DSL's API); "
        "functions (If, max, lookup, ...) as operands are outside",
        "a nested operand with numeric index NAMES inside dot is read by key; alphabetic names are used in generated trees",
        "arr_size is the documented vector size (first dimension, len(A)), not numpy's total size",
        "an evaluation error (ZeroDivisionError where numpy continues with inf/nan) is 'no value', not a wrong value",
    ]
    chk.cov["rule"] = (f"all pairs of operands from {{3 number literals, scalar element, vectors 1..{K}, matrices up to {K}x{K}, named vectors (same names / "
                       f"permuted / one differing name / numeric names), named matrices}} x {{+ - * / dot}} (both orders arise from the pair enumeration; number*array = "
                       "NumericalMultiplication), unary minus, and every aggregate (sum prod mean median std size, rank for k in {-2..2, count-1..count+3}) on every shape; "
                       "per case: token equality of every element's function string with the model's output, acceptance equality, values at t=1 against numpy by key, "
                       "mismatching shapes/index names must raise; plus fixed and seeded nested expressions against numpy. non-trivial = at least one arrayed operand. "
                       "Wave 2: every pair / aggregate again under value tables {all zero, zero row, alternating zeros, -0.0, all equal, mixed 0.0/-0.0/duplicates, equal negatives} x "
                       "{constants, converters} (3 of 15 per case rotating in quick, all in thorough): equations token-identical to the base run, values = numpy; "
                       "operand TREES in the Lean model: all depth-2 one-sided nestings over a leaf set + typed random trees of depth 2-3 (2-4 thorough), token-exact against expandE, "
                       "values against an independent numpy evaluator with the strict shape/key rule; Stock targets: flat pairs, trees and arrayed-element equations on fresh and arrayed "
                       "stocks of equal / larger / smaller / other-rank / named shapes: full stock function strings against stockFs, values at t=2 = initial + 2*entry; "
                       "arr_sum/arr_prod with dimension 0..3 on every shape; ragged named matrices against the entry list")
    chk.cov["exhaustive"] = True
    # ---- real side + requests
    req, real, meta = [], [], []
    violations = {}          # key -> (size, text, replay)
    codegen_only = set()     # value-dependent code generation seen without a wrong value (reported without failing input)
    unsupported = 0
    dist = {}

    def note_violation(key, size, text, replay, no_input=False):
        """keeps, per key, the smallest case WITH a failing input; a case without one only when there is no other"""
        rank_ = (1 if no_input else 0, size)
        if key not in violations or rank_ < violations[key][3]:
            violations[key] = (size, text, dict(replay, **({"correspondence": "generated code depends on element values / kinds; no wrong value found"} if no_input else {})), rank_)

    for form, da, db in binary_cases(K, chk.quick):
        try:
            line, vals, exc, va, vb = run_real(form, da, db)
        except pyfrag.Unsupported as u:
            unsupported += 1
            continue
        req.append(model_request(form, da, db)); real.append(line); meta.append((form, da, db))
        nontriv = is_arr(da) or (db is not None and is_arr(db))
        txt = case_text(form, da, db)
        chk.case((form, da, db), nontrivial=nontriv, sample=txt + " -> " + line[:80] if nontriv and form == "dot" and line != "none" else None)
        dist[form] = dist.get(form, 0) + 1
        dist["accepted" if line != "none" else "rejected"] = dist.get("accepted" if line != "none" else "rejected", 0) + 1
        import numpy as np
        with np.errstate(all="ignore"):
            exp = spec(form, da, db, va, vb)
        size = sum(len(d[1]) * max(1, len(d[2])) for d in (da, db) if d is not None and d[0] == "el")
        rep = {"kind": "binary", "form": form, "a": da, "b": db, "salt": 0}
        if exp is None and line != "none":
            note_violation(f"mismatch-accepted:{form}", size, f"{txt}: operands do not match but the equation is accepted ({line[:60]}…)", rep)
        elif exp is not None and line != "none":
            d = compare_values(vals, exp, exact=(form != "div"))
            if d is not None:
                note_violation(f"wrong-value:{'nmul' if req[-1].startswith('expand nmul') else form}", size,
                               f"{txt}: element {d[0]} evaluates to {d[1]}, numpy gives {d[2]}", dict(rep, index=d[0], observed=d[1], expected=d[2]))
        # value tables and element kinds (item 4): the same case with zero / negative-zero / equal entries, held by
        # constants and by converters — the generated code must not depend on the values (token identity with the base
        # run, hence with the model), acceptance must not either, and the values must still be numpy's
        if nontriv or (da[0] == "el" and db is not None and db[0] == "el"):
            combos = COMBOS if not chk.quick else [COMBOS[(2 * len(req) + j) % len(COMBOS)] for j in range(2)]
            for zs, zkind in combos:
                try:
                    zline, zvals, zexc, zva, zvb = run_real(form, da, db, zs, zkind)
                except pyfrag.Unsupported:
                    unsupported += 1
                    continue
                dist["value_tables"] = dist.get("value_tables", 0) + 1
                kd = chk.cov.setdefault("value_table_kinds", {})
                kd[f"{zs}/{zkind}"] = kd.get(f"{zs}/{zkind}", 0) + 1
                if zline != line:
                    key = "acceptance-depends-on-values" if (zline == "none") != (line == "none") else "value-dependent-codegen"
                    import numpy as np
                    with np.errstate(all="ignore"):
                        zexp = spec(form, da, db, zva, zvb)
                    zd = compare_values(zvals, zexp, exact=False) if (zexp is not None and zline != "none") else None
                    note_violation(f"{key}:{form}", size,
                                   f"{txt} with value table {zs} held by {zkind}s: the generated equations differ from those for other values "
                                   f"({zline[:70]}… vs {line[:70]}…)" + (f"; element {zd[0]} evaluates to {zd[1]!r}, numpy gives {zd[2]}" if zd else ""),
                                   dict(rep, salt=zs, elem_kind=zkind), no_input=not zd)
                    continue
                if zline == "none":
                    continue
                import numpy as np
                with np.errstate(all="ignore"):
                    zexp = spec(form, da, db, zva, zvb)
                if zexp is None:
                    continue
                zd = compare_values(zvals, zexp, exact=(form != "div" and zs % 1000 != 118))
                if zd is not None:
                    note_violation(f"wrong-value:{'nmul' if req[-1].startswith('expand nmul') else form}", size,
                                   f"{txt} with value table {zs} held by {zkind}s: element {zd[0]} evaluates to {zd[1]!r}, numpy gives {zd[2]}",
                                   dict(rep, salt=zs, elem_kind=zkind, index=zd[0], observed=repr(zd[1]), expected=zd[2]))
    n_bin = len(req)
    for g, d in agg_cases(K):
        try:
            line, vals, exc, va = run_real_agg(g, d)
        except pyfrag.Unsupported:
            unsupported += 1
            continue
        req.append(f"agg {g} {wire_operand(d, 'A')}"); real.append(line); meta.append((g, d, None))
        chk.case((g, d), nontrivial=is_arr(d), sample=f"{g}({describe(d)}) -> {line[:80]}" if g.startswith("rank") and is_arr(d) else None)
        dist["agg"] = dist.get("agg", 0) + 1
        exp = spec_agg(g, d, va)
        if exp is not None:
            size = len(d[1]) * max(1, len(d[2]))
            rep = {"kind": "agg", "agg": g, "a": d, "salt": 0}
            if line == "none":
                continue                                             # rejection is never a violation
            if not close(vals[()], exp, exact=g.split(":")[0] in ("sum", "prod", "size", "rank")):
                note_violation(f"wrong-value:{g.split(':')[0]}", size, f"{g}({describe(d)}) evaluates to {vals[()]}, numpy gives {exp}",
                               dict(rep, observed=vals[()], expected=exp))
    # ---- aggregates under value tables / element kinds (item 4) and with an explicit dimension (item 5)
    import numpy as np
    for ci, (g, d) in enumerate(agg_cases(K)):
        if not is_arr(d):
            continue
        g0 = g.split(":")[0]
        size = len(d[1]) * max(1, len(d[2]))
        base = run_real_agg(g, d)[0]
        combos = COMBOS if not chk.quick else [COMBOS[(2 * ci + j) % len(COMBOS)] for j in range(2)]
        for zs, zkind in combos:
            try:
                zline, zvals, zexc, zva = run_real_agg(g, d, zs, zkind)
            except pyfrag.Unsupported:
                unsupported += 1
                continue
            dist["agg_value_tables"] = dist.get("agg_value_tables", 0) + 1
            rep = {"kind": "agg", "agg": g, "a": d, "salt": zs, "elem_kind": zkind}
            if zline != base:
                key = "acceptance-depends-on-values" if (zline == "none") != (base == "none") else "value-dependent-codegen"
                note_violation(f"{key}:{g0}", size, f"{g}({describe(d)}) with value table {zs} held by {zkind}s: the generated equation differs "
                               f"from the one for other values ({zline[:70]}… vs {base[:70]}…)", rep, no_input=True)
                continue
            if zline == "none":
                continue
            with np.errstate(all="ignore"):
                zexp = spec_agg(g, d, zva)
            if zexp is not None and not close(zvals[()], zexp, exact=g0 in ("sum", "prod", "size", "rank") and zs % 1000 != 118):
                note_violation(f"wrong-value:{g0}", size, f"{g}({describe(d)}) with value table {zs} held by {zkind}s evaluates to {zvals[()]!r}, numpy gives {zexp}",
                               dict(rep, observed=repr(zvals[()]), expected=zexp))
        if g in ("sum", "prod"):
            for dim in (0, 1, 2, 3):
                try:
                    line, vals, exc, va = run_real_agg(g, d, dim=dim)
                except pyfrag.Unsupported:
                    line, vals = "none", None          # the empty text cannot be lexed either: refused
                req.append(f"aggdim {g} {dim} {wire_operand(d, 'A')}"); real.append(line); meta.append((g, d, None))
                chk.case(("aggdim", g, dim, d), nontrivial=True)
                dist["agg_dimension"] = dist.get("agg_dimension", 0) + 1
                if line != "none":
                    exp = spec_agg(g, d, va)
                    if not close(vals[()], exp, exact=True):
                        note_violation(f"wrong-value:{g}-dimension", size, f"arr_{g}({dim}) of {describe(d)} evaluates to {vals[()]}, numpy's total gives {exp}",
                                       {"kind": "agg", "agg": g, "a": d, "salt": 0, "dim": dim, "observed": vals[()], "expected": exp})
    # ---- ragged named matrices (oracle only: the Lean element has uniform rows)
    ragged = {}
    for rows in ({"x": {"a": 1.0, "b": 2.0}, "y": {"a": 3.0}}, {"x": {"a": 2.0}, "y": {"a": 3.0, "b": 4.0, "c": -1.0}}):
        flat = [v for r_ in rows.values() for v in r_.values()]
        for g in ("sum", "prod", "size", "mean", "median", "std", "rank:1"):
            acc, val = run_ragged(g, rows)
            ragged[f"{g}{[len(r_) for r_ in rows.values()]}"] = ("accepted: " + repr(val)) if acc else "rejected"
            chk.case(("ragged", g, tuple(len(r_) for r_ in rows.values())), nontrivial=True)
            want = {"sum": float(np.sum(flat)), "prod": float(np.prod(flat)), "size": float(len(rows))}.get(g)
            if acc and want is not None and not close(val, want, exact=True):
                note_violation(f"wrong-value:{g}-ragged", len(flat), f"arr_{g} of the named matrix {rows} evaluates to {val!r}, the entries give {want}",
                               {"kind": "ragged", "agg": g, "rows": rows, "observed": repr(val), "expected": want})
            if acc and want is None and not (isinstance(val, tuple) and val[0] == "err"):
                ref = {"mean": np.mean, "median": np.median, "std": np.std}.get(g)
                if ref is not None and not close(val, float(ref(flat)), exact=False):
                    note_violation(f"wrong-value:{g}-ragged", len(flat), f"arr_{g} of the named matrix {rows} evaluates to {val!r}, numpy on the entries gives {float(ref(flat))}",
                                   {"kind": "ragged", "agg": g, "rows": rows, "observed": repr(val), "expected": float(ref(flat))})
    chk.cov["ragged_named_matrices"] = ragged
    # ---- nested operand trees in the model (item 2): exhaustive depth 2 over a leaf set + typed random depth 2..4
    trees = nested_exhaustive(NEST_LEAVES if chk.quick else NEST_LEAVES_T)
    n_exh = len(trees)
    rngt = chk.rng.fork("c10-trees")
    tg = TGen(rngt)
    want_n = 2000 if chk.quick else 25000
    while len(trees) < n_exh + want_n:
        shape = rngt.choice([(), (1,), (2,), (2,), (3,), (1, 2), (2, 1), (2, 2), (2, 2), (2, 3), (3, 2)])
        t = tg.expr(shape, rngt.range(2, 3 if chk.quick else 4), named=(len(shape) >= 1 and rngt.chance(1, 6)))
        if t[0] == "op" or (t[0] == "neg" and t[1][0] != "el"):
            trees.append(t)
    ndist = {"exhaustive_depth2": n_exh, "random_typed": len(trees) - n_exh, "accepted": 0, "accepted_depth": {}, "must_reject": 0, "with_dot": 0, "with_aggregate_operand": 0}
    stock_pool = []
    for ti, t in enumerate(trees):
        try:
            line, got, exc, vals = run_tree(t)
        except pyfrag.Unsupported:
            unsupported += 1
            continue
        req.append(f"expandxc {1 if facts.get('arrayed_term_reclones_every_level') else 0} " + tree_wire(t)); real.append(line); meta.append(("tree", None, None))
        txt = tree_show(t)
        acc = line != "none"
        dep = tree_depth(t)
        chk.case(("tree", tree_wire(t)), nontrivial=True, sample=(txt + " -> " + line[:60]) if acc and dep >= 3 and ti % 97 == 0 else None)
        rep = {"kind": "tree", "tree": t, "salt": 0}
        ood = False
        try:
            shape, named, exp = spec_tree(t, vals)
        except OutOfDomain:
            shape, named, exp, ood = None, None, None, True
            ndist["out_of_domain"] = ndist.get("out_of_domain", 0) + 1
        except Mismatch as mm:
            shape, named, exp = None, None, None
            ndist["must_reject"] += 1
            if acc:
                note_violation("mismatch-accepted:nested", 100 + len(txt), f"{txt}: operands do not match ({mm}) but the equation is accepted ({line[:60]}…)", rep)
        if acc:
            ndist["accepted"] += 1
            ndist["accepted_depth"][dep] = ndist["accepted_depth"].get(dep, 0) + 1
            ndist["with_dot"] += "dot" in txt
            ndist["with_aggregate_operand"] += "arr_" in txt
            if exp is not None:
                dd = compare_values(got, {k: float(v) for k, v in exp.items()}, exact=False)
                if dd is not None:
                    note_violation("wrong-value:nested-dot-operand" if "dot" in txt else "wrong-value:nested", 100 + len(txt),
                                   f"{txt}: element {dd[0]} evaluates to {dd[1]!r}, numpy gives {dd[2]}",
                                   dict(rep, index=dd[0], observed=repr(dd[1]), expected=dd[2]))
            if ti % (4 if chk.quick else 2) == 0:                     # value tables / kinds on trees
                for zs, zkind in ((112, "constant"), (100, "constant"), (111, "converter")):
                    try:
                        zline, zgot, zexc, zvals = run_tree(t, zs, zkind)
                    except pyfrag.Unsupported:
                        continue
                    if zline != line:
                        note_violation("value-dependent-codegen:nested", 100 + len(txt), f"{txt} with value table {zs} held by {zkind}s: the generated equations differ "
                                       f"from those for other values ({zline[:70]}… vs {line[:70]}…)", dict(rep, salt=zs, elem_kind=zkind), no_input=True)
                        continue
                    try:
                        _, _, zexp = spec_tree(t, zvals)
                    except OutOfDomain:
                        ndist["out_of_domain_value_tables"] = ndist.get("out_of_domain_value_tables", 0) + 1
                        continue
                    except Mismatch:
                        continue
                    dd = compare_values(zgot, {k: float(v) for k, v in zexp.items()}, exact=False)
                    if dd is not None:
                        note_violation("wrong-value:nested-dot-operand" if "dot" in txt else "wrong-value:nested", 100 + len(txt),
                                       f"{txt} with value table {zs} held by {zkind}s: element {dd[0]} evaluates to {dd[1]!r}, numpy gives {dd[2]}",
                                       dict(rep, salt=zs, elem_kind=zkind, index=dd[0], observed=repr(dd[1]), expected=dd[2]))
        if not ood and (ti % (9 if chk.quick else 2) == 0 or (acc and dep >= 2 and ti % (8 if chk.quick else 2) == 0)):
            stock_pool.append((t, shape, named, exp))
    chk.cov["nested_trees_in_model"] = ndist
    # ---- Stock targets (item 3): flat pairs, nested trees and arrayed-element equations on fresh / arrayed stocks
    flat_ops = [("num", "2.0"), ("el", "s", d_scalar()), ("el", "a", d_vec(2)), ("el", "b", d_vec(2)), ("el", "c", d_vec(3)),
                ("el", "M", d_mat(2, 2)), ("el", "N", d_mat(1, 2)), ("el", "P", d_mat(2, 1)), ("el", "na", d_nvec("ab")), ("el", "nb", d_nvec("ba"))]
    for x in flat_ops:
        for y in flat_ops:
            for f in (("add", "div", "dot") if chk.quick else ("add", "mul", "sub", "div", "dot")):
                if (x[0] == "num" and (y[0] == "num" or f == "dot")):
                    continue
                t = ("op", f, x, y)
                try:
                    shape, named, exp = spec_tree(t, tree_values(t)[0])
                except OutOfDomain:
                    continue
                except Mismatch:
                    shape, named, exp = None, None, None
                stock_pool.append((t, shape, named, exp))
        if x[0] == "el" and is_arr(x[2]):
            stock_pool.append((x, shape_of(x[2]), x[2][3], None))
    for extra in (("el", "Q", d_mat(2, 3)), ("el", "NM", d_nmat("xy", "ab")), ("el", "NM2", d_nmat("yx", "ba"))):
        stock_pool.append((extra, shape_of(extra[2]), extra[2][3], None))
    sdist = {"cases": 0, "accepted": 0, "fresh": 0, "arrayed_operator": 0, "arrayed_element": 0, "stock_shape_differs_accepted": 0}
    for t, shape, named, exp in stock_pool:
        if t[0] == "el":
            d = t[2]
            targets = [d_vec(len(d[1])), d_vec(len(d[1]) + 1), d_mat(len(d[1]), 2), d_mat(len(d[1]), max(1, len(d[2]))),
                       d_nvec([kstr(k) for k in d[1]]), d_nvec([kstr(k) for k in d[1]][::-1]),
                       d_nmat([kstr(k) for k in d[1]], [kstr(l) for l in d[2]] or ["a"])]
        elif shape is None:
            targets = [d_scalar(), d_vec(2), d_mat(2, 2)]
        else:
            targets = stock_targets(shape, named, sorted(exp) if exp else [])
        for sd in targets:
            try:
                line, got, inits, exc, vals = run_stock(t, sd)
            except pyfrag.Unsupported:
                unsupported += 1
                continue
            req.append(stock_request(t, sd)); real.append(line); meta.append(("stock", None, None))
            sdist["cases"] += 1
            sdist["accepted"] += line != "none"
            sdist["fresh" if not sd[1] else ("arrayed_element" if t[0] == "el" else "arrayed_operator")] += 1
            txt = f"stock {describe(sd)} := {tree_show(t)}"
            chk.case(("stock", sd, tree_wire(t)), nontrivial=True, sample=(txt + " -> " + line[:60]) if line != "none" and sdist["accepted"] % 211 == 0 else None)
            rep = {"kind": "stock", "tree": t, "stock": sd, "salt": 0}
            if line == "none":
                continue
            if t[0] == "el":
                ev = {k: float(v) for k, v in vals[t[1]].items()}
                dd = next(((list(k), got[k], inits[k] + 2.0 * ev[k]) for k in sorted(got) if k in ev and not close(got[k], inits[k] + 2.0 * ev[k], exact=False)), None)
            elif exp is None:
                note_violation("mismatch-accepted:stock", 200 + len(txt), f"{txt}: the operands of the equation do not match but it is accepted ({line[:60]}…)", rep)
                continue
            else:
                if shape_of(sd) != shape and sd[1]:
                    sdist["stock_shape_differs_accepted"] += 1
                ev = {k: float(v) for k, v in exp.items()}
                dd = next(((list(k), got[k], inits[k] + 2.0 * ev[k]) for k in sorted(got) if k in ev and not close(got[k], inits[k] + 2.0 * ev[k], exact=False)), None)
            if dd is not None:
                note_violation("wrong-value:stock", 200 + len(txt), f"{txt}: sub-stock {dd[0]} is {dd[1]!r} at t=2, initial value + 2·(numpy entry) is {dd[2]}",
                               dict(rep, index=dd[0], observed=repr(dd[1]), expected=dd[2]))
    chk.cov["stock_targets"] = sdist
    chk.cov["op_distribution"] = dist
    chk.cov["unsupported_strings"] = unsupported
    # ---- nested expressions against numpy (reference check only)
    n_nested = n_nested_acc = 0
    dims = [(m, n) for m in range(1, K + 1) for n in range(1, K + 1)]
    dims.sort(key=lambda p: p[0] * p[1])
    for fi, f in enumerate(FIXED_NESTED):
        for (m, n) in dims:
            g = Gen(None)
            t = f(g, m, n)
            d = run_nested(t, g.leaves)
            n_nested += 1
            n_nested_acc += d is not None
            chk.case(("nested", fi, m, n), nontrivial=True)
            if d:
                note_violation("wrong-value:nested-dot-operand" if t[0] == "dot" else "wrong-value:nested", m * n + 100,
                               f"{tree_text(t)}: element {d[0]} evaluates to {d[1]}, numpy gives {d[2]}",
                               {"kind": "nested", "tree": t, "leaves": g.leaves, "index": d[0], "observed": d[1], "expected": d[2]})
    rng = chk.rng.fork("c10-nested")
    for _ in range(300 if chk.quick else 3000):
        g = Gen(rng)
        shape = rng.choice([(), (1,), (2,), (3,), (1, 2), (2, 2), (2, 3), (3, 1)])
        if shape == ():
            t = ("add", ("dot", g.leaf((2,)), g.leaf((2,))), g.leaf(())) if rng.chance(1, 2) else ("mul", ("dot", g.leaf((3,)), g.leaf((3,))), ("num", 2.0))
        else:
            t = g.expr(shape, rng.range(1, 3))
        if t[0] in ("leaf", "num"):
            continue
        d = run_nested(t, g.leaves)
        n_nested += 1
        n_nested_acc += d is not None
        chk.case(("nested-random", tree_text(t)), nontrivial=True, sample=tree_text(t) if d is False and len(chk.cov["samples"]) < 5 else None)
        if d:
            note_violation("wrong-value:nested-dot-operand" if "dot" in tree_text(t) else "wrong-value:nested", 1000 + len(tree_text(t)),
                           f"{tree_text(t)}: element {d[0]} evaluates to {d[1]}, numpy gives {d[2]}",
                           {"kind": "nested", "tree": t, "leaves": g.leaves, "index": d[0], "observed": d[1], "expected": d[2]})
    chk.cov["nested_expressions"] = {"run": n_nested, "accepted": n_nested_acc}
    # ---- re-shape histories on ONE model (wave 3): set up, use, set up again with another shape, use again
    hists = [make_history(seq, 3 * i) for i, seq in enumerate(HIST_FAMILIES)]
    rngh = chk.rng.fork("c10-hist")
    for i in range(12 if chk.quick else 120):
        seq = []
        for _ in range(rngh.range(2, 4)):
            c = rngh.below(6)
            seq.append(("V", rngh.range(1, 3)) if c == 0 else ("NV", rngh.choice(["ab", "abc", "ba"])) if c == 1 and not seq
                       else ("M", rngh.range(1, 3), rngh.range(1, 3)))
        hists.append(make_history(seq, 7 * i + 1))
    hdist = {"histories": 0, "uses": 0, "accepted": 0, "setups": 0}
    for ops in hists:
        try:
            res = run_history(ops)
        except pyfrag.Unsupported:
            unsupported += 1
            continue
        req.append(hist_wire(ops)); real.append(" || ".join(r[0] for r in res)); meta.append(("history", None, None))
        hdist["histories"] += 1
        hdist["uses"] += len(res)
        hdist["accepted"] += sum(r[0] != "none" for r in res)
        hdist["setups"] += sum(o[0] in ("V", "M", "NV", "E") for o in ops) - len(HIST_PARTNERS) + 1
        shown = " -> ".join(f"{o[0]}{o[2:4] if o[0] == 'M' else o[2] if o[0] == 'V' else ''}" for o in ops if o[0] in ("V", "M", "NV") and o[1] == "H")
        chk.case(("history", hist_wire(ops)), nontrivial=True, sample=("history H: " + shown) if hdist["histories"] <= 3 else None)
        bad = next((r[3] for r in res if r[3] is not None), None)
        if bad is not None:
            small, f = hist_shrink(ops)
            key, text = (f[1][0], f[1][1]) if f else (bad[0], bad[1])
            steps = "; ".join((f"{o[1]}.setup_{'vector' if o[0] == 'V' else 'matrix' if o[0] == 'M' else 'named_vector'}({o[2:4] if o[0] == 'M' else o[2] if o[0] == 'V' else [k for k, _ in o[2]]})"
                               if o[0] in ("V", "M", "NV") else f"{o[1]}{o[2]} = {o[3]}" if o[0] == "E" else f"{o[1]} = {o[2]}" if o[0] == "S"
                               else "use " + (tree_show(_show_rt(_tup(o[1]))) if o[0] == "U" else f"{o[2]}.arr_{o[1]}")) for o in small)
            note_violation(key, len(small), f"after the history [{steps}]: {text}", {"kind": "history", "ops": small})
    chk.cov["reshape_histories"] = hdist
    # ---- wave 7: further API surfaces (target re-use, operator object re-use, plot channel, flow / constant targets, two models)
    chk.cov["surface_rows"] = run_surfaces(chk, note_violation, facts)
    # ---- model side
    model = [canon_assign(x) for x in drive("C10", req)]
    chk.cov["traces_validated_against_impl"] = len(req)
    diffs = [i for i, (a, b) in enumerate(zip(model, real)) if a != b]
    if len(model) != len(real):
        diffs.append(min(len(model), len(real)))
    chk.cov["correspondence_diffs"] = len(diffs)
    # ---- decide
    # a registered known finding must not hide a broken correspondence / obligation / probe
    try:
        known_keys = {k.get("key") for k in load_known() if k.get("property") == "C10" and k.get("kind") == "finding"}
    except Exception:
        known_keys = set()
    unexplained = [k for k in violations if k not in known_keys]
    for key, (size, text, rep, rank_) in sorted(violations.items()):
        chk.add_finding(key, text, rep, found_input=not rank_[0])
    for name, okp in facts.items():
        if not okp and not unexplained and name != "constant_target_keeps_equation":
            chk.add_finding("probe:" + name, f"mechanism probe {name} failed but no wrong value was found", {"probe": name}, found_input=False)
    unsupported += UNSUPPORTED[0]
    if unsupported:
        chk.add_finding("correspondence", f"{unsupported} function strings are outside the Python fragment A1", {"unsupported": unsupported}, found_input=False)
    if not ok:
        chk.add_finding("obligation", f"proof obligations of C10 no longer check: {why}",
                        {"theorem": "Bptk.C10.Gen.holds / Bptk.Props.C10", "detail": why}, found_input=False)
    if diffs and not unexplained:
        i = diffs[0]
        form, da, db = meta[i] if i < len(meta) else ("?", None, None)
        mt, rt = (model[i] if i < len(model) else ""), (real[i] if i < len(real) else "")
        mparts, rparts = mt.split(" | "), rt.split(" | ")
        j = next((k for k, (x, y) in enumerate(zip(mparts, rparts)) if x != y), min(len(mparts), len(rparts)))
        chk.add_finding("correspondence", f"model and implementation disagree on {len(diffs)} cases; first: {req[i]}",
                        {"correspondence": "Drive/C10 vs BPTK_Py.sddsl (per-element function strings)", "request": req[i],
                         "first_differing_part": j, "model": mparts[j] if j < len(mparts) else None,
                         "impl": rparts[j] if j < len(rparts) else None, "model_head": mt[:80], "impl_head": rt[:80]},
                        found_input=False)


def _tup(x):
    return tuple(_tup(y) for y in x) if isinstance(x, list) else x


def _show_rt(t):
    if t[0] == "ref":
        return ("el", t[1], None)
    if t[0] == "num":
        return t
    if t[0] == "neg":
        return ("neg", _show_rt(t[1]))
    return ("op", t[1], _show_rt(t[2]), _show_rt(t[3]))


def replay(path):
    import json
    quiet_bptk_logging()
    r = json.load(open(path))["replay"]
    kind = r.get("kind")
    if kind == "binary":
        da, db = _tup(r["a"]), (_tup(r["b"]) if r["b"] is not None else None)
        line, vals, exc, va, vb = run_real(r["form"], da, db, r.get("salt", 0), r.get("elem_kind"))
        import numpy as np
        with np.errstate(all="ignore"):
            exp = spec(r["form"], da, db, va, vb)
        if "correspondence" in r:           # value-dependent code generation: compare with the base run's equations
            base = run_real(r["form"], da, db)[0]
            print("case:", case_text(r["form"], da, db), "value table", r.get("salt"), r.get("elem_kind")); print("equations:", line[:300]); print("for other values:", base[:300])
            return 1 if line != base else 0
        print("case:", case_text(r["form"], da, db)); print("operands:", va, vb)
        print("implementation:", line[:200], vals, exc); print("numpy:", exp)
        if line == "none":
            return 0
        if exp is None:
            return 1
        return 1 if compare_values(vals, exp, exact=(r["form"] != "div")) else 0
    if kind == "agg":
        d = _tup(r["a"])
        line, vals, exc, va = run_real_agg(r["agg"], d, r.get("salt", 0), r.get("elem_kind", "converter"), r.get("dim"))
        import numpy as np
        with np.errstate(all="ignore"):
            exp = spec_agg(r["agg"], d, va)
        if "correspondence" in r:
            base = run_real_agg(r["agg"], d)[0]
            print("case:", r["agg"], describe(d), va); print("equation:", line[:300]); print("for other values:", base[:300])
            return 1 if line != base else 0
        print("case:", r["agg"], describe(d), va); print("implementation:", line[:200], vals, exc); print("numpy:", exp)
        if line == "none" or exp is None:
            return 0
        return 0 if close(vals[()], exp, exact=False) else 1
    if kind == "nested":
        t, leaves = _tup(r["tree"]), [tuple(x) for x in r["leaves"]]
        d = run_nested(t, leaves)
        print("expression:", tree_text(t)); print("first difference (None = rejected, False = agrees):", d)
        return 1 if d else 0
    if kind == "tree":
        t = _tup(r["tree"])
        line, got, exc, vals = run_tree(t, r.get("salt", 0), r.get("elem_kind", "converter"))
        print("equation:", tree_show(t)); print("leaves:", vals); print("implementation:", line[:300], got, exc)
        if "correspondence" in r:
            base = run_tree(t)[0]
            print("for other values:", base[:300])
            return 1 if line != base else 0
        try:
            _, _, exp = spec_tree(t, vals)
        except OutOfDomain as od:
            print("outside the value oracle's domain:", od)
            return 0
        except Mismatch as mm:
            print("numpy: operands do not match:", mm)
            return 1 if line != "none" else 0
        print("numpy:", {k: float(v) for k, v in exp.items()})
        if line == "none":
            return 0
        return 1 if compare_values(got, {k: float(v) for k, v in exp.items()}, exact=False) else 0
    if kind == "stock":
        t, sd = _tup(r["tree"]), _tup(r["stock"])
        line, got, inits, exc, vals = run_stock(t, sd, r.get("salt", 0))
        print("case: stock", describe(sd), ":=", tree_show(t)); print("leaves:", vals); print("implementation:", line[:300], got, exc)
        if line == "none":
            return 0
        try:
            exp = {k: float(v) for k, v in (vals[t[1]] if t[0] == "el" else spec_tree(t, vals)[2]).items()}
        except OutOfDomain as od:
            print("outside the value oracle's domain:", od)
            return 0
        except Mismatch as mm:
            print("numpy: operands do not match:", mm)
            return 1
        print("expected at t=2 (initial value + 2·entry):", {k: inits[k] + 2.0 * exp[k] for k in got if k in exp})
        return 1 if any(k in exp and not close(got[k], inits[k] + 2.0 * exp[k], exact=False) for k in got) else 0
    if kind == "history":
        ops = r["ops"]
        res = run_history(ops)
        ui = 0
        for o in ops:
            if o[0] in ("U", "A"):
                line, got, exc, v = res[ui]; ui += 1
                print("use", tree_show(_show_rt(_tup(o[1]))) if o[0] == "U" else f"{o[2]}.arr_{o[1]}", "->", line[:120], got, exc)
                if v is not None:
                    print("VIOLATED:", v[1])
            else:
                print("set-up", o)
        return 1 if any(x[3] is not None for x in res) else 0
    if kind == "reuse":
        t1, t2 = _tup(r["first"]), _tup(r["second"])
        line, got, qline, qgot, exc, vals, extras = run_reuse(t1, t2)
        print("R.equation =", tree_show(t1), "; then R.equation =", tree_show(t2)); print("R:", line[:200], got, exc)
        try:
            print("numpy:", {k: float(v) for k, v in spec_tree(t2, vals)[2].items()})
        except Exception as ex:
            print("numpy:", ex)
        print("aggregates of R / R - operand:", extras)
        prob, _ = reuse_verdict("first", t1, "second", t2)
        print("verdict:", prob)
        return 1 if prob is not None else 0
    if kind == "objreuse":
        t = _tup(r["tree"])
        l1, l2, g2, exc = run_object_reuse(t)
        print("same operator object in two converters:", tree_show(t)); print("first :", l1[:300]); print("second:", l2[:300])
        return 1 if l1 != l2 else 0
    if kind == "ragged":
        acc, val = run_ragged(r["agg"], r["rows"])
        print("case:", r["agg"], r["rows"], "->", acc, val, "expected", r.get("expected"))
        return 1 if acc and not close(val, r.get("expected"), exact=False) else 0
    print("replay names no input:", r)
    return 1
