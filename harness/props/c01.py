"""C01 — SD DSL simulation equals the explicit-Euler solution.

translate: operator tables probed at time `t` and at `t-model.dt` (time-marked placeholder operands),
element skeletons (stock / flow / biflow / converter / constant), smooth/trend helper elements ->
lean/Bptk/Gen/C01Table.lean;  obligations: tableOK for both tables, shiftOK (time threading), skeleton
shapes, spec shapes — `decide +kernel`.
correspondence: generated acyclic models simulated by the real code vs the Lean interpreter of the real
function strings (`evalM` on doubles, bit-exact);  reference: independent explicit-Euler loop in Python.
"""
import inspect, json, math
from common import *
import pyfrag

L = 6
TDT = "t-model.dt"


# ------------------------------------------------------------------ probe
def scratch():
    from BPTK_Py import Model
    return Model(0, 5, 1, name="c01probe")


def make_pm():
    import BPTK_Py.sddsl.operators as O

    class PM(O.Operator):
        """time-marked placeholder operand: renders as an element reference that records the time asked"""
        def __init__(self, i):
            super().__init__()
            self.i = i
        def term(self, time="t"):
            return f"model.memoize('__h{self.i}__',{time})"
    return PM


def holeify(words, time_words):
    """replace `model . memoize ( '__hI__' , <time> )` by hole I when <time> is exactly the requested time"""
    out, i = [], 0
    pre = ["Imodel", ".", "Imemoize", "("]
    while i < len(words):
        if words[i:i + 4] == pre and i + 5 < len(words) and words[i + 4].startswith("S") and words[i + 5] == ",":
            name = bytes.fromhex(words[i + 4][1:]).decode("latin-1")
            m = pyfrag.HOLE.match(name)
            j = i + 6
            if m and words[j:j + len(time_words)] == time_words and j + len(time_words) < len(words) and words[j + len(time_words)] == ")":
                out.append("H" + m.group(1))
                i = j + len(time_words) + 1
                continue
        out.append(words[i])
        i += 1
    return out


def class_recipes():
    """(key, constructor, n_placeholders) for every operator class; reflection picks up new classes."""
    import BPTK_Py.sddsl.operators as O
    PM = make_pm()
    m = scratch()
    recipes, problems = [], []
    skip = {"Operator", "Function", "BinaryOperator", "UnaryOperator", "NaryOperator", "DotOperator", "Trend", "Smooth",
            "ArrayProductOperator", "ArraySumOperator", "ArraySizeOperator", "ArrayRankOperator", "ArrayMeanOperator",
            "ArrayMedianOperator", "ArrayStandardDeviationOperator"}
    for name, cls in sorted(vars(O).items()):
        if not (inspect.isclass(cls) and issubclass(cls, O.Operator)) or name in skip or name == "PM":
            continue
        if name == "ComparisonOperator":
            for s in [">", "<", ">=", "<=", "==", "!="]:
                recipes.append((f"ComparisonOperator[{s}]", (lambda s: lambda ph: O.ComparisonOperator(ph[0], ph[1], s))(s), 2))
            continue
        if name == "Pulse":
            recipes.append(("Pulse[first]", lambda ph: O.Pulse(m, ph[0], 2.0, 0.0), 1))
            recipes.append(("Pulse[interval]", lambda ph: O.Pulse(m, ph[0], 2.0, 3.0), 1))
            continue
        if name == "Delay":
            recipes.append(("Delay", lambda ph: O.Delay(m, ph[0], 3.0, 1.5), 1))
            # duration and initial value given as model ELEMENTS (sd.delay accepts a Constant/Converter duration)
            recipes.append(("Delay[element]", lambda ph: O.Delay(m, ph[0], ph[1], ph[2]), 3))
            continue
        if name == "Lookup":
            recipes.append(("Lookup", lambda ph: O.Lookup(ph[0], "tbl"), 1))
            continue
        try:
            params = [p for p in inspect.signature(cls.__init__).parameters.values() if p.name != "self"]
        except (TypeError, ValueError):
            params = []
        plan = []
        for p in params:
            if p.kind in (p.VAR_POSITIONAL, p.VAR_KEYWORD) or p.name in ("index", "arrayed", "allow_different_sized_arrays"):
                continue
            plan.append("model" if p.name == "model" else "ph")
        n = plan.count("ph")
        def ctor(ph, cls=cls, plan=plan):
            it = iter(ph)
            return cls(*[m if x == "model" else next(it) for x in plan])
        recipes.append((name, ctor, n))
    recipes.append(("NaryOperator", lambda ph: O.NaryOperator("userfn", ph[0], ph[1]), 2))
    return recipes, PM, problems


def probe_tables():
    recipes, PM, problems = class_recipes()
    tt, tdt, unthreaded = [], [], {}
    for key, ctor, n in recipes:
        try:
            phs = [PM(i) for i in range(n)]
            obj = ctor(phs)
            wt = holeify(pyfrag.lex(obj.term("t")), pyfrag.lex("t"))
            wd = holeify(pyfrag.lex(obj.term(TDT)), pyfrag.lex(TDT))
        except Exception as ex:
            problems.append((key, f"{type(ex).__name__}: {str(ex)[:100]}"))
            continue
        # a placeholder that was asked for another time stays a literal memoize call: time not threaded
        miss = [i for i in range(n) if f"H{i}" not in wd or f"H{i}" not in wt]
        if key in ("Delay", "Delay[element]"):
            miss = []          # input is asked at the delayed time (duration / initial value at the start time) by definition;
            n = 0              # covered by shiftOK and the spec shape on the literal tokens
        if miss:
            unthreaded[key] = miss
        tt.append((key, n, wt))
        tdt.append((key, n, wd))
    return tt, tdt, unthreaded, problems


def safe_body_words(fs, problems=None):
    """body words, or a marker the skeleton obligations cannot match when the text is outside the fragment"""
    try:
        return body_words(fs)
    except (pyfrag.Unsupported, AssertionError, ValueError) as ex:
        if problems is not None:
            problems.append(f"{type(ex).__name__}: {str(ex)[:80]}")
        return ["IUNSUPPORTED_TEXT"]


def body_words(fs):
    """function string -> words of the lambda body"""
    i = fs.index(":")
    assert fs[:i].replace(" ", "") == "lambdamodel,t", fs
    return pyfrag.lex(fs[i + 1:])


LK_TABLE = [[0.0, 0.0], [1.0, 1.0], [2.0, 4.0], [3.0, 9.0], [4.0, 16.0], [5.0, 25.0]]     # dyadic: float interpolation is exact


def probe_lookup():
    """is `Model._lookup` a function of (x, table) alone?  For every ordered pair (far, x) of arguments — also through the
    clamped ranges — one model looks up `far` and then `x` in the same table (named table and inline list): rows
    (far, x, value-after-far), and whether every value equals the one a fresh model returns."""
    from fractions import Fraction
    args = [0.5, 1.25, 2.5, 3.5, 4.75, -1.0, 6.0]
    rows, stateless = [], True
    for far in args:
        for x in args:
            for named in (True, False):
                m = scratch()
                m.points["lk"] = [list(q) for q in LK_TABLE]
                tbl = "lk" if named else [list(q) for q in LK_TABLE]
                m._lookup(far, tbl)
                v = float(m._lookup(x, tbl))
                f = scratch(); f.points["lk"] = [list(q) for q in LK_TABLE]
                if v != float(f._lookup(x, tbl)):
                    stateless = False
                rows.append((Fraction(far), Fraction(x), Fraction(v)))
    return sorted(set(rows)), stateless


def lean_rat(q):
    return f"(({q.numerator} : Rat) / {q.denominator})"


def lookup_history_stream(rng, n_seq):
    """histories of lookups on ONE model (state, if any, is carried): real values vs an independent interpolation"""
    tables = {"t5": [[0.0, 1.0], [1.0, 3.0], [2.5, 2.0], [4.0, 6.0], [5.0, 0.5], [7.0, 4.0]],
              "sq": LK_TABLE, "t3": [[0.0, 2.0], [2.0, -1.0], [3.0, 5.0]]}
    def ref(x, pts):
        if x <= pts[0][0]: return pts[0][1]
        if x >= pts[-1][0]: return pts[-1][1]
        for (x0, y0), (x1, y1) in zip(pts, pts[1:]):
            if x <= x1:
                return (y1 - y0) / (x1 - x0) * (x - x0) + y0
    bad, n = None, 0
    for _ in range(n_seq):
        name = rng.choice(sorted(tables))
        pts = tables[name]
        named = rng.chance(1, 2)
        seq = [rng.choice([-1.0, 0.25, 0.5, 1.0, 1.5, 2.0, 2.75, 3.5, 4.5, 6.0, 6.5, 8.0]) for _ in range(rng.range(2, 10))]
        m = scratch(); m.points[name] = [list(q) for q in pts]
        tbl = name if named else [list(q) for q in pts]
        got = [float(m._lookup(x, tbl)) for x in seq]
        want = [float(ref(x, pts)) for x in seq]
        n += len(seq)
        if bad is None and any(abs(a - b) > 1e-12 * max(1.0, abs(b)) for a, b in zip(got, want)):
            # shrink: shortest suffix-free history that still fails
            for i in range(len(seq)):
                for j in range(i):
                    m2 = scratch(); m2.points[name] = [list(q) for q in pts]
                    g2 = [float(m2._lookup(x, tbl)) for x in (seq[j], seq[i])]
                    if abs(g2[1] - ref(seq[i], pts)) > 1e-12 * max(1.0, abs(ref(seq[i], pts))):
                        bad = {"table": pts, "named": named, "history": [seq[j], seq[i]], "observed": g2, "expected": [ref(seq[j], pts), ref(seq[i], pts)]}
                        break
                if bad: break
            bad = bad or {"table": pts, "named": named, "history": seq, "observed": got, "expected": want}
    return n, bad


def probe_skeletons():
    """function strings of each element kind around a time-marked placeholder equation"""
    PM = make_pm()
    m = scratch()
    out = {}
    s = m.stock("X"); s.initial_value = 1.5; s.equation = PM(0)
    out["stock"] = safe_body_words(s.function_string)
    s0 = m.stock("X0"); s0.initial_value = 2.5
    out["stock0"] = safe_body_words(s0.function_string)
    ci = m.constant("CI"); ci.equation = 4.0
    s2 = m.stock("X2"); s2.initial_value = ci; s2.equation = PM(0)
    out["stock_init_el"] = safe_body_words(s2.function_string)
    s3 = m.stock("X3"); s3.initial_value = 1.5; s3.equation = 2.0
    out["stock_num_eq"] = safe_body_words(s3.function_string)
    f = m.flow("F"); f.equation = PM(0)
    out["flow"] = safe_body_words(f.function_string)
    b = m.biflow("B"); b.equation = PM(0)
    out["biflow"] = safe_body_words(b.function_string)
    c = m.converter("C"); c.equation = PM(0)
    out["converter"] = safe_body_words(c.function_string)
    k = m.constant("K"); k.equation = 2.5
    out["constant"] = safe_body_words(k.function_string)
    # smooth / trend helper elements
    import BPTK_Py.sddsl.functions as sd
    m2 = scratch()
    inp = m2.converter("inp"); inp.equation = 3.0
    sm = m2.converter("sm"); sm.equation = sd.smooth(m2, inp, 2.0, 10.0)
    helpers = {n: safe_body_words(e.function_string) for n, e in list(m2.stocks.items()) + list(m2.biflows.items()) + list(m2.flows.items()) + list(m2.converters.items())}
    kinds = {n: type(e).__name__ for d in (m2.stocks, m2.biflows, m2.flows, m2.converters) for n, e in d.items()}
    # trend helper elements (names get the prefix T_ in the generated file)
    m3 = scratch()
    inp3 = m3.converter("inp"); inp3.equation = 3.0
    tr = m3.converter("tr"); tr.equation = sd.trend(m3, inp3, 2.0, 10.0)
    for d in (m3.stocks, m3.biflows, m3.flows, m3.converters):
        for n, e in d.items():
            helpers["T_" + n] = safe_body_words(e.function_string)
            kinds["T_" + n] = type(e).__name__
    return out, helpers, kinds


def lean_words(words):
    return "[" + ", ".join(pyfrag.lean_tok(w) for w in words) + "]"


def gen_sources(tt, tdt, skel, helpers, kinds):
    tbl = ("import Bptk.Core.PyFrag\n/-! GENERATED from /repo by harness/props/c01.py on every run — do not edit. -/\n"
           + pyfrag.lean_table("tableT", tt, "Bptk.C01.Gen") + pyfrag.lean_table("tableDt", tdt, "Bptk.C01.Gen")
           + "namespace Bptk.C01.Gen\nopen Bptk.Py in\n"
           + "".join(f"def sk_{k} : List Bptk.Py.Tok := {lean_words(v)}\n" for k, v in skel.items())
           + "".join(f"def hp_{i} : List Bptk.Py.Tok := {lean_words(v)}\n" for i, (k, v) in enumerate(sorted(helpers.items())))
           + "end Bptk.C01.Gen\n")
    return tbl


def skel_obligations(skel, helpers, kinds):
    """Lean Bool expressions that must be `true`: each skeleton parses (mod parentheses) to its intended shape"""
    h0t = '(memoCall "__h0__" (.name "t"))'
    h0d = '(memoCall "__h0__" tMinusDt)'
    ob = {
        "stock": f'skelIs sk_stock (stockSkel "X" (.num "1.5") {h0d})',
        "stock0": 'skelIs sk_stock0 (stockSkel0 "X0" (.num "2.5"))',
        "stock_init_el": f'skelIs sk_stock_init_el (stockSkel "X2" (memoCall "CI" (.name "t")) {h0d})',
        "stock_num_eq": 'skelIs sk_stock_num_eq (stockSkel "X3" (.num "1.5") (.num "2.0"))',
        "flow": f'skelIs sk_flow (flowSkel {h0t})',
        "biflow": f'skelIs sk_biflow {h0t}',
        "converter": f'skelIs sk_converter {h0t}',
        "constant": 'skelIs sk_constant (.num "2.5")',
    }
    names = sorted(helpers)
    stock = next((n for n in names if kinds.get(n) == "Stock" and not n.startswith("T_")), None)
    rate = next((n for n in names if n.endswith("change_in_smooth")), None)
    inpf = next((n for n in names if n.endswith("input_function") and not n.startswith("T_")), None)
    avg = next((n for n in names if n.endswith("averaging_time") and not n.startswith("T_")), None)
    # trend: exponential-average stock, its bidirectional rate and the reported trend converter
    q = lambda s_: '"' + s_ + '"'
    r = lambda s_: q(s_[2:])                      # real element name (without the T_ prefix)
    tstock = next((n for n in names if n.startswith("T_") and kinds.get(n) == "Stock"), None)
    trate = next((n for n in names if n.startswith("T_") and n.endswith("change_in_average")), None)
    tinp = next((n for n in names if n.startswith("T_") and n.endswith("input_function")), None)
    tavg = next((n for n in names if n.startswith("T_") and n.endswith("averaging_time")), None)
    ttr = next((n for n in names if n.startswith("T_") and n.endswith("_trend")), None)
    if tstock and trate and tinp and tavg and ttr:
        ob["trend_stock"] = f'skelIs hp_{names.index(tstock)} (stockSkel {r(tstock)} (.num "10.0") (memoCall {r(trate)} tMinusDt))'
        ob["trend_rate"] = (f'skelIs hp_{names.index(trate)} (.bin .div (.bin .sub (memoCall {r(tinp)} (.name "t")) '
                            f'(memoCall {r(tstock)} (.name "t"))) (memoCall {r(tavg)} (.name "t")))')
        ob["trend_value"] = (f'skelIs hp_{names.index(ttr)} (.bin .div (.bin .sub (memoCall {r(tinp)} (.name "t")) (memoCall {r(tstock)} (.name "t"))) '
                             f'(.bin .mul (memoCall {r(tstock)} (.name "t")) (memoCall {r(tavg)} (.name "t"))))')
        ob["trend_rate_is_biflow"] = "true" if kinds.get(trate) == "Biflow" else "false"
    else:
        ob["trend_helpers_found"] = "false"
    if stock and rate and inpf and avg:
        q = lambda s: '"' + s + '"'
        ob["smooth_stock"] = f'skelIs hp_{names.index(stock)} (stockSkel {q(stock)} (.num "10.0") (memoCall {q(rate)} tMinusDt))'
        ob["smooth_rate"] = (f'skelIs hp_{names.index(rate)} (.bin .div (.bin .sub (memoCall {q(inpf)} (.name "t")) '
                             f'(memoCall {q(stock)} (.name "t"))) (memoCall {q(avg)} (.name "t")))')
        ob["smooth_rate_is_biflow"] = "true" if kinds.get(rate) == "Biflow" else "false"
    else:
        ob["smooth_helpers_found"] = "false"
    return ob


# ------------------------------------------------------------------ model generator, real build, reference Euler
# expression G-trees: ("num",v) ("ref",name) ("time",) ("dt",) ("start",) (op,a,b) ("neg",a) ("abs",a) ("min"/"max",a,b)
# ("if",("cmp",op,a,b),x,y) ("step",h,t0) ("lookup",x,tbl) ("delay",name,d,init) ("smooth",name,T,init) ("nmul",v,a)
def rnum(rng):
    # includes the falsy 0.0 (a test for presence written as a truthiness test would drop it)
    return rng.choice([0.5, 1.0, 2.0, 3.0, 0.25, 1.5, 4.0, -1.0, 0.125, 0.0])


def gen_expr(rng, depth, refs, feat):
    if depth == 0 or rng.chance(1, 5):
        r = rng.below(10)
        if r < 6 and refs:
            return ("ref", rng.choice(refs))
        if r < 8:
            return ("num", rnum(rng))
        return (rng.choice(["time", "dt", "start"]),)
    r = rng.below(28)
    a = lambda: gen_expr(rng, depth - 1, refs, feat)
    if r >= 24:
        # opaque library functions (np.sin / np.cos / np.exp, ** 0.5) and the wave built-ins
        if r == 24:
            return (rng.choice(["sinwave", "coswave"]), a(), rng.choice([4.0, 2.0, 8.0, 3.0]))
        if r == 25:
            return ("exp", ("min", a(), ("num", 2.0)))
        if r == 26:
            return ("sqrt", ("abs", a()))
        return ("mul", ("sqrt", ("abs", a())), ("num", rng.choice([0.5, 2.0])))
    if r < 8:
        return (rng.choice(["add", "sub", "mul"]), a(), a())
    if r < 10:
        return ("div", a(), ("num", rng.choice([2.0, 4.0, 0.5, 8.0])))
    if r < 12:
        return ("nmul", rng.choice([2.0, 0.5, -1.0, 3.0]), a())
    if r < 13:
        return ("neg", a())
    if r < 15:
        return (rng.choice(["min", "max"]), a(), a())
    if r < 16:
        return ("abs", a())
    if r < 18:
        return ("if", ("cmp", rng.choice([">", "<", ">=", "<="]), a(), a()), a(), a())
    if r < 20:
        pars = feat.get("consts", []) + feat.get("pconvs", [])
        return ("step", a(), ("ref", rng.choice(pars)) if pars and rng.chance(1, 3) else ("num", rng.choice([1.0, 2.0, 0.5, 1.5])))
    if r < 22 and feat["tables"]:
        return ("lookup", a(), rng.choice(feat["tables"]))
    if r < 23 and refs:
        # duration: a number or a Constant element; initial value: a number, a Constant element, or none (= input at start)
        consts = feat.get("consts", [])
        durs = consts + feat.get("pconvs", [])          # duration: Constant or Converter element
        dur = ("ref", rng.choice(durs)) if durs and rng.chance(1, 3) else rng.choice([1.0, 0.5, 2.0])
        init = rng.choice([rnum(rng), rnum(rng), None] + ([("ref", rng.choice(consts))] if consts else []))
        return ("delay", rng.choice(refs), dur, init)
    # pulse: volume a number or any element; first pulse / interval numbers or Constant elements
    consts = feat.get("consts", [])
    vol = ("ref", rng.choice(refs)) if refs and rng.chance(1, 3) else rnum(rng)
    first = ("ref", rng.choice(consts)) if consts and rng.chance(1, 4) else rng.choice([0.5, 1.0, 2.0, 3.0, 0.3, 1.1, 0.75])
    iv = ("ref", rng.choice(consts)) if consts and rng.chance(1, 3) else rng.choice([0.0, 0.5, 1.0, 0.3, 0.6])
    return ("pulse", vol, first, iv)


VOPS = ["add", "sub", "mul", "div"]


def gen_vector_family(rng, scalars):
    """arrayed elements: a vector of stocks with element-wise equations through vector converters / flows.
    The DSL supports one operator per arrayed equation (nested arrayed operators raise), so every equation is
    a single element-wise operation; depth comes from chaining vector elements."""
    size = rng.range(2, 3)
    nums = lambda: [rnum(rng) for _ in range(size)]
    els = [("vk", "vconstant", nums())]
    def operand(vecs):
        r = rng.below(4)
        if r == 0 and scalars: return ("ref", rng.choice(scalars))
        if r == 1: return ("num", rng.choice([2.0, 0.5, 1.5, 4.0]))
        return ("vref", rng.choice(vecs))
    def eqn(vecs):
        r = rng.below(8)
        v = ("vref", rng.choice(vecs))
        if r == 0: return ("neg", v)
        if r == 1: return ("nmul", rng.choice([2.0, 0.5, -1.0]), v)
        if r == 2: return ("add", v, ("time",))
        op = rng.choice(VOPS)
        o = operand(vecs)
        if op == "div":
            return ("div", v, ("num", rng.choice([2.0, 4.0, 8.0])))
        return (op, v, o) if rng.chance(2, 3) or o[0] == "num" else (op, o, v)
    els.append(("vc", "vconverter", eqn(["vs", "vk"])))
    # (Biflow has no array support in the DSL: Biflow.add_arr_equation is the base-class no-op)
    els.append(("vf", "vflow", eqn(["vc", "vk", "vs"])))
    els.append(("vs", "vstock", (nums(), ("vref", "vf") if rng.chance(1, 2) else eqn(["vf", "vc"]))))
    return size, els


def gen_model(rng, dts, long_run=False):
    """acyclic model: list of (name, kind, payload) in dependency order for non-stocks"""
    dt = rng.choice(dts)
    start = rng.choice([0.0, 1.0, 2.0, 0.0, 1.0, 2.0, -1.0, 0.3])
    n = rng.range(30, 40) if long_run else rng.range(3, 8)
    stop = start + n * dt
    tables = {"tbl": [[0.0, 1.0], [1.0, 3.0], [2.5, 2.0], [4.0, 6.0]]}
    feat = {"tables": list(tables)}
    n_stocks = rng.range(1, 3)
    stocks = [f"s{i}" for i in range(n_stocks)]
    els, avail = [], list(stocks)
    for i in range(rng.range(0, 2)):
        els.append((f"k{i}", "constant", rnum(rng)))
        avail.append(f"k{i}")
    # positive constants usable as parameters of the built-ins (delay duration / initial value, averaging time)
    for i in range(rng.range(0, 2)):
        els.append((f"p{i}", "constant", rng.choice([1.0, 2.0, 0.5, 4.0])))
        avail.append(f"p{i}")
    feat["consts"] = [e[0] for e in els if e[0].startswith("p")]
    # converters that are constant in time, usable where the DSL takes an element parameter that is not a Constant
    feat["pconvs"] = []
    if rng.chance(1, 2):
        els.append(("q0", "converter", ("mul", ("ref", feat["consts"][0]), ("num", 2.0)) if feat["consts"] else ("num", rng.choice([1.0, 2.0, 0.5]))))
        avail.append("q0"); feat["pconvs"].append("q0")
    par = lambda choices: ("ref", rng.choice(feat["consts"])) if feat["consts"] and rng.chance(1, 3) else rng.choice(choices)
    for i in range(rng.range(1, 4)):
        kind = rng.choice(["converter", "flow", "biflow"])
        nm = f"{kind[0]}{i}"
        els.append((nm, kind, gen_expr(rng, rng.range(1, 3), avail, feat)))
        avail.append(nm)
    if rng.chance(1, 3):
        src = rng.choice([e[0] for e in els if e[1] in ("converter", "biflow", "flow")] or stocks)
        els.append(("sm", "converter", ("smooth", src, par([2.0, 4.0, 1.0]), par([rnum(rng)]))))
        avail.append("sm")
    if rng.chance(1, 6):
        # a second smooth in the same model (the helper elements get their names from a per-model counter)
        src = rng.choice([e[0] for e in els if e[1] in ("converter", "biflow", "flow")] or stocks)
        els.append(("sm2", "converter", ("smooth", src, par([2.0, 0.5]), par([rnum(rng)]))))
        avail.append("sm2")
    if rng.chance(1, 4):
        src = rng.choice([e[0] for e in els if e[1] in ("converter", "biflow", "flow")] or stocks)
        els.append(("tr", "converter", ("trend", src, par([2.0, 4.0, 1.0]), par([1.0, 2.0, 0.5, -1.0, 4.0]))))
        avail.append("tr")
    vsize = 0
    if rng.chance(1, 3):
        vsize, vels = gen_vector_family(rng, [e[0] for e in els if e[1] in ("converter", "constant")])
        els += vels
    for s in stocks:
        init = rng.choice([("num", rnum(rng))] + [("ref", e[0]) for e in els if e[1] == "constant"])
        # every operator form also directly inside a stock equation
        els.append((s, "stock", (init, gen_expr(rng, rng.range(1, 3), avail, feat))))
    variant = {"ints": rng.chance(1, 3), "names": rng.choice(["plain", "plain", "spaces"]),
               "assign": rng.choice(["dependency", "reversed", "shuffled"]), "assign_seed": rng.below(1000),
               "eval": rng.choice(["by_element", "random", "descending"]), "eval_seed": rng.below(1000), "share": rng.chance(1, 3)}
    if variant["share"]:
        # the SAME Python operator object used in two equations (an expression kept in a variable and reused)
        cands = [e for e in els if e[1] in ("converter", "flow", "biflow") and e[2][0] not in ("smooth", "trend")]
        if cands:
            src = rng.choice(cands)
            els.insert(len(els) - len(stocks), ("al", "converter", src[2]))
            els.insert(len(els) - len(stocks), ("al2", "flow", ("add", src[2], ("num", 1.0))))
    return {"start": start, "dt": dt, "stop": stop, "n": n, "tables": tables, "els": els, "vsize": vsize, "variant": variant}


def real_name(spec, n):
    """name of element `n` in the real model: plain, or with spaces and punctuation (SD models name elements in prose)"""
    ren = spec.get("variant", {}).get("rename")
    if ren:
        base, sep, idx = n.partition("[")
        return ren.get(base, base) + sep + idx
    if spec.get("variant", {}).get("names") != "spaces":
        return n
    base, sep, idx = n.partition("[")
    return f"The {base} (x-1)" + sep + idx


def directed_models(dts):
    """deterministic family: every leaf / built-in form as left and as right operand of `-` and `/` directly inside a
    stock equation (the place where the text is rendered at `t-model.dt`) and inside a flow"""
    forms = [("time",), ("dt",), ("start",), ("num", 1.5), ("ref", "c0"), ("nmul", 2.0, ("ref", "c0")), ("neg", ("ref", "c0")),
             ("abs", ("ref", "c0")), ("min", ("ref", "c0"), ("time",)), ("if", ("cmp", ">", ("time",), ("num", 1.0)), ("ref", "c0"), ("time",)),
             ("step", ("ref", "c0"), ("num", 1.0)), ("lookup", ("time",), "tbl"), ("delay", "c0", 1.0, 0.5), ("delay", "c0", ("ref", "p0"), None),
             ("pulse", 2.0, 1.0, 0.0), ("sinwave", ("ref", "c0"), 4.0), ("exp", ("min", ("time",), ("num", 2.0))), ("sqrt", ("abs", ("time",))),
             ("smooth", "c0", 2.0, 1.0), ("trend", "c0", ("ref", "p0"), 2.0),
             # parameters of the built-ins given as model elements (Constant p0 = 2.0, Converter q0 = 1.0)
             ("delay", "c0", ("ref", "q0"), ("ref", "p0")), ("pulse", ("ref", "c0"), ("ref", "p0"), ("ref", "p0")), ("pulse", 2.0, 1.0, ("ref", "p0")),
             ("step", ("ref", "c0"), ("ref", "q0")), ("smooth", "c0", ("ref", "p0"), ("ref", "p0"))]
    tables = {"tbl": [[0.0, 1.0], [1.0, 3.0], [2.5, 2.0], [4.0, 6.0]]}
    out = []
    for i, f in enumerate(forms):
        for j, op in enumerate(["sub", "div"]):
            for pos in (0, 1):
                other = ("add", ("ref", "s0"), ("num", 3.0))
                eq = (op, f, other) if pos == 0 else (op, other, f)
                dt = dts[(i + j + pos) % len(dts)]
                start = [0.0, 1.0, 2.0][(i + pos) % 3]
                n = 4
                els = [("p0", "constant", 2.0), ("q0", "converter", ("mul", ("ref", "p0"), ("num", 0.5))),
                       ("c0", "converter", ("add", ("time",), ("num", 1.0))),
                       ("f0", "flow", eq), ("s0", "stock", (("num", 1.0), eq))]
                out.append({"start": start, "dt": dt, "stop": start + n * dt, "n": n, "tables": tables, "els": els, "vsize": 0})
    return out


def name_models():
    """element names that need quoting in the generated text: an apostrophe, double quotes, and a backslash sequence that —
    reinterpreted — is the name of ANOTHER element of the model"""
    tables = {"tbl": [[0.0, 1.0], [1.0, 3.0], [2.5, 2.0], [4.0, 6.0]]}
    els = [("ka", "constant", 5.0), ("kx", "constant", 2.0), ("c0", "converter", ("add", ("mul", ("ref", "kx"), ("num", 3.0)), ("time",))),
           ("f0", "flow", ("sub", ("ref", "c0"), ("ref", "ka"))), ("s0", "stock", (("ref", "kx"), ("sub", ("ref", "f0"), ("ref", "kx"))))]
    out = []
    for ren in ({"ka": "kA", "kx": "k\\x41"}, {"kx": "customer's rate", "s0": "it's level", "f0": 'the "net" flow'},
                {"ka": "tab\tname", "kx": "new\nline", "c0": "back\\slash"}):
        out.append({"start": 0.0, "dt": 0.5, "stop": 2.0, "n": 4, "tables": tables, "els": els, "vsize": 0, "variant": {"rename": ren}})
    return out


def expand_els(spec):
    """scalar view of a spec: every arrayed element becomes its components `name[i]` with the element-wise
    equation (vector references resolved to component i, everything else broadcast)"""
    size = spec.get("vsize", 0)
    def comp(g, i):
        if not isinstance(g, tuple): return g
        if g[0] == "vref": return ("ref", f"{g[1]}[{i}]")
        return tuple(comp(x, i) for x in g)
    out = []
    for name, kind, payload in spec["els"]:
        if not kind.startswith("v"):
            out.append((name, kind, payload)); continue
        for i in range(size):
            if kind == "vconstant":
                out.append((f"{name}[{i}]", "constant", payload[i]))
            elif kind == "vstock":
                out.append((f"{name}[{i}]", "stock", (("num", payload[0][i]), comp(payload[1], i))))
            else:
                out.append((f"{name}[{i}]", kind[1:], comp(payload, i)))
    return out


def show_g(g):
    return g[0] + "(" + ", ".join(show_g(x) if isinstance(x, tuple) else repr(x) for x in g[1:]) + ")" if len(g) > 1 else g[0]


def build_real(spec):
    from BPTK_Py import Model
    import BPTK_Py.sddsl.functions as sd
    var = spec.get("variant", {})
    def num(x):
        # integral numbers as Python ints in the `ints` variant (constants, initial values, literals, run specs)
        return int(x) if var.get("ints") and isinstance(x, float) and x == int(x) and abs(x) < 1e6 else x
    m = Model(num(spec["start"]), num(spec["stop"]), num(spec["dt"]), name="c01gen")
    m.points.update({k: [list(p) for p in v] for k, v in spec["tables"].items()})
    objs = {}
    size = spec.get("vsize", 0)
    for name, kind, payload in spec["els"]:
        objs[name] = getattr(m, kind[1:] if kind.startswith("v") else kind)(real_name(spec, name))
        if kind == "vconstant":
            objs[name].setup_vector(size, list(payload))
        elif kind == "vstock":
            objs[name].setup_vector(size, list(payload[0]))
        elif kind.startswith("v"):
            objs[name].setup_vector(size, 0.0)
    def arg(x):
        # parameter of a built-in: a number, nothing, or a Constant element
        return objs[x[1]] if isinstance(x, (tuple, list)) else x
    shared = {}
    def ex(g):
        if var.get("share") and len(g) > 1 and g[0] not in ("num", "ref", "vref"):
            key = json.dumps(g)
            if key not in shared:
                shared[key] = ex0(g)
            return shared[key]
        return ex0(g)
    def ex0(g):
        k = g[0]
        if k == "num": return num(g[1])
        if k in ("ref", "vref"): return objs[g[1]]
        if k in ("sinwave", "coswave"):
            a = ex(g[1])
            return getattr(sd, k)(a, g[2])
        if k in ("exp", "sqrt"):
            a = ex(g[1])
            if isinstance(a, (int, float)): a = sd.time() * 0.0 + a
            return getattr(sd, k)(a)
        if k == "trend": return sd.trend(m, objs[g[1]], arg(g[2]), arg(g[3]))
        if k == "time": return sd.time()
        if k == "dt": return sd.dt(m)
        if k == "start": return sd.starttime(m)
        if k in ("add", "sub", "mul", "div"):
            a, b = ex(g[1]), ex(g[2])
            if isinstance(a, (int, float)) and isinstance(b, (int, float)):
                a = sd.time() * 0.0 + a          # keep it a DSL expression
            return {"add": lambda: a + b, "sub": lambda: a - b, "mul": lambda: a * b, "div": lambda: a / b}[k]()
        if k == "nmul":
            b = ex(g[2])
            if isinstance(b, (int, float)): b = sd.time() * 0.0 + b
            return g[1] * b
        if k == "neg":
            a = ex(g[1])
            if isinstance(a, (int, float)): a = sd.time() * 0.0 + a
            return -a
        if k == "abs":
            a = ex(g[1])
            if isinstance(a, (int, float)): a = sd.time() * 0.0 + a
            return sd.abs(a)
        if k in ("min", "max"):
            a, b = ex(g[1]), ex(g[2])
            if isinstance(a, (int, float)): a = sd.time() * 0.0 + a
            if isinstance(b, (int, float)): b = sd.time() * 0.0 + b
            return getattr(sd, k)(a, b)
        if k == "if":
            c = g[1]
            a, b = ex(c[2]), ex(c[3])
            if isinstance(a, (int, float)): a = sd.time() * 0.0 + a
            cond = {">": lambda: a > b, "<": lambda: a < b, ">=": lambda: a >= b, "<=": lambda: a <= b}[c[1]]()
            return sd.If(cond, ex(g[2]), ex(g[3]))
        if k == "step": return sd.step(ex(g[1]), ex(g[2]))
        if k == "lookup":
            a = ex(g[1])
            if isinstance(a, (int, float)): a = sd.time() * 0.0 + a
            return sd.lookup(a, g[2])
        if k == "pulse": return sd.pulse(m, arg(g[1]), arg(g[2]), arg(g[3]))
        if k == "delay": return sd.delay(m, objs[g[1]], arg(g[2]), arg(g[3]))
        if k == "smooth": return sd.smooth(m, objs[g[1]], arg(g[2]), arg(g[3]))
        raise ValueError(k)
    order = list(spec["els"])
    if var.get("assign") == "reversed":
        order.reverse()
    elif var.get("assign") == "shuffled":
        Rng(var.get("assign_seed", 0)).shuffle(order)
    for name, kind, payload in order:
        if kind == "vconstant":
            continue
        if kind == "vstock":
            objs[name].equation = ex(payload[1])
        elif kind.startswith("v"):
            objs[name].equation = ex(payload)
        elif kind == "constant":
            objs[name].equation = num(payload)
        elif kind == "stock":
            init, eq = payload
            # (Stock.initial_value refuses an int with ElementError — a rejection, so initial values stay floats)
            objs[name].initial_value = init[1] if init[0] == "num" else objs[init[1]]
            e = ex(eq)
            objs[name].equation = e
        else:
            e = ex(payload)
            if isinstance(e, (int, float)):
                e = sd.time() * 0.0 + e
            objs[name].equation = e
    return m, objs


def reference_euler(spec, times):
    """independent explicit-Euler reference (the property's right-hand side), same operation order"""
    import numpy as np
    start, dt = spec["start"], spec["dt"]
    sels = expand_els(spec)
    kinds = {n: k for n, k, _ in sels}
    pay = {n: p for n, _, p in sels}
    vals = [dict() for _ in times]
    smooth_state = {}
    def lookup(x, pts):
        if x <= pts[0][0]: return pts[0][1]
        if x >= pts[-1][0]: return pts[-1][1]
        for (x0, y0), (x1, y1) in zip(pts, pts[1:]):
            if x <= x1:
                return (y1 - y0) / (x1 - x0) * (x - x0) + y0
    def val(n, k):
        if n in vals[k]:
            return vals[k][n]
        kd = kinds[n]
        if kd == "constant":
            v = pay[n]
        elif kd == "stock":
            init, eq = pay[n]
            if k == 0:
                v = init[1] if init[0] == "num" else val(init[1], 0)
            else:
                v = val(n, k - 1) + dt * ev(eq, k - 1, shifted=True)
        elif kd == "flow":
            e = ev(pay[n], k)
            v = e if e > 0 else 0
        else:
            v = ev(pay[n], k)
        vals[k][n] = v
        return v
    def tval(k, shifted):
        # raw time value the generated text uses: the label, or label(k+1) - dt inside a stock equation
        return times[k + 1] - dt if shifted else times[k]
    def par(x):
        # parameter of a built-in given as a Constant element: its number
        return val(x[1], 0) if isinstance(x, (tuple, list)) else x
    def ev(g, k, shifted=False):
        c = g[0]
        if c == "num": return g[1]
        if c == "ref": return val(g[1], k)
        if c == "time": return tval(k, shifted)
        if c == "dt": return dt
        if c == "start": return start
        if c == "add": return ev(g[1], k, shifted) + ev(g[2], k, shifted)
        if c == "sub": return ev(g[1], k, shifted) - ev(g[2], k, shifted)
        if c == "mul": return ev(g[1], k, shifted) * ev(g[2], k, shifted)
        if c == "div": return ev(g[1], k, shifted) / ev(g[2], k, shifted)
        if c == "nmul": return g[1] * ev(g[2], k, shifted)
        if c == "neg": return -1.0 * ev(g[1], k, shifted)
        if c == "abs": return abs(ev(g[1], k, shifted))
        if c == "min":
            a, b = ev(g[1], k, shifted), ev(g[2], k, shifted); return b if b < a else a
        if c == "max":
            a, b = ev(g[1], k, shifted), ev(g[2], k, shifted); return b if b > a else a
        if c == "if":
            cc = g[1]; a, b = ev(cc[2], k, shifted), ev(cc[3], k, shifted)
            t = {">": a > b, "<": a < b, ">=": a >= b, "<=": a <= b}[cc[1]]
            return ev(g[2], k, shifted) if t else ev(g[3], k, shifted)
        if c == "step":
            return ev(g[1], k, shifted) if tval(k, shifted) > ev(g[2], k, shifted) else 0.0
        if c == "lookup": return lookup(ev(g[1], k, shifted), spec["tables"][g[2]])
        if c == "pulse":
            # standard definition on the grid, in exact decimal arithmetic: volume/dt at the one grid point t_k whose
            # window [t_k - dt/2, t_k + dt/2) contains a pulse time first + j*interval (j = 0 only without interval)
            from fractions import Fraction as Fr
            tk = Fr(str(start)) + k * Fr(str(dt)); h = Fr(str(dt)) / 2
            first, iv = Fr(str(float(par(g[2])))), Fr(str(float(par(g[3]))))
            vol = val(g[1][1], k) if isinstance(g[1], (tuple, list)) else g[1]
            cands = [first]
            if iv != 0:
                j = (tk - first) / iv
                cands = [first + n * iv for n in (int(j) - 1, int(j), int(j) + 1) if n >= 0]
            return vol / dt if any(tk - h <= pt < tk + h for pt in cands) else 0.0
        if c == "delay":
            # input shifted by the delay, the initial value (the input's value at the start when none is given) before that
            td = tval(k, shifted) - par(g[2])
            if td >= start:
                j = round((td - start) / dt)
                return val(g[1], j)
            return val(g[1], 0) if g[3] is None else par(g[3])
        if c in ("sinwave", "coswave"):
            w = 2 * np.pi / g[2] * (tval(k, shifted) - start)
            return (np.sin(w) if c == "sinwave" else np.cos(w)) * ev(g[1], k, shifted)
        if c == "exp": return np.exp(ev(g[1], k, shifted))
        if c == "sqrt": return ev(g[1], k, shifted) ** (1 / 2)
        if c == "trend":
            # standard definition: fractional distance of the input from its first-order exponential average per
            # averaging time, (x - avg) / (avg * T); avg(0) = init, avg(j+1) = avg(j) + dt*(x(j) - avg(j))/T
            st = smooth_state.setdefault(("trend", id(g)), {})
            def av(j):
                if j in st: return st[j]
                st[j] = par(g[3]) if j == 0 else av(j - 1) + dt * ((val(g[1], j - 1) - av(j - 1)) / par(g[2]))
                return st[j]
            return (val(g[1], k) - av(k)) / (av(k) * par(g[2]))
        if c == "smooth":
            key = (id(g))
            st = smooth_state.setdefault(key, {})
            def sm(j):
                if j in st: return st[j]
                st[j] = par(g[3]) if j == 0 else sm(j - 1) + dt * ((val(g[1], j - 1) - sm(j - 1)) / par(g[2]))
                return st[j]
            return sm(k)
        raise ValueError(c)
    names = [n for n, _, _ in sels]
    return {n: [val(n, k) for k in range(len(times))] for n in names}


def shrink_model(spec, fails):
    changed = True
    while changed:
        changed = False
        for i in range(len(spec["els"]) - 1, -1, -1):
            cand = dict(spec); cand["els"] = spec["els"][:i] + spec["els"][i + 1:]
            try:
                if cand["els"] and fails(cand):
                    spec = cand; changed = True
                    break
            except Exception:
                continue
    return spec


def channel_values(spec):
    """the other two places the property may be observed at: `bptk.run_scenarios(..., return_format="df")` and
    `Element.plot(return_df=True)` — fresh model each; returns {channel: {name: [values]}} (scalar elements only)"""
    from BPTK_Py import bptk
    names = [n for n, k, _ in spec["els"] if not k.startswith("v")]
    out = {}
    m, objs = build_real(spec)
    out["plot"] = {n: [float(v) for v in objs[n].plot(return_df=True)[real_name(spec, n)]] for n in names}
    m2, _ = build_real(spec)
    bp = bptk()
    try:
        bp.register_scenario_manager({"smC01": {"model": m2}})
        bp.register_scenarios(scenarios={"sc": {}}, scenario_manager="smC01")
        rn = [real_name(spec, n) for n in names]
        df = bp.run_scenarios(scenarios=["sc"], scenario_managers=["smC01"], equations=rn, return_format="df", series_names={})
        col = lambda n: n if n in df.columns else "smC01_sc_%s" % n
        out["run_scenarios"] = {n: [float(v) for v in df[col(real_name(spec, n))]] for n in names}
    finally:
        bp.destroy()
    return out


# ---- wave 8: a stock starts at its initial value — also when that value is an element re-parameterised after the build
def reparam_cases(rng, n):
    """small models whose stock initial value is a Constant (or a Converter of a constant) that already holds a number when
    the stock's function string is built; afterwards the constant gets a new number through one of the routes the API offers"""
    out = []
    tables = {"tbl": [[0.0, 1.0], [1.0, 3.0], [2.5, 2.0], [4.0, 6.0]]}
    for i in range(n):
        old, new = rng.choice([1.0, 2.0, 0.5, 4.0, 0.0]), rng.choice([3.0, 8.0, -1.0, 0.25, 0.0, 10.0])
        if old == new:
            new = old + 1.5
        dt = rng.choice([1.0, 0.5, 0.25])
        start = rng.choice([0.0, 1.0])
        steps = rng.range(2, 4)
        via_conv = rng.chance(1, 3)
        els = [("k0", "constant", old)]
        if via_conv:
            els.append(("kc", "converter", ("mul", ("ref", "k0"), ("num", 2.0))))
        els.append(("f0", "biflow", rng.choice([("num", 1.0), ("mul", ("ref", "s0"), ("num", 0.5)), ("sub", ("ref", "k0"), ("ref", "s0"))])))
        els.append(("s0", "stock", (("ref", "kc" if via_conv else "k0"), ("ref", "f0"))))
        spec = {"start": start, "dt": dt, "stop": start + steps * dt, "n": steps, "tables": tables, "els": els, "vsize": 0}
        for route in ("element", "scenario", "session"):
            out.append({"spec": spec, "route": route, "constant": "k0", "new": new})
    return out


def run_reparam(case):
    """values of every element under the FINAL parameters, obtained through the route; {name: [values]}"""
    from BPTK_Py import bptk
    spec, route, new = case["spec"], case["route"], case["new"]
    names = [n for n, _, _ in spec["els"]]
    m, objs = build_real(spec)
    if route == "element":
        objs[case["constant"]].equation = new
        from BPTK_Py.util import timerange
        times = timerange(spec["start"], spec["stop"], spec["dt"], exclusive=False)
        return {n: [float(m.evaluate_equation(n, t)) for t in times] for n in names}
    bp = bptk()
    try:
        bp.register_scenario_manager({"smC01": {"model": m}})
        if route == "scenario":
            bp.register_scenarios(scenarios={"sc": {"constants": {case["constant"]: new}}}, scenario_manager="smC01")
            df = bp.run_scenarios(scenarios=["sc"], scenario_managers=["smC01"], equations=names, return_format="df", series_names={})
            col = lambda n: n if n in df.columns else "smC01_sc_%s" % n
            return {n: [float(v) for v in df[col(n)]] for n in names}
        bp.register_scenarios(scenarios={"sc": {}}, scenario_manager="smC01")
        bp.begin_session(scenarios=["sc"], scenario_managers=["smC01"], equations=names, starttime=spec["start"], dt=spec["dt"])
        vals = {n: [] for n in names}
        for k in range(spec["n"] + 1):
            r = bp.run_step(settings={"smC01": {"sc": {"constants": {case["constant"]: new}}}}) if k == 0 else bp.run_step()
            for n in names:
                vals[n] += [float(v) for _, v in sorted(r["smC01"]["sc"][n].items())]
        bp.end_session()
        return vals
    finally:
        bp.destroy()


def reparam_fails(case):
    """first difference between the route's values and the Euler reference under the final value of the constant"""
    spec = dict(case["spec"])
    spec["els"] = [(n, k, case["new"] if n == case["constant"] else p) for n, k, p in case["spec"]["els"]]
    from BPTK_Py.util import timerange
    times = timerange(spec["start"], spec["stop"], spec["dt"], exclusive=False)
    ref = reference_euler(spec, times)
    got = run_reparam(case)
    for n, _, _ in spec["els"]:
        if len(got[n]) != len(times):
            return (n, len(got[n]), float("nan"), float(len(times)))
        for k, (a, b) in enumerate(zip(got[n], ref[n])):
            if a != float(b) and abs(a - float(b)) > 1e-9 * max(1.0, abs(float(b))):
                return (n, k, a, float(b))
    return None


def simulate_real(spec):
    from BPTK_Py.util import timerange
    m, objs = build_real(spec)
    times = timerange(spec["start"], spec["stop"], spec["dt"], exclusive=False)
    names = [n for n, _, _ in expand_els(spec)]
    var = spec.get("variant", {})
    # order in which (element, time) pairs are asked for: the memo is derived state, the answer must not depend on it
    pairs = [(n, k) for n in names for k in range(len(times))]
    if var.get("eval") == "random":
        Rng(var.get("eval_seed", 0)).shuffle(pairs)
    elif var.get("eval") == "descending":
        pairs.reverse()
    real = {n: [None] * len(times) for n in names}
    for n, k in pairs:
        real[n][k] = float(m.evaluate_equation(real_name(spec, n), times[k]))
    # second use: every value again, now answered from the memo
    for n, k in pairs[::-1]:
        v2 = float(m.evaluate_equation(real_name(spec, n), times[k]))
        if v2 != real[n][k] and not (math.isnan(v2) and math.isnan(real[n][k])):
            real[n][k] = float("nan") if True else v2          # a value that changes on the second request can never equal the reference
            spec.setdefault("_second_use_differs", []).append((n, k))
    strings = {n: e.function_string for n, e in list(m.stocks.items()) + list(m.flows.items()) + list(m.biflows.items()) + list(m.converters.items()) + list(m.constants.items())}
    # an arrayed element's own function string is never evaluated (its components are): leave the parents out
    strings = {n: fs for n, fs in strings.items() if f"{n}[0]" not in strings}
    return m, times, real, strings


OPAQUE = {"exp", "sinwave", "coswave"}


def has_form(spec, forms):
    def walk(g):
        return isinstance(g, (tuple, list)) and len(g) > 0 and ((isinstance(g[0], str) and g[0] in forms) or any(walk(x) for x in g))
    return any(walk(p) for _, k, p in spec["els"] if k not in ("constant", "vconstant"))


def unbits(h):
    import struct
    if h.startswith("bad"):
        raise ValueError(h)
    return struct.unpack(">d", bytes.fromhex(h))[0]


def literals_of(words):
    return {w[1:] for w in words if w.startswith("N")}


def run(chk):
    quiet_bptk_logging()
    tt, tdt, unthreaded, problems = probe_tables()
    skel, helpers, kinds = probe_skeletons()
    write_if_changed(os.path.join(LEAN, "Bptk", "Gen", "C01Table.lean"), gen_sources(tt, tdt, skel, helpers, kinds))
    sob = skel_obligations(skel, helpers, kinds)
    chk.notes["probe"] = {"classes": len(tt), "unthreaded_operands": unthreaded, "problems": problems[:10], "helpers": kinds}
    # first pass: which obligations hold (computed by the Lean model itself through the driver-less `#eval`-free route:
    # we emit all as theorems `… = true`; a failing one breaks the build and is then reported with its name)
    lines = ["import Bptk.Props.C01", "import Bptk.Gen.C01Table", "/-! GENERATED on every run. -/", "namespace Bptk.C01.Gen", "open Bptk.Py Bptk.C01",
             "def skelIs (ws : List Tok) (s : Py) : Bool := match parse ws with | some p => beqPy (erase p) s | none => false"]
    names = []
    for k, e in sob.items():
        lines.append(f"theorem skel_{k} : ({e}) = true := by decide +kernel"); names.append(f"skel_{k}")
    lk_rows, lk_stateless = probe_lookup()
    chk.notes["lookup_probe"] = {"rows": len(lk_rows), "stateless": lk_stateless}
    lines += ["def lkTable : List (Rat × Rat) := [" + ", ".join(f"({lean_rat(__import__('fractions').Fraction(a))}, {lean_rat(__import__('fractions').Fraction(b))})" for a, b in LK_TABLE) + "]",
              "def lkProbe : List (Rat × Rat × Rat) := [" + ", ".join(f"({lean_rat(a)}, {lean_rat(b)}, {lean_rat(c)})" for a, b, c in lk_rows) + "]",
              f"def lkCfg : LCfg := ⟨{'true' if lk_stateless else 'false'}⟩"]
    if lk_stateless:
        lines += ["theorem lookup_probe_ok : lookupProbeOK lkTable lkProbe = true := by decide +kernel",
                  "theorem lookup_pure_holds : LookupPure lkCfg := lookup_pure lkCfg (by decide)", "#print axioms lookup_pure_holds"]
    else:
        lines += ["theorem lookup_probe_not_ok : lookupProbeOK lkTable lkProbe = false := by decide +kernel",
                  "theorem lookup_violated : ¬ LookupPure lkCfg := C01_witness_lookup_stateful lkCfg (by decide)", "#print axioms lookup_violated"]
    lines += ["theorem tableT_ok : tableOK L tableT = true := by decide +kernel",
              "theorem tableDt_ok : tableOK L tableDt = true := by decide +kernel",
              "theorem shift_ok : shiftOK tableT tableDt = true := by decide +kernel",
              "theorem spec_ok : specOK01 tableT = true := by decide +kernel",
              "theorem holds : C01_full tableT tableDt := C01_full_of_tables tableT tableDt tableT_ok tableDt_ok shift_ok",
              "#print axioms holds", "end Bptk.C01.Gen"]
    ok, why = chk.prove("\n".join(lines) + "\n", extra_sources=["Bptk/Proofs/PyFrag.lean", "Bptk/Core/PyFrag.lean", "Bptk/Props/C02.lean", "Bptk/Gen/C01Table.lean"])
    chk.cov["trusted_base"] = [
        "Lean 4.33 kernel; axioms ⊆ {propext, Classical.choice, Quot.sound}; per-run table/skeleton obligations by `decide +kernel`",
        "evalM (lean/Bptk/Core/C01.lean): semantics of the generated lambdas — `t`, model.dt/starttime/stoptime, model.memoize as lookup at the normalised grid index, conditional expression by truthiness; all arithmetic uninterpreted",
        "GridOK is no longer assumed for decimal grids: `gridOKN_of_C05` derives it from C05's theorems (normalize_near / back_label / label_lt) for a carrier whose time part is C05's float model (`FloatTime`), under C05's explicit error `Budget`; that IEEE doubles are an instance of C05's `Fl` is C05's trusted statement. Exact-grid hypothesis only for raw time values (`evalM_shift`)",
        "Acyclic (rank function; evaluation with only earlier / lower-rank values provided succeeds) is a hypothesis of the existence-and-uniqueness theorem; it is discharged per generated model by the decidable `modelOKb` (sound: `acyclic_of_modelOKb`) evaluated by the driver on the real function strings for delay-free models, and exercised for all models by the instrumented evaluator `evalO` the driver simulates with",
        "CPython evaluates the parsed function string compositionally; Model.memoize returns the value of the element's lambda (memo transparency: C08)",
        "A1 grammar, probes and lexer as in C02",
    ]
    chk.assumptions = ["acyclic models over the DSL vocabulary; stochastic functions excluded (C08)",
                       "numpy's exp/sin/cos are opaque: models using them are compared with the Lean interpreter to rel. 1e-9 (libm vs numpy differ in the last bit) and exactly with the Python reference, which calls the same numpy functions",
                       "arrayed elements: vectors of stocks/flows/converters/constants with one element-wise operator per equation (nested arrayed operators and arrayed biflows are refused by the DSL with an exception)",
                       "bit-exact comparison against the Lean interpreter of the real function strings; reference Euler compared exactly for dyadic dt and with rel. tolerance 1e-9 otherwise",
                       "pulse with an interval is exact only when dt and interval are binary fractions (float modulo) — excluded from generated models, see known findings"]
    # ---------------- correspondence + reference
    rng = chk.rng.fork("c01")
    dts = [1.0, 0.5, 0.25, 0.125, 0.1, 0.2, 0.05]
    n_models = 60 if chk.quick else 800
    req, metas = [], []
    ref_fail, stats = None, {"kinds": {}, "dt": {}, "forms": {}, "rejected": 0}
    def count_forms(g):
        if isinstance(g, tuple):
            stats["forms"][g[0]] = stats["forms"].get(g[0], 0) + 1
            for x in g[1:]:
                count_forms(x)
    def ref_fails(spec):
        try:
            m, times, real, strings = simulate_real(spec)
            ref = reference_euler(spec, times)
        except Exception:
            return False
        return first_diff(spec, real, ref, exact=False) is not None
    def first_diff(spec, real, ref, exact=True):
        # exact=True: bit-equality is demanded where the arithmetic is exact by construction (dyadic dt); a difference that is
        # within rounding (rel. 1e-9) is NOT a wrong value — it is reported as a broken exactness tie without failing input
        dy = exact and math.log2(spec["dt"]).is_integer()
        for n, _, _ in expand_els(spec):
            for k, (a, b) in enumerate(zip(real[n], ref[n])):
                b = float(b)
                if math.isnan(a) or math.isnan(b) or abs(b) > 1e9:
                    return None if (math.isnan(a) and math.isnan(b)) or abs(b) > 1e9 else (n, k, a, b)
                if a != b and (dy or abs(a - b) > 1e-9 * max(1.0, abs(b))):
                    return (n, k, a, b)
        return None
    import BPTK_Py.util.floating_point as fp
    # thorough: every dt of the list also with long runs (30–40 steps; the stop time is reached through the
    # normalised grid for every dt) — the dt is forced so that each one is covered
    plan = [(None, False)] * n_models
    if not chk.quick:
        plan += [(d, True) for d in dts for _ in range(40)]
    solveK = 3
    chan_fail = None
    rounding_only = None
    unsupported_text = []
    stats.update({"channel_models": 0, "variants": {}, "long_runs": {}, "dsl_rejected": 0, "solveF_checked": 0, "arrayed_models": 0, "steps_max": 0})
    directed = directed_models(dts)
    stats["directed_models"] = len(directed)
    plan = [("directed", d) for d in directed + name_models()] + plan
    for force_dt, long_run in plan:
        spec = long_run if force_dt == "directed" else gen_model(rng, [force_dt] if force_dt else dts, long_run)
        if force_dt == "directed":
            long_run = False
        try:
            m, times, real, strings = simulate_real(spec)
            ref = reference_euler(spec, times)
        except (ZeroDivisionError, OverflowError, RecursionError):
            stats["rejected"] += 1
            continue
        except (AttributeError, TypeError, KeyError, IndexError, SyntaxError) as ex:
            # the DSL refused to build an arrayed equation / a model with such element names (exception, no value): outside the property
            if spec.get("vsize") or spec.get("variant", {}).get("rename"):
                stats["dsl_rejected"] += 1
                stats.setdefault("dsl_rejected_sample", f"{type(ex).__name__}: {str(ex)[:80]}")
                continue
            raise
        if len(times) != spec["n"] + 1 or times[-1] != fp.normalize(spec["stop"], spec["dt"], spec["start"], max(fp.scale(spec["start"]), fp.scale(spec["dt"]))):
            ref_fail = ref_fail or (spec, ("<grid>", len(times) - 1, times[-1], spec["stop"]))
        if any(math.isnan(v) or abs(v) > 1e9 for vs in ref.values() for v in map(float, vs)):
            stats["rejected"] += 1
            continue
        for n, kd, p in spec["els"]:
            stats["kinds"][kd] = stats["kinds"].get(kd, 0) + 1
            if kd != "vconstant":
                count_forms(p if kd not in ("stock", "vstock") else p[1])
        stats["dt"][str(spec["dt"])] = stats["dt"].get(str(spec["dt"]), 0) + 1
        for vk, vv in spec.get("variant", {}).items():
            if not vk.endswith("_seed"):
                stats["variants"][f"{vk}={vv}"] = stats["variants"].get(f"{vk}={vv}", 0) + 1
        stats.setdefault("start", {}); stats["start"][str(spec["start"])] = stats["start"].get(str(spec["start"]), 0) + 1
        stats["zero_valued_constants_or_initials"] = stats.get("zero_valued_constants_or_initials", 0) + sum(1 for _, kd_, p_ in spec["els"] if (kd_ == "constant" and p_ == 0.0) or (kd_ == "stock" and p_[0] == ("num", 0.0)))
        if long_run:
            stats["long_runs"][str(spec["dt"])] = stats["long_runs"].get(str(spec["dt"]), 0) + 1
        stats["steps_max"] = max(stats["steps_max"], spec["n"])
        stats["arrayed_models"] += 1 if spec.get("vsize") else 0
        d = first_diff(spec, real, ref)
        if d is not None and first_diff(spec, real, ref, exact=False) is None:
            # same trajectory up to rounding (e.g. another exact formula for the interpolation): no accusation
            rounding_only = rounding_only or (spec, d)
            d = None
        if d is not None and ref_fail is None:
            ref_fail = (spec, d)
        if spec.get("_second_use_differs") and ref_fail is None:
            n_, k_ = spec["_second_use_differs"][0]
            ref_fail = (spec, (n_, k_, float("nan"), float(ref[n_][k_])))
        # the other observation points named by the property, on a sample of the models
        if stats["channel_models"] < (4 if chk.quick else 60) and force_dt != "directed":
            stats["channel_models"] += 1
            try:
                ch = channel_values(spec)
            except Exception as ex:
                ch = {}
                stats.setdefault("channel_errors", []).append(f"{type(ex).__name__}: {str(ex)[:100]}")
            for cname, vals_ in ch.items():
                dch = first_diff(spec, {n: vals_.get(n, real[n]) for n in real}, ref, exact=False)
                if len(next(iter(vals_.values()))) != len(times):
                    dch = ("<grid>", len(next(iter(vals_.values()))) - 1, float("nan"), float(len(times) - 1))
                if dch is not None and chan_fail is None:
                    chan_fail = (spec, cname, dch)
        # driver request
        lines_ = ["reset"]
        try:
            bodies = {n: body_words(fs) for n, fs in strings.items()}
        except (pyfrag.Unsupported, AssertionError, ValueError) as ex:
            # function strings outside the modelled Python fragment (a rewrite of the code generator): the interpreter cannot
            # read them; the model is still checked against the Euler reference, the broken tie is reported without input
            unsupported_text.append(f"{type(ex).__name__}: {str(ex)[:80]}")
            chk.case(json.dumps(spec["els"]) + str(spec["dt"]), nontrivial=True, sample={"dt": spec["dt"], "unsupported_text": True})
            continue
        lits = set()
        for w in bodies.values():
            lits |= literals_of(w)
        for t in sorted(lits):
            lines_.append(f"lit {t} {fbits(float(t))}")
        prec = max(fp.scale(spec["start"]), fp.scale(spec["dt"]))
        lines_.append(f"spec {fbits(spec['start'])} {fbits(spec['dt'])} {fbits(spec['stop'])} {prec}")
        lines_.append("times " + ",".join(fbits(t) for t in times))
        for tn, pts in spec["tables"].items():
            lines_.append(f"points {tn} " + ",".join(f"{fbits(x)}:{fbits(y)}" for x, y in pts))
        for n, w in bodies.items():
            lines_.append(f"el {n.encode('latin-1', 'replace').hex()} " + " ".join(w))
        lines_.append("runall")
        # the cache-free recursive evaluator (Core `solveF`) on the first indices; its cost is exponential in the index
        lines_.append(f"solve {min(solveK, spec['n'])}")
        # decidable acyclicity criterion (Core `modelOKb`; sound by `acyclic_of_modelOKb`) on the real strings
        lines_.append("acyclic")
        metas.append((spec, real, len(req), len(lines_)))
        req += lines_
        chk.case(json.dumps(spec["els"]) + str(spec["dt"]), nontrivial=True,
                 sample={"dt": spec["dt"], "start": spec["start"], "n": spec["n"], "elements": [(n, k, show_g(p) if k not in ("stock", "constant", "vstock", "vconstant") else (show_g(p[1]) if k in ("stock", "vstock") else p)) for n, k, p in spec["els"]]})
    out = drive("C01", req) if req else []
    corr = None
    def parse_reply(reply):
        # element names may contain `=`-free brackets only; split on the first `=`
        return {bytes.fromhex(k).decode("latin-1"): v for k, v in (x.split("=", 1) for x in reply.split(";"))} if "=" in reply else {}
    for spec, real, off, ln in metas:
        reply, reply_solve, reply_acyc = out[off + ln - 3], out[off + ln - 2], out[off + ln - 1]
        bad_line = next((i for i in range(off, off + ln - 3) if out[i] != "ok"), None)
        if bad_line is not None:
            corr = corr or (spec, f"driver rejected line {req[bad_line]!r}: {out[bad_line]}")
            continue
        got, got_solve = parse_reply(reply), parse_reply(reply_solve)
        # every model whose references are all at `t` or `t - model.dt` (no delay) must pass the syntactic criterion;
        # a delay reads its input at `t - d`, which the criterion does not cover (those models are covered by the
        # instrumented evaluator alone)
        has_delay = has_form(spec, {"delay"})
        stats["syntactically_acyclic"] = stats.get("syntactically_acyclic", 0) + (reply_acyc == "true")
        stats["with_delay"] = stats.get("with_delay", 0) + has_delay
        if reply_acyc != "true" and not has_delay:
            corr = corr or (spec, f"the real function strings do not satisfy the acyclicity criterion modelOKb: {reply_acyc}")
        K = min(solveK, spec["n"])
        # numpy's exp/sin/cos are not the C library's (last-bit differences): models using them are compared
        # with a tolerance, and a larger difference (a 1-ulp difference amplified by a discontinuity) is only
        # counted — the reference check, which calls the same numpy functions, stays exact for them
        opaque = has_form(spec, OPAQUE)
        def same(got_s, vals):
            want = ",".join(fbits(v if v != 0 else 0.0) for v in vals)
            g = (got_s or "").replace("8000000000000000", "0000000000000000")
            if g == want or not opaque:
                return g == want, want
            try:
                gv = [unbits(x) for x in g.split(",")]
            except Exception:
                return False, want
            return len(gv) == len(vals) and all(a == b or abs(a - b) <= 1e-9 * max(1.0, abs(b)) for a, b in zip(gv, vals)), want
        ok_model = True
        for n, _, _ in expand_els(spec):
            # the sign of zero is not compared: Python's max(0, x) returns the int 0, and int arithmetic has no -0
            okr, want = same(got.get(real_name(spec, n)), real[n])
            oks, want_s = same(got_solve.get(real_name(spec, n)), real[n][:K + 1])
            if not (okr and oks):
                ok_model = False
                if not opaque:
                    corr = corr or (spec, f"element {n}: model {got.get(real_name(spec, n))} impl {want}" if not okr else
                                    f"element {n}: cache-free recursive evaluator solveF {got_solve.get(real_name(spec, n))} impl {want_s}")
                break
            stats["solveF_checked"] += K + 1
        if opaque:
            stats["opaque_models"] = stats.get("opaque_models", 0) + 1
            stats["opaque_within_tol" if ok_model else "opaque_divergent"] = stats.get("opaque_within_tol" if ok_model else "opaque_divergent", 0) + 1
    # re-parameterisation after the build: element API, scenario constants, session settings
    rp_cases = reparam_cases(chk.rng.fork("reparam"), 4 if chk.quick else 30)
    stats["reparam_cases"] = {}
    input_found = False
    for case in rp_cases:
        try:
            d = reparam_fails(case)
        except Exception as ex:
            stats.setdefault("reparam_errors", []).append(f"{case['route']}: {type(ex).__name__}: {str(ex)[:100]}")
            continue
        stats["reparam_cases"][case["route"]] = stats["reparam_cases"].get(case["route"], 0) + 1
        if d is not None:
            # shrink: drop the intermediate converter / simplify the flow while it still fails
            small = case
            for cand_els in ([e for e in case["spec"]["els"] if e[0] != "kc"], ):
                c2 = json.loads(json.dumps(case)); c2["spec"]["els"] = [(n, k, tuple_(p) if n != "s0" else ((("ref", "k0"), tuple_(p[1])))) for n, k, p in map(lambda e: (e[0], e[1], e[2]), cand_els)]
                try:
                    d2 = reparam_fails(c2)
                    if d2 is not None:
                        small, d = c2, d2
                except Exception:
                    pass
            kd = next((k for n, k, _ in small["spec"]["els"] if n == d[0]), "?")
            chk.add_finding("euler:" + kd, f"after `{small['constant']}` := {small['new']} through the {small['route']} route, element {d[0]} at grid index {d[1]} is {d[2]!r}, "
                            f"explicit Euler under the final parameters gives {d[3]!r} (a stock starts at its initial value)",
                            {"reparam": json.loads(json.dumps(small)), "element": d[0], "index": d[1], "observed": d[2], "expected": d[3]})
            input_found = True
            break
    n_lk, lk_bad = lookup_history_stream(chk.rng.fork("lookup"), 200 if chk.quick else 3000)
    stats["lookup_history_values"] = n_lk
    if lk_bad is not None or not lk_stateless:
        if lk_bad is None:
            lk_bad = {"probe": "value after an unrelated lookup differs from a fresh model's", "table": LK_TABLE}
        chk.add_finding("lookup-stateful", f"Model._lookup depends on earlier lookups: history {lk_bad.get('history')} in table {lk_bad.get('table')} returns {lk_bad.get('observed')}, clamped linear interpolation gives {lk_bad.get('expected')}",
                        {"lookup_history": lk_bad})
    chk.cov["traces_validated_against_impl"] = len(metas)
    chk.cov["distribution"] = stats
    chk.cov["rule"] = ("a deterministic directed family (every leaf / built-in form as left and right operand of − and ÷ directly inside a stock equation and a flow) + "
                       "seeded random acyclic models (1–2 stocks, 1–3 flows/biflows/converters, constants, optional smooth / trend with number or Constant parameters, optional vector family of "
                       "arrayed stock/flow/converter/constant with element-wise equations; equations to depth 3 over + − × ÷, number*element, "
                       "unary minus, min/max/abs, If, step, lookup, delay (number / Constant duration, number / Constant / no initial value), pulse, sinwave/coswave, exp, sqrt, time/dt/starttime; "
                       "every form also directly inside a stock equation); thorough: additionally 40 long runs (30–40 steps, stop time reached on the normalised grid) for EVERY dt of the list; "
                       "per model also: the cache-free recursive evaluator solveF (indices 0..3) = implementation, and the decidable acyclicity criterion on the real strings; dt from "
                       f"{dts}; per model: every element at every grid time — real simulation = Lean evalM interpreter of the real function strings (bit-exact) and = independent Euler reference. "
                       "distinct = (elements, dt); all non-trivial (≥ 1 stock with a compound equation)")
    # ---------------- decide
    if unthreaded:
        chk.notes["unthreaded"] = unthreaded
    if ref_fail is not None:
        spec, d = ref_fail
        small = shrink_model(spec, ref_fails)
        m, times, real, strings = simulate_real(small)
        ref = reference_euler(small, times)
        d = first_diff(small, real, ref) or d
        chk.add_finding("euler:" + str(next((k for n, k, _ in expand_els(small) if n == d[0]), "grid" if d[0] == "<grid>" else "?")),
                        f"element {d[0]} at grid index {d[1]}: simulation {d[2]!r}, explicit Euler {d[3]!r} (dt={small['dt']}, start={small['start']})",
                        {"spec": json.loads(json.dumps(small)), "element": d[0], "index": d[1], "observed": d[2], "expected": d[3],
                         "function_strings": strings})
    if chan_fail is not None and ref_fail is None:
        spec, cname, d = chan_fail
        chk.add_finding("euler-channel:" + cname, f"{cname}: element {d[0]} at grid index {d[1]} reports {d[2]!r}, explicit Euler {d[3]!r} (dt={spec['dt']}, start={spec['start']})",
                        {"spec": json.loads(json.dumps({k: v for k, v in spec.items() if not k.startswith('_')})), "channel": cname, "element": d[0], "index": d[1], "observed": d[2], "expected": d[3]})
    if (rounding_only or unsupported_text) and ref_fail is None and not input_found:
        if rounding_only:
            spec, d = rounding_only
            chk.add_finding("correspondence", f"values agree with the explicit-Euler reference only up to rounding (element {d[0]} index {d[1]}: {d[2]!r} vs {d[3]!r}); "
                            "bit-exactness on dyadic grids no longer holds — same trajectory, no wrong value found",
                            {"correspondence": "bit-exact Euler reference on dyadic dt (exactness tie)", "spec": json.loads(json.dumps({k: v for k, v in spec.items() if not k.startswith('_')})), "first_rounding_difference": list(d)}, found_input=False)
        if unsupported_text:
            chk.add_finding("correspondence", f"{len(unsupported_text)} generated models have function strings outside the modelled Python fragment ({unsupported_text[0]}); "
                            "the Lean interpreter could not be compared; the Euler reference found no wrong value",
                            {"correspondence": "Drive/C01 (evalM on doubles) vs Element.__call__: text not in the fragment", "detail": unsupported_text[:5]}, found_input=False)
    if not ok and ref_fail is None and not input_found:
        chk.add_finding("obligation", f"proof obligations of C01 no longer check: {why}; unthreaded operands: {unthreaded}",
                        {"theorem": "Bptk.C01.Gen.* (tableOK / shiftOK / skeleton shapes)", "detail": why, "unthreaded": unthreaded}, found_input=False)
    if corr is not None and ref_fail is None:
        spec, msg = corr
        chk.add_finding("correspondence", f"Lean interpreter of the function strings and the implementation differ: {msg[:300]}",
                        {"correspondence": "Drive/C01 (evalM on doubles) vs Element.__call__", "spec": json.loads(json.dumps(spec)), "detail": msg}, found_input=False)


def tuple_(x):
    return tuple(tuple_(y) for y in x) if isinstance(x, (list, tuple)) else x


def replay(path):
    quiet_bptk_logging()
    r = json.load(open(path))["replay"]
    if "reparam" in r:
        case = r["reparam"]
        case["spec"]["els"] = [(n, k, tuple_(p)) for n, k, p in case["spec"]["els"]]
        d = reparam_fails(case)
        print("re-parameterisation", case["route"], case["constant"], ":=", case["new"], "-> first difference", d)
        return 1 if d else 0
    if "lookup_history" in r and "history" in r["lookup_history"]:
        h = r["lookup_history"]
        m = scratch(); m.points["tbl"] = [list(q) for q in h["table"]]
        tbl = "tbl" if h.get("named") else [list(q) for q in h["table"]]
        got = [float(m._lookup(x, tbl)) for x in h["history"]]
        print("lookup history", h["history"], "->", got, "expected", h["expected"])
        return 1 if any(abs(a - b) > 1e-12 * max(1.0, abs(b)) for a, b in zip(got, h["expected"])) else 0
    if "spec" not in r:
        print(r); return 1
    def tup(x): return tuple(tup(y) for y in x) if isinstance(x, list) else x
    spec = r["spec"]; spec["els"] = [(n, k, tup(p)) for n, k, p in spec["els"]]
    m, times, real, strings = simulate_real(spec)
    ref = reference_euler(spec, times)
    bad = [(n, k, a, float(b)) for n in real for k, (a, b) in enumerate(zip(real[n], ref[n])) if a != float(b) and abs(a - float(b)) > 1e-9 * max(1, abs(float(b)))]
    print("differences:", bad[:5])
    return 1 if bad else 0
