"""Shared machinery of the /verif checks: PRNG, Lean build/driver access, evidence, verdict lines.

Run with /venv/bin/python (3.12, imports BPTK_Py from /repo's working tree).
"""
import fcntl, hashlib, json, os, re, subprocess, sys, time, struct, shutil, tempfile

VERIF = os.path.dirname(os.path.dirname(os.path.abspath(__file__)))
REPO = os.environ.get("BPTK_REPO", "/repo")
LEAN = os.path.join(VERIF, "lean")
GUARD = "BPTK_PY_VERIF"
os.environ[GUARD] = "1"
if REPO not in sys.path:
    sys.path.insert(0, REPO)

STD_AXIOMS = {"propext", "Classical.choice", "Quot.sound"}
FORBIDDEN = re.compile(r"sorry|\badmit\b|^axiom |native_decide|bv_decide|implemented_by|unsafe |maxHeartbeats 0")


# ---------------------------------------------------------------- PRNG (one state, replayable)
class Rng:
    """splitmix64; every random choice of a run derives from VERIF_SEED through this."""
    def __init__(self, seed):
        self.s = (seed * 0x9E3779B97F4A7C15 + 0x1234567) & 0xFFFFFFFFFFFFFFFF
    def next(self):
        self.s = (self.s + 0x9E3779B97F4A7C15) & 0xFFFFFFFFFFFFFFFF
        z = self.s
        z = ((z ^ (z >> 30)) * 0xBF58476D1CE4E5B9) & 0xFFFFFFFFFFFFFFFF
        z = ((z ^ (z >> 27)) * 0x94D049BB133111EB) & 0xFFFFFFFFFFFFFFFF
        return z ^ (z >> 31)
    def below(self, n):
        return self.next() % n
    def range(self, lo, hi):           # inclusive
        return lo + self.below(hi - lo + 1)
    def choice(self, xs):
        return xs[self.below(len(xs))]
    def chance(self, num, den):
        return self.below(den) < num
    def shuffle(self, xs):
        xs = list(xs)
        for i in range(len(xs) - 1, 0, -1):
            j = self.below(i + 1)
            xs[i], xs[j] = xs[j], xs[i]
        return xs
    def fork(self, tag):
        h = int.from_bytes(hashlib.sha256(f"{self.s}:{tag}".encode()).digest()[:8], "big")
        return Rng(h)


def fbits(x):
    """IEEE-754 bit pattern of a float as 16 hex digits (the protocol's float format)."""
    return struct.pack(">d", float(x)).hex()


def from_fbits(h):
    return struct.unpack(">d", bytes.fromhex(h))[0]


# ---------------------------------------------------------------- Lean access
class LeanError(Exception):
    pass


def _lock():
    os.makedirs(os.path.join(LEAN, ".lake"), exist_ok=True)
    f = open(os.path.join(LEAN, ".lake", "verif.lock"), "w")
    fcntl.flock(f, fcntl.LOCK_EX)
    return f


def write_if_changed(path, text):
    os.makedirs(os.path.dirname(path), exist_ok=True)
    try:
        if open(path).read() == text:
            return False
    except FileNotFoundError:
        pass
    tmp = path + ".tmp%d" % os.getpid()
    with open(tmp, "w") as f:
        f.write(text)
    os.replace(tmp, path)
    return True


def lake_build(targets, timeout=1500):
    """`lake build targets` under the project lock. Returns dict(ok, log, axioms, errors, theorems)."""
    lk = _lock()
    try:
        t0 = time.time()
        p = subprocess.run(["lake", "build"] + list(targets), cwd=LEAN, capture_output=True, text=True,
                           timeout=timeout)
        log = p.stdout + p.stderr
    finally:
        lk.close()
    axioms = {}
    for m in re.finditer(r"'([^']+)' depends on axioms: \[([^\]]*)\]", log):
        axioms[m.group(1)] = [a.strip() for a in m.group(2).split(",") if a.strip()]
    for m in re.finditer(r"'([^']+)' does not depend on any axioms", log):
        axioms[m.group(1)] = []
    errors = re.findall(r"^error: (\S+?\.lean):(\d+):(\d+): (.*)$", log, flags=re.M)
    return {"ok": p.returncode == 0, "log": log, "axioms": axioms, "errors": errors,
            "wall_s": time.time() - t0}


def audit_sources(files):
    """grep the given Lean sources for constructs outside the trusted base (comments stripped)."""
    bad = []
    for fn in files:
        try:
            src = open(fn).read()
        except FileNotFoundError:
            continue
        src = re.sub(r"/-.*?-/", lambda m: "\n" * m.group(0).count("\n"), src, flags=re.S)
        for i, line in enumerate(src.split("\n"), 1):
            line = line.split("--")[0]
            if FORBIDDEN.search(line):
                bad.append(f"{os.path.relpath(fn, VERIF)}:{i}: {line.strip()}")
    return bad


def count_theorems(files):
    n = 0
    names = []
    for fn in files:
        try:
            src = open(fn).read()
        except FileNotFoundError:
            continue
        src = re.sub(r"/-.*?-/", "", src, flags=re.S)
        for m in re.finditer(r"^\s*(?:private\s+|protected\s+)?(theorem|lemma|example)\s*([^\s:(\[{]*)", src, flags=re.M):
            n += 1
            names.append(m.group(2) or "example")
    return n, names


def drive(driver, lines, timeout=1200):
    """Run `lake env lean --run Drive/<driver>.lean` on the given request lines; returns reply lines."""
    inp = "\n".join(lines) + "\n"
    p = subprocess.run(["lake", "env", "lean", "--run", f"Drive/{driver}.lean"], cwd=LEAN, input=inp,
                       capture_output=True, text=True, timeout=timeout)
    if p.returncode != 0:
        raise LeanError(f"driver {driver} exited {p.returncode}: {p.stderr[-2000:]}{p.stdout[-500:]}")
    out = p.stdout.split("\n")
    if out and out[-1] == "":
        out.pop()
    return out


# ---------------------------------------------------------------- known findings
def load_known():
    try:
        return json.load(open(os.path.join(VERIF, "known_findings.json")))
    except FileNotFoundError:
        return []


# ---------------------------------------------------------------- result of one check
class Finding:
    """A property violation exhibited on the real code: `key` identifies the class (call site / witness
    class / input family) used to match known_findings.json; `replay` is the concrete failing input."""
    def __init__(self, key, text, replay, found_input=True):
        self.key, self.text, self.replay, self.found_input = key, text, replay, found_input


class Check:
    def __init__(self, pid, tier, seed):
        self.pid, self.tier, self.seed = pid, tier, seed
        self.rng = Rng(seed)
        self.t0 = time.time()
        self.findings = []
        self.cov = {"evaluations": 0, "distinct_nontrivial": 0, "rule": "", "samples": [],
                    "obligations": 0, "discharged": 0,
                    "checker_cmd": "cd lean && lake build Bptk.Gen.%s  (+ #print axioms audit, forbidden-construct grep)" % pid,
                    "trusted_base": [], "traces_validated_against_impl": 0}
        self.assumptions = []
        self._distinct = set()
        self.infra_error = None
        self.notes = {}

    quick = property(lambda self: self.tier == "quick")

    # -- coverage bookkeeping
    def case(self, canon, nontrivial=True, sample=None):
        self.cov["evaluations"] += 1
        if nontrivial:
            self._distinct.add(hashlib.sha1(repr(canon).encode()).digest()[:8])
        if sample is not None and len(self.cov["samples"]) < 6:
            self.cov["samples"].append(sample)

    def add_finding(self, key, text, replay, found_input=True):
        self.findings.append(Finding(key, text, replay, found_input))

    # -- the Lean side: write Gen file, build, audit
    def prove(self, gen_text, extra_sources=(), leanchecker=None):
        gen = os.path.join(LEAN, "Bptk", "Gen", f"{self.pid}.lean")
        write_if_changed(gen, gen_text)
        r = lake_build([f"Bptk.Gen.{self.pid}"])
        srcs = [gen, os.path.join(LEAN, "Bptk", "Props", f"{self.pid}.lean"),
                os.path.join(LEAN, "Bptk", "Core", f"{self.pid}.lean")] + [os.path.join(LEAN, s) for s in extra_sources]
        nthm, names = count_theorems(srcs)
        self.cov["obligations"] = nthm
        self.cov["theorem_names"] = names[:200]
        self.notes["build_wall_s"] = round(r["wall_s"], 1)
        bad_axioms = {k: v for k, v in r["axioms"].items() if not set(v) <= STD_AXIOMS}
        audit = audit_sources(srcs)
        self.cov["axioms"] = r["axioms"]
        self.build = r
        if r["ok"] and not bad_axioms and not audit:
            self.cov["discharged"] = nthm
            if (leanchecker if leanchecker is not None else not self.quick):
                mods = [f"Bptk.Gen.{self.pid}", f"Bptk.Props.{self.pid}"]
                if os.path.exists(os.path.join(LEAN, "Bptk", "Core", f"{self.pid}.lean")):
                    mods.append(f"Bptk.Core.{self.pid}")
                for s_ in extra_sources:
                    m_ = s_[:-5].replace("/", ".")
                    if m_.startswith("Bptk.") and m_ not in mods and os.path.exists(os.path.join(LEAN, s_)):
                        mods.append(m_)
                t = time.time()
                p = subprocess.run(["lake", "env", "leanchecker"] + mods, cwd=LEAN, capture_output=True, text=True)
                self.notes["leanchecker"] = {"rc": p.returncode, "wall_s": round(time.time() - t, 1),
                                             "tail": (p.stdout + p.stderr)[-300:]}
                if p.returncode != 0:
                    self.cov["discharged"] = 0
                    return False, "leanchecker rejected: " + (p.stdout + p.stderr)[-500:]
            return True, ""
        self.cov["discharged"] = 0
        why = []
        if not r["ok"]:
            why.append("lake build failed: " + "; ".join(f"{e[0]}:{e[1]}: {e[3]}" for e in r["errors"][:5]))
            if not r["errors"]:
                why.append(r["log"][-800:])
        if bad_axioms:
            why.append(f"non-standard axioms: {bad_axioms}")
        if audit:
            why.append(f"forbidden constructs: {audit[:5]}")
        return False, " | ".join(why)

    # -- verdict
    def finish(self):
        self.cov["distinct_nontrivial"] = len(self._distinct)
        if "exhaustive" in self.cov and not isinstance(self.cov["exhaustive"], bool):   # schema: boolean
            self.cov["exhaustive_scope"] = str(self.cov["exhaustive"])
            self.cov["exhaustive"] = False
        if not self.cov.get("samples"):
            self.cov["samples"] = ["(no case generated)"]
        known = [k for k in load_known() if k.get("property") == self.pid and k.get("kind") == "finding"]
        lines, viol = [], []
        seen = set()
        for f in self.findings:
            if f.key in seen:
                continue
            seen.add(f.key)
            match = next((k for k in known if k.get("key") == f.key), None)
            if match is not None and f.found_input:
                lines.append(f"KNOWN-FINDING: property={self.pid} {f.key}: {f.text}")
            else:
                viol.append(f)
        os.makedirs(os.path.join(VERIF, "replays"), exist_ok=True)
        for i, f in enumerate(viol):
            path = os.path.join("replays", f"{self.pid}-{self.seed}-{i}.json")
            with open(os.path.join(VERIF, path), "w") as fh:
                json.dump({"property": self.pid, "seed": self.seed, "tier": self.tier, "key": f.key,
                           "text": f.text, "found_input": f.found_input, "replay": f.replay,
                           "how_to_run": f"./check {self.pid} --replay {path}"}, fh, indent=1, default=str)
            lines.append(f"VIOLATION property={self.pid} replay={path}" + ("" if f.found_input else " no-failing-input-found"))
        ev = {"property_id": self.pid, "tier": self.tier, "seed": self.seed, "level": "proof",
              "coverage": self.cov, "assumptions": self.assumptions,
              "wall_s": round(time.time() - self.t0, 2), "violations": len(viol),
              "known_findings_reproduced": [f.key for f in self.findings if f not in viol],
              "notes": self.notes}
        os.makedirs(os.path.join(VERIF, "evidence"), exist_ok=True)
        tmp = os.path.join(VERIF, "evidence", f".{self.pid}.json.tmp")
        with open(tmp, "w") as fh:
            json.dump(ev, fh, indent=1, default=str)
        os.replace(tmp, os.path.join(VERIF, "evidence", f"{self.pid}.json"))
        for l in lines:
            print(l)
        print(f"[{self.pid}] tier={self.tier} seed={self.seed} obligations={self.cov['obligations']} "
              f"discharged={self.cov['discharged']} evaluations={self.cov['evaluations']} "
              f"distinct={self.cov['distinct_nontrivial']} violations={len(viol)} "
              f"known={len(self.findings) - len(viol)} wall={ev['wall_s']}s")
        return 1 if viol else 0


def scratch_dir(prefix="bptkverif"):
    base = os.environ.get("VERIF_SCRATCH", "/var/tmp")
    return tempfile.mkdtemp(prefix=prefix, dir=base)


def quiet_bptk_logging():
    """BPTK logs to a file in the cwd and to stdout; keep the check's stdout clean."""
    try:
        import BPTK_Py.logger.logger as L
        L.loglevel = "ERROR"
        L.logmodes = []
    except Exception:
        pass
