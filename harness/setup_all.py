"""setup: build the static Lean library (Core, Props, drivers' imports). Gen files are produced by the checks."""
import os, subprocess, sys
sys.path.insert(0, os.path.dirname(os.path.abspath(__file__)))
import common
r = common.lake_build(["Bptk"])
print(r["log"][-3000:])
sys.exit(0 if r["ok"] else 1)
