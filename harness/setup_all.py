"""setup: build the static Lean library (all Core and Props modules). Gen files are produced by the checks."""
import glob, os, sys
sys.path.insert(0, os.path.dirname(os.path.abspath(__file__)))
import common
mods = []
for d in ("Core", "Proofs", "Props"):
    for f in sorted(glob.glob(os.path.join(common.LEAN, "Bptk", d, "*.lean"))):
        mods.append(f"Bptk.{d}." + os.path.basename(f)[:-5])
r = common.lake_build(mods)
print(r["log"][-3000:])
print("setup: built", len(mods), "modules; ok =", r["ok"])
sys.exit(0 if r["ok"] else 1)
