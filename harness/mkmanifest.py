"""Regenerates MANIFEST.json from harness/manifest_data.py (kept valid at all times)."""
import json, os, sys
sys.path.insert(0, os.path.dirname(os.path.abspath(__file__)))
from manifest_data import CHECKS, NOT_APPLICABLE, HOOK_COMMITS
VERIF = os.path.dirname(os.path.dirname(os.path.abspath(__file__)))
props = [json.loads(l)["id"] for l in open(os.path.join(VERIF, "properties.jsonl"))]
checks = []
for pid in props:
    if pid not in CHECKS:
        continue
    c = CHECKS[pid]
    checks.append({
        "property_id": pid,
        "quick_cmd": f"./check {pid} --tier quick",
        "thorough_cmd": f"./check {pid} --tier thorough",
        "evidence_file": f"evidence/{pid}.json",
        "replay_cmd_template": f"./check {pid} --replay {{path}}",
        "engine": "lean-proof+correspondence",
        "level_claimed": {"category": "proof", "text": c["text"], "design_ref": f"DESIGN.md §7 {pid}; as built: §11.6, §11.7, notes/{pid}-report.md"},
        "level_note": c["note"],
        "technique": c["technique"],
    })
na = [{"property_id": p, "reason": NOT_APPLICABLE.get(p, "check not built yet in this session; see DESIGN.md §7 for the plan")}
      for p in props if p not in CHECKS]
m = {
    "version": 1,
    "setup_cmd": "./setup.sh",
    "hooks": {"guard": "BPTK_PY_VERIF", "enable": "export BPTK_PY_VERIF=1 (set by harness/common.py; no source hook is needed so far: probes, clocks and schedulers work from the harness)",
              "baseline_off_cmd": "cd /repo && /venv/bin/python -m pytest -ra -q -p no:cacheprovider --timeout=900 --continue-on-collection-errors",
              "source_commits": HOOK_COMMITS, "add_only": True},
    "engines": [
        {"name": "lean-proof+correspondence", "path": "harness/orchestrate.py", "serves_properties": [c["property_id"] for c in checks],
         "kind_free_text": "Lean 4 theorems over hand-written executable models (lean/Bptk/Core, lean/Bptk/Props); per-run obligations generated from probes of /repo into lean/Bptk/Gen; correspondence of the executable model with the implementation through line-protocol drivers (lean/Drive); failing-input search against an independent reference on the real code"}],
    "checks": checks,
    "not_applicable": na,
    "notes": "exit codes: 0 held (KNOWN-FINDING lines possible), 1 VIOLATION, 2 infrastructure. known_findings.json lists findings/fixes. See DESIGN.md.",
}
json.dump(m, open(os.path.join(VERIF, "MANIFEST.json"), "w"), indent=1)
print("checks:", [c["property_id"] for c in checks], "not_applicable:", [n["property_id"] for n in na])
