#!/bin/bash
# Re-runs every stored seeded defect against the check of its property: apply to /repo, ./check, undo.
cd "$(dirname "$0")/.."
git -C /repo status --short | grep -q . && { echo "/repo not clean"; exit 2; }
# evidence files must describe the unchanged tree: keep them aside while seeded trees are checked
rm -rf /var/tmp/evidence.keep; cp -r evidence /var/tmp/evidence.keep
trap 'rm -rf evidence; mv /var/tmp/evidence.keep evidence' EXIT
for d in seeded/*/; do
  id=$(basename $d); p=${id:0:3}
  if ! git -C /repo apply --check $PWD/$d/patch.diff 2>/dev/null; then echo "$id: patch no longer applies to HEAD"; continue; fi
  git -C /repo apply $PWD/$d/patch.diff
  out=$(./check $p 2>&1 | grep "^VIOLATION\|^\[C"); rc=$(echo "$out" | grep -c "^VIOLATION")
  git -C /repo checkout -- .
  echo "$id: $rc violation line(s); $(echo "$out" | grep '^VIOLATION' | head -1)"
  /venv/bin/python - "$d/meta.json" "$p" "$rc" <<'PY'
import json, sys
f, p, rc = sys.argv[1], sys.argv[2], int(sys.argv[3])
m = json.load(open(f)); m["regression_last"] = {"check": p, "violation_lines": rc}; json.dump(m, open(f, "w"), indent=1)
PY
done
