#!/bin/bash
# Re-runs every stored seeded defect against the check of its property: apply, ./check, undo.
# By default the patches are applied to /repo itself (nothing else may use /repo or run checks meanwhile).
# With SEED_REPO=<scratch worktree of /repo HEAD> the patches go there and the checks run with BPTK_REPO set to it,
# so that a second clone of /verif can run the regression while /repo and the first clone stay in use.
cd "$(dirname "$0")/.."
R=${SEED_REPO:-/repo}
git -C $R status --short | grep -q . && { echo "$R not clean"; exit 2; }
[ "$R" != /repo ] && export BPTK_REPO=$R
# evidence files must describe the unchanged tree: keep them aside while seeded trees are checked
K=$(mktemp -d /var/tmp/evidence.keep.XXXX); cp -r evidence/. $K/
trap 'rm -rf evidence; mkdir evidence; cp -r $K/. evidence/; rm -rf $K' EXIT
for d in ${SEEDS:-seeded/*/}; do
  id=$(basename $d); p=${id:0:3}
  if ! git -C $R apply --check $PWD/seeded/$id/patch.diff 2>/dev/null; then echo "$id: patch no longer applies to HEAD"; continue; fi
  git -C $R apply $PWD/seeded/$id/patch.diff
  out=$(./check $p 2>&1 | grep "^VIOLATION\|^\[C"); rc=$(echo "$out" | grep -c "^VIOLATION")
  git -C $R checkout -- .
  echo "$id: $rc violation line(s); $(echo "$out" | grep '^VIOLATION' | head -1)"
  /venv/bin/python - "seeded/$id/meta.json" "$p" "$rc" <<'PY'
import json, sys
f, p, rc = sys.argv[1], sys.argv[2], int(sys.argv[3])
m = json.load(open(f)); m["regression_last"] = {"check": p, "violation_lines": rc}; json.dump(m, open(f, "w"), indent=1)
PY
done
