import json, jsonschema, glob, sys
jsonschema.validate(json.load(open('MANIFEST.json')), json.load(open('/root/.vp/MANIFEST.schema.json')))
s = json.load(open('/root/.vp/EVIDENCE.schema.json'))
for f in sorted(glob.glob('evidence/*.json')):
    jsonschema.validate(json.load(open(f)), s)
    print('valid', f)
print('manifest valid')
