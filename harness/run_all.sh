#!/bin/bash
# usage: run_all.sh <tier> <seed> [props...]   — runs the checks sequentially, prints verdict lines only
tier=$1; seed=$2; shift 2
props=${@:-C01 C02 C03 C04 C05 C06 C07 C08 C09 C10 C11 C12 C13 C14 C15 C16 C17 C18 C19 C20}
cd "$(dirname "$0")/.."
for p in $props; do
  VERIF_SEED=$seed ./check $p --tier $tier > /tmp/runall_$p.$seed.log 2>&1; rc=$?
  echo "rc=$rc $(grep -c '^VIOLATION' /tmp/runall_$p.$seed.log) violations: $(grep '^\[C' /tmp/runall_$p.$seed.log | tail -1)"
  grep '^VIOLATION' /tmp/runall_$p.$seed.log | head -3
done
