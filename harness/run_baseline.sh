#!/bin/bash
# Runs the repository's pinned test suite (guard off) from a scratch copy of /repo's working tree and
# compares with BASELINE.json's stable_pass list.  usage: run_baseline.sh [outfile]
set -e
W=$(mktemp -d /var/tmp/bptkbase.XXXXXX)
rsync -a --exclude .git /repo/ $W/repo/
cd $W/repo
env -u BPTK_PY_VERIF /venv/bin/python -m pytest -ra -q -p no:cacheprovider --timeout=900 --continue-on-collection-errors --junitxml=$W/junit.xml > $W/out.txt 2>&1 || true
/venv/bin/python - $W/junit.xml <<'PY'
import sys, json, xml.etree.ElementTree as ET
base = set(json.load(open('/root/.vp/BASELINE.json'))['stable_pass'])
passed = set()
for tc in ET.parse(sys.argv[1]).getroot().iter('testcase'):
    name = tc.get('classname') + '::' + tc.get('name')
    if not any(ch.tag in ('failure', 'error', 'skipped') for ch in tc):
        passed.add(name)
missing = sorted(base - passed)
print('BASELINE passed', len(base & passed), 'of', len(base), 'missing:', missing)
PY
tail -3 $W/out.txt
cd /; rm -rf $W
