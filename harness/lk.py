"""lake build under the project lock:  /venv/bin/python harness/lk.py Bptk.Props.C14 [more targets]"""
import sys, os
sys.path.insert(0, os.path.dirname(os.path.abspath(__file__)))
import common
r = common.lake_build(sys.argv[1:])
print(r["log"][-12000:])
sys.exit(0 if r["ok"] else 1)
