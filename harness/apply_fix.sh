#!/bin/bash
# usage: apply_fix.sh <slug>   applies fixes/<slug>.patch to /repo and commits with the .msg text
set -e
slug=$1
cd /repo
git apply --check /verif/fixes/$slug.patch
git apply /verif/fixes/$slug.patch
if [ -f /verif/fixes/$slug.msg ]; then sed 's/^# \{0,1\}//' /verif/fixes/$slug.msg > /tmp/msg.$$; else echo "fix: $slug" > /tmp/msg.$$; fi
git add -A; git commit -q -F /tmp/msg.$$; rm /tmp/msg.$$
git log --oneline | head -1
